#!/usr/bin/env python3
"""Regenerates the table of section 11.5 of DESIGN.md from seeded/*/meta.json (between the markers)."""
import json, os, re
ROOT = os.path.dirname(os.path.dirname(os.path.abspath(__file__)))
rows = []
for n in sorted(os.listdir(os.path.join(ROOT, "seeded"))):
    mp = os.path.join(ROOT, "seeded", n, "meta.json")
    if not os.path.exists(mp):
        continue
    m = json.load(open(mp))
    summ = re.sub(r"\s+", " ", (m.get("summary") or "")).strip()
    summ = summ[:230] + ("…" if len(summ) > 230 else "")
    cr = m.get("checks_run", {})
    res = []
    for k, v in sorted(cr.items()):
        first = re.sub(r"\s+", " ", v.get("first", ""))
        mt = re.search(r"\((\w+)-(?:debug|release)\)", first)
        by = mt.group(1) if mt else ("crash marker" if "crashed the whole process" in first else (first.split(":")[0][:40] if first else ""))
        res.append("%s: %s%s" % (k.split("@")[0], v["result"].replace("caught:with-failing-input", "failing input").replace("caught:no-failing-input-found", "broken tie only"), (" (" + by + ")") if by else ""))
    conf = m.get("confirmation", {}).get("confirmed")
    note = re.sub(r"\s+", " ", m.get("note", "")).strip()
    if note:
        summ += " — NOTE: " + note.replace("|", "/")
    rows.append("| %s | %s | %s | %s |" % (n, summ.replace("|", "/"), "yes" if conf else "no longer (see note)", "; ".join(res) or "not run"))
table = "| change | what it does | confirmed | caught by |\n|---|---|---|---|\n" + "\n".join(rows)
p = os.path.join(ROOT, "DESIGN.md")
s = open(p).read()
a, b = "<!-- seeded-table-begin -->", "<!-- seeded-table-end -->"
if a in s:
    s = s[:s.index(a) + len(a)] + "\n" + table + "\n" + s[s.index(b):]
else:
    s = s.replace("SEEDED_TABLE", a + "\n" + table + "\n" + b)
open(p, "w").write(s)
print(len(rows), "rows")

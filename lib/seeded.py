#!/usr/bin/env python3
"""Seeded changes (realistic regressions written by independent sub-agents).

  seeded.py import  <agent-out-dir> <name>   copy patch.diff / demo / meta.json into /verif/seeded/<name>/
  seeded.py confirm <name>                   scratch worktree: suite passes with the patch, demo fails with it and passes without
  seeded.py run     <name> [prop ...]        apply to /repo, run ./check for the property (or the given ones), undo
  seeded.py runall                           run every seeded change against its property; print a table

Nothing here is ever committed to /repo; the working tree is restored with `git checkout -- .`
(and untracked files the patch created are removed) straight after each run.
"""
import os, sys, json, subprocess, shutil, time

ROOT = os.path.dirname(os.path.dirname(os.path.abspath(__file__)))
SEEDED = os.path.join(ROOT, "seeded")
REPO = "/repo"


def sh(cmd, cwd=None, timeout=3600):
    p = subprocess.run(cmd, cwd=cwd, shell=True, stdout=subprocess.PIPE, stderr=subprocess.STDOUT, timeout=timeout,
                       env=dict(os.environ, CARGO_NET_OFFLINE="true"))
    return p.returncode, p.stdout.decode("utf-8", "replace")


def meta(name):
    return json.load(open(os.path.join(SEEDED, name, "meta.json")))


def save_meta(name, m):
    json.dump(m, open(os.path.join(SEEDED, name, "meta.json"), "w"), indent=1)


def cmd_import(src, name):
    d = os.path.join(SEEDED, name)
    os.makedirs(d, exist_ok=True)
    for f in os.listdir(src):
        shutil.copy(os.path.join(src, f), os.path.join(d, f))
    m = meta(name)
    m.setdefault("property", name.split("-")[0])
    save_meta(name, m)
    print("imported", name)


def cmd_confirm(name):
    d = os.path.join(SEEDED, name)
    wt = "/tmp/seedchk/" + name
    sh("git -C %s worktree remove --force %s" % (REPO, wt))
    shutil.rmtree(wt, ignore_errors=True)
    os.makedirs("/tmp/seedchk", exist_ok=True)
    rc, out = sh("git -C %s worktree add --detach %s HEAD" % (REPO, wt))
    res = {"at_repo_commit": sh("git -C %s rev-parse --short HEAD" % REPO)[1].strip()}
    try:
        rc, out = sh("git apply --3way %s/patch.diff || git apply %s/patch.diff" % (d, d), cwd=wt)
        res["patch_applies"] = rc == 0
        if rc != 0:
            res["apply_output"] = out[-1500:]
            return res
        sh("git reset -q", cwd=wt)
        rc, out = sh("cargo test --offline 2>&1 | grep -E '^test result|FAILED|failed|panicked|^error' | head -20", cwd=wt, timeout=3000)
        res["suite_with_patch"] = out.strip().splitlines()
        # all three test binaries (unit, integration, doc) must report ok: a run that was killed or
        # that stopped at the first failing binary does not count as a pass
        res["suite_passes_with_patch"] = ("FAILED" not in out) and ("error: test failed" not in out) and out.count("test result: ok") >= 3
        demo = os.path.join(d, "demo.rs")
        if os.path.exists(demo):
            shutil.copy(demo, os.path.join(wt, "tests", "demo.rs"))
            rc1, out1 = sh("cargo test --offline --test demo 2>&1 | tail -15", cwd=wt, timeout=3000)
            res["demo_with_patch"] = "fails" if ("FAILED" in out1 or "panicked" in out1 or "error" in out1) else "passes"
            res["demo_with_patch_tail"] = out1.strip().splitlines()[-4:]
            sh("git checkout -- src", cwd=wt)
            rc2, out2 = sh("cargo test --offline --test demo 2>&1 | tail -8", cwd=wt, timeout=3000)
            res["demo_without_patch"] = "passes" if ("test result: ok" in out2 and "FAILED" not in out2) else "fails"
            res["demo_without_patch_tail"] = out2.strip().splitlines()[-3:]
        res["confirmed"] = bool(res.get("suite_passes_with_patch") and res.get("demo_with_patch") == "fails" and res.get("demo_without_patch") == "passes")
        return res
    finally:
        sh("git -C %s worktree remove --force %s" % (REPO, wt))
        shutil.rmtree(wt, ignore_errors=True)
        m = meta(name)
        m["confirmation"] = res
        save_meta(name, m)
        print(name, "confirmed" if res.get("confirmed") else "NOT CONFIRMED", json.dumps({k: v for k, v in res.items() if k in ("patch_applies", "suite_passes_with_patch", "demo_with_patch", "demo_without_patch")}))


def cmd_run(name, props=None, tier="quick"):
    d = os.path.join(SEEDED, name)
    m = meta(name)
    props = props or [m["property"]]
    rc, out = sh("git -C %s status --porcelain" % REPO)
    if out.strip():
        print("refusing: /repo working tree is not clean:\n" + out)
        return None
    results = {}
    try:
        rc, out = sh("git apply --3way %s/patch.diff || git apply %s/patch.diff" % (d, d), cwd=REPO)
        sh("git reset -q", cwd=REPO)
        if rc != 0:
            print(name, "patch does not apply:", out[-500:])
            return None
        for p in props:
            t = time.time()
            rc, out = sh("./check %s --tier %s" % (p, tier), cwd=ROOT, timeout=7200)
            viol = [l for l in out.splitlines() if l.startswith("VIOLATION")]
            how = "missed"
            if rc != 0 and viol:
                how = "caught:no-failing-input-found" if "no-failing-input-found" in viol[0] else "caught:with-failing-input"
            detail = ""
            rp = os.path.join(ROOT, "replays", "%s-%s.json" % (p, tier))
            if rc != 0 and os.path.exists(rp):
                r = json.load(open(rp))
                if r.get("violations"):
                    detail = r["violations"][0]["what"][:300]
                elif r.get("theorem_or_correspondence"):
                    x = r["theorem_or_correspondence"][0]
                    detail = "%s %s: %s" % (x["kind"], x["name"], str(x["detail"])[:250])
            results[p] = {"result": how, "exit": rc, "wall_s": round(time.time() - t, 1), "first": detail}
            print("%-14s %-4s %-32s %s" % (name, p, how, detail[:160].replace("\n", " ")))
    finally:
        sh("git checkout -- . && git clean -fdq src tests", cwd=REPO)
    m.setdefault("checks_run", {}).update({("%s@%s" % (p, tier)): r for p, r in results.items()})
    save_meta(name, m)
    return results


def main():
    a = sys.argv[1:]
    if a[0] == "import":
        cmd_import(a[1], a[2])
    elif a[0] == "confirm":
        cmd_confirm(a[1])
    elif a[0] == "run":
        cmd_run(a[1], a[2:] or None)
    elif a[0] == "runall":
        for name in sorted(os.listdir(SEEDED)):
            if os.path.isdir(os.path.join(SEEDED, name)):
                cmd_run(name)


if __name__ == "__main__":
    main()

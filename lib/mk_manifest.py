#!/usr/bin/env python3
"""Regenerates /verif/MANIFEST.json from the table below (so that it is always schema-valid)."""
import json, os, sys
ROOT = os.path.dirname(os.path.dirname(os.path.abspath(__file__)))
sys.path.insert(0, os.path.join(ROOT, "lib"))
from props import PROPS

ALL = ["C%02d" % i for i in range(1, 20)]

TEXT = {
 "C19": ("Theorems C19_* (props/C19.v) prove classification, exclusivity of the predicates, accessors and losslessness for ALL strings and ALL socket addresses over the model of remote_addr.rs whose match arms are regenerated from the source on every run (obligation C19_gen_obligation); the model is additionally run against the implementation on generated strings with Rust's own parser as the oracle.",
         "Trusted: Coq kernel, translator gen.py (arm shapes), Rust's SocketAddr parser as the definition of 'parses as ip:port', extraction + harness.",
         "Coq proof over regenerated model + differential correspondence", "DESIGN.md 4 (C19)"),
 "C14": ("Theorems C14_* (props/C14.v) prove, generically in the bit layout and instantiated on the constants regenerated from resource_id.rs/poll.rs (obligation C14_gen_obligation): field round trip, that the accessors partition all 64 bits of every raw id, token round trip and waker separation, injectivity, and that no sequence of generate() calls over any generators issues an id twice or with the wrong adapter/kind. Part 2 over the driver/registry model: C14_stale_endpoint_forever (after a connection ended, after ANY continuation of the history -- new connections on the same adapter included -- send/is_ready/remove on its id answer ResourceNotFound/None/false without reaching the adapter) and C14_events_carry_their_own_endpoint (every trace is accepted by the automaton that admits an event for an id only with the peer address that id was registered with). Model run against ResourceId::new / accessors / token conversions / generators in debug and release builds, and the real Driver against scripted mock-adapter histories with stale and fabricated endpoints.",
         "Trusted: Coq kernel, translator, usize=64 bits, fetch_add as a sequential counter; registry history part of the property is served by the driver model (part 2).",
         "Coq proof (bit-level, generic layout) + per-run vm_compute obligation + differential correspondence", "DESIGN.md 4 (C14)"),
 "C02": ("Theorem C02_decoder_chunking proves, by induction over the chunk list from a simulation lemma (one decode call = re-parsing buffer++chunk), that for EVERY message list and EVERY chunking of its frames (empty chunks included), in checked and wrapping arithmetic, the model of util/encoding.rs::Decoder returns exactly that list and buffers nothing; C02_feed_is_parse extends chunking independence to all byte streams; C02_prefix_roundtrip/_canonical prove the LEB128 prefix canonical and invertible for all n < 2^64. The model is run against the real Decoder (callbacks and stored_size after every chunk, panics caught) on exhaustive small streams x all cuts, boundary lengths x cut subsets, random cases, in debug and release.",
         "Trusted: Coq kernel, hand-written model of encoding.rs + integer-encoding (tied by correspondence incl. encsz/decsz), translator for the constants, extraction, harness.",
         "Coq proof by induction (simulation to a reference parser) + differential correspondence, exhaustive-small", "DESIGN.md 4 (C02)"),
 "C17": ("Layer 1 (props/C17.v): C17_decoder_total proves for ALL chunk lists over ALL byte values, both arithmetic modes, that the frame decoder never panics, never buffers more than it received and delivers exactly the one-shot parse of the received bytes. Run against the real Decoder on exhaustive small hostile strings x all cuts, over-long / non-canonical / all-continuation prefixes at every split, random bytes, debug and release. (Adapter-loop and driver non-interference layers are added with the driver model.)",
         "Trusted: as C02; tungstenite's parser and the kernel are oracles.",
         "Coq proof (totality + chunking independence on arbitrary bytes) + differential correspondence", "DESIGN.md 4 (C17)"),
 "C07": ("C07_queue_refines_spec proves that on EVERY finite single-threaded history of send / send_with_priority / send_with_timer / cancel_timer / try_receive / receive_timeout / receive calls (any durations, any clock readings) the model of events.rs (command channel, sorted BTreeMap, loop around select!) returns exactly what the 15-line reference — the property text — returns; C07_variants_agree shows the three receive forms make the same choice. The shape of events.rs the model assumes (select! arms, try_receive order, TimerId ordering) is re-read from the source on every run (C07_gen_obligation). Step correspondence: real EventReceiver on generated histories with the real clock readings and deadlines (read from the TimerId Debug output) fed to both the model and the reference.",
         "Trusted: Coq kernel; crossbeam-channel and Instant as oracles; translator; harness. Single-threaded histories only (concurrency: C06/C16).",
         "Coq refinement proof (simulation to a reference spec) + step correspondence with recorded clock", "DESIGN.md 4 (C07)"),
 "C06": ("Over ALL label sequences of the events.rs model (any number of sender threads, send_with_timer split into its clock-read/fetch_add and its channel send, any interleaving with any receive variant): C06_fifo_conservation proves delivered ++ queued = sent for plain and for priority events (exactly once, nothing invented, FIFO); C06_timers_exactly_once proves unique timer identity also for equal deadlines, delivery at most once of what was scheduled, and that every scheduled timer is cancelled, delivered or still live. Real runs: 8 threads x 100k zero-duration timers (hundreds share an Instant), mixed-kind multi-thread histories with all three receive variants and dropped senders; logs judged by the extracted Coq predicates same_multiset_b / all_fifo_b and by the harness.",
         "Trusted: Coq kernel; crossbeam-channel linearizable FIFO and fetch_add as oracles; harness.",
         "Coq invariant proof over an interleaving LTS + log predicates extracted from Coq evaluated on real multi-thread runs", "DESIGN.md 4 (C06)"),
 "C08": ("C08_delivery_sound: in every reachable state of the interleaving model, any receive that returns a timed event does so at a clock reading >= deadline = (clock at send_with_timer) + duration, of a timer that was scheduled, was not cancelled and was not delivered before; C08_cancel_exact: cancellation removes exactly the cancelled timer (others on the same instant stay live), for good. Timed scenarios on the real queue: never-early sweep (0, sub-ms, ms durations, 3 threads, senders dropped), cancel against a blocked receiver, validated against the model as label sequences with recorded instants.",
         "Trusted: Coq kernel; at(t)/Instant oracles; harness timing margins (one-sided assertions only).",
         "Coq invariant proof over an interleaving LTS + timed trace correspondence", "DESIGN.md 4 (C08)"),
 "C16": ("C16_no_lost_wakeup: in every reachable state, if the receiver is blocked in its select! and anything is deliverable now (plain, priority, or a live expired timer, whether already in the map or still a Create in the command channel) then a non-timeout arm of that select! is ready now; C16_timeout_truthful: the timeout arm fires only after the timeout and only if nothing is deliverable. The wait set is re-read from the source each run (C16_gen_obligation). 57 timed scenarios (receiver blocked in receive()/receive_timeout(), another thread sends plain/priority/timer/cancel) are run on the real queue, with a watchdog, and replayed on the model.",
         "Trusted: Coq kernel; crossbeam select! wakes within bounded time when an arm is ready (oracle; > 1 s is reported); translator for the select! arms.",
         "Coq invariant proof (safety form of liveness) + per-run obligation on the regenerated select! arms + timed scenarios", "DESIGN.md 4 (C16)"),
 "C03": ("C03_lifecycle_regular proves that for EVERY script — any controller calls, any poll events, any adapter answers (pending status, chunks, read status, accepted items), any controller calls made by user code inside any callback, any controller calls racing the processor after its lookup and before its deregister — the observable trace of the model of driver.rs/registry.rs is accepted by the lifecycle automaton that states the property (Connected once and only for an endpoint connect() returned; Accepted only with a real listener; Message only while established; Disconnected only while established and never after a successful remove(); nothing after the end; no id twice). The real Driver is run against the same scripts through a scripted mock adapter mounted by a hook and pumped directly; traces are compared item by item and judged by the same (extracted) automaton. connect_sync: C03_connect_sync_truthful_outside_K1 proves, for every script and every moment at which connect_sync may poll is_ready(), that Ok is answered only for a connection whose Connected(_, true) was delivered and that is not disconnected, ConnectionRefused only for one that was never established, and that polling continues only while neither outcome was delivered -- outside the recorded known class K1 (established and already closed by the peer: C03_connect_sync_full_statement_refuted is the model witness, known_findings.json the record; the check prints KNOWN-FINDING for it). Real sockets: scripted raw / tungstenite peers (accept and hold, refuse, slow handshake, accept and close, FIN/RST at every stage, data then FIN in one burst, hostile handshakes) on Tcp/FramedTcp/Ws/Udp with the lifecycle automaton over each node's event log (net_life, net_sync).",
         "Trusted: Coq kernel; RwLock atomicity of the registry (oracle); hand-written model tied by script correspondence; what real sockets answer as adapter statuses is an oracle (sampled separately).",
         "Coq invariant proof over an adversarial-adapter LTS + scripted mock-adapter step correspondence", "DESIGN.md 4 (C03)"),
 "C04": ("C04_end_exactly_once proves for every script (incl. removes inside callbacks and removes racing the driver between the adapter's Disconnected and the deregister) that per connection id (#remove()->true) + (#Disconnected) <= 1 and that afterwards the registry has no entry, so send/is_ready/remove answer ResourceNotFound/None/false without reaching the adapter (C04_after_end). Mock-adapter correspondence as C03, plus real-thread races: 8 threads removing one id, and remove() racing the processor's deregister (both outcomes occur and are checked).",
         "Trusted: as C03; that dropping the last Arc closes the socket is Rust ownership (C18).",
         "Coq invariant proof + scripted correspondence + forced real-thread races", "DESIGN.md 4 (C04)"),
 "C01": ("C01_framed_send_wire: for every partial-write/WouldBlock schedule a FramedTcp send answering Sent has put exactly one canonical frame on the wire; C01_framed_end_to_end: for every message list and EVERY segmentation of the wire into socket reads the Message payloads are exactly that list (composition with the decoder theorem of C02); C01_ws_drains_library_buffer: the WebSocket receive loop reports WaitNextEvent only when the library has no complete message left, buffered or in the socket, and everything that arrived was delivered in order. The loop shapes the model assumes are re-read from the adapter sources every run (C01_gen_obligation). Real sockets: message-io<->message-io both directions, raw TCP writer with every single prefix split and write-boundary pairs, raw reader checking the exact wire bytes for sizes 0..300 and the prefix boundaries, stock tungstenite client/server with back-to-back bursts followed by silence, fragmented WS messages.",
         "Trusted: Coq kernel; kernel TCP and tungstenite as oracles; translator for loop shapes; harness. Bounded-time delivery is measured.",
         "Coq proof (loop models over oracle sockets, composed with the decoder theorem) + per-run shape obligations + real-socket scenarios with independent peers", "DESIGN.md 4 (C01)"),
 "C10": ("C10_concurrent_framed_sends: with sends serialised per connection (send lock / state mutex re-read from the sources, C10_gen_obligation) the wire is a concatenation of whole frames in some interleaving of the senders' orders; for ANY interleaving of ANY number of senders and ANY segmentation into reads the receiver gets exactly that interleaving — every message whole, exactly once, each sender's in its order. Real threads: 4-6 threads on one FramedTcp / Ws / Udp endpoint, sizes from 8 B to 700 KiB (partial writes, WouldBlock), self-describing checksummed payloads, both directions busy.",
         "Trusted: Coq kernel; Mutex; kernel atomicity of one UDP send; harness.",
         "Coq proof (serialised sends -> whole frames -> decoder theorem) + per-run lock obligations + multi-thread real-socket runs", "DESIGN.md 4 (C10)"),
 "C11": ("C11_send_wire / C11_send_never_invents: for every partial-write schedule the wire receives a prefix of the buffer and exactly the buffer when the status is Sent (an empty buffer is Sent with nothing written); C11_receive_chunks: the Message chunks are the successive read results, each of 1..=65535 bytes, WaitNextEvent only after WouldBlock. Real sockets: size lists around 65535, multi-MiB buffers against a slow raw reader, raw writer, both directions.",
         "Trusted: Coq kernel; kernel TCP; read contract as hypothesis; harness.",
         "Coq proof over oracle sockets + per-run shape obligations + real-socket scenarios", "DESIGN.md 4 (C11)"),
 "C12": ("C12_no_truncation: every payload up to max_message_size(Udp) fits the smallest receive buffer declared in udp.rs (regenerated); C12_attribution / C12_reply_reaches_source: a datagram handed over by a listener's accept is reported once with the listener's id and the source address, and sending to that endpoint (or a from_listener endpoint) calls send_to(source) on that listener. Real sockets: size sweep to 65507 (every size in the thorough tier), three raw senders per listener, replies through reported and from_listener endpoints, connected sockets both ways.",
         "Trusted: Coq kernel; kernel UDP; translator; harness.",
         "Coq proof + per-run obligations on regenerated buffer sizes + real-socket sweep", "DESIGN.md 4 (C12)"),
 "C13": ("C13_limits_consistent: for every transport and every size the adapter path accepts a payload iff it is at most Transport::max_message_size(), from the size pre-checks of udp.rs/ws.rs, the limits the websocket library is configured with on BOTH handshake paths and the receive buffers — all re-read from the sources and the locked tungstenite source each run (C13_gen_obligation); C13_send_status_table: the exact decision table of Driver::send (Sent only through the adapter; ResourceNotAvailable iff registered and not ready, adapter not called; ResourceNotFound iff not registered, adapter not called). Real sockets: limit-1/limit/limit+1 per transport, pending/ready/removed/fabricated endpoints on all four transports; mock-adapter scripts for the table.",
         "Trusted: Coq kernel; translator; kernel EMSGSIZE threshold; tungstenite limits read from its source.",
         "Coq proof + per-run obligations on regenerated limits + real-socket boundary scenarios + scripted correspondence", "DESIGN.md 4 (C13)"),
 "C05": ("C05_callback_mutex: in every state reachable by ANY label sequence of the node.rs model (program counters of the network and signal threads, the callback mutex, the running flag; any interleaving, any poll batches and signals, callbacks of any duration, stop() anywhere, for_each and for_each_async) at most one thread is between callback entry and exit. Trace inclusion: real nodes run with hook trace points (lock scope, running checks, cache push/pop, poll / signal-wait) and the harness's own callback records; every recorded trace must be a run of the model (extracted acceptor), and an in-callback flag checks overlap directly.",
         "Trusted: Coq kernel; Mutex and thread join as oracles; Relaxed flag modelled SC; hook placement; harness.",
         "Coq invariant proof over a program-counter LTS + trace inclusion of instrumented real runs", "DESIGN.md 4 (C05)"),
 "C09": ("C09_stop_in_callback_final: in every accepted run no callback entry follows a stop() issued inside a callback (either thread, either mode, whatever is queued, polled or cached); C09_stop_before_start: if the node is stopped when the listener call begins the callback is never invoked. The listener returns: C09_stop_terminates (from any reachable stopped state every sequence of listener-thread actions is bounded by a constant budget plus 3 steps per event of the at most one poll still to come) and C09_stopped_not_stuck (until both threads are through some action is enabled), under C09_gen_obligation re-read from node.rs on every run (every wait bounded by SAMPLING_TIMEOUT, at the head of a loop that re-reads the flag; stop() clears the flag). Real nodes: stop at every event index (network events and signals), with the other thread queued on the callback lock, before start, from an unrelated thread, in for_each / for_each_async / enqueue; the listener must return within 1.5 s; traces checked for inclusion in the model.",
         "Trusted: as C05; that a user callback returns is assumed; wall-clock return time is measured.",
         "Coq invariant and termination-measure proofs over a program-counter LTS + trace inclusion + scripted stop points on real nodes", "DESIGN.md 4 (C09)"),
 "C15": ("C15_cached_first_in_order: in every reachable state the network events handed to the callback are a prefix of the events the processor emitted (cache thread first, then the same processor in the listener thread), and while nothing was dropped by a stop, received ++ waiting = emitted. Real nodes: numbered datagrams sent 70 ms or more before the listener call and after it, three listener modes, must arrive first, complete and in order.",
         "Trusted: as C05.",
         "Coq invariant proof (prefix / conservation) + trace inclusion + real-node order checks", "DESIGN.md 4 (C15)"),
 "C18": ("PARTIAL. Proved on the models: every path that ends a connection (remove()->true, Disconnected, failed connect, failed inbound handshake) leaves no registry entry (C18_ended_connection_unregistered, C18_failed_pending_unregistered) and the listener loops exit at their heads once stopped. NOT provable here: that dropping the last reference closes the descriptor (Rust ownership + adapter Drop code + kernel). That part is measured: real histories of listens, connects, accepts, removals, peer FIN/RST, refused connects, garbage / half-open handshakes on Tcp/FramedTcp/Ws/Udp, with /proc/self/fd and /proc/self/task compared at quiescent points, peers checking EOF, and a node dropped unstarted under traffic.",
         "Trusted: Coq kernel; Rust ownership (not modelled); kernel; harness.",
         "Coq proof of the registry part + descriptor/thread measurements on real histories (partial)", "DESIGN.md 4 (C18)"),
}

def chk(pid):
    text, note, tech, ref = TEXT[pid]
    return {
        "property_id": pid,
        "quick_cmd": "./check %s --tier quick" % pid,
        "thorough_cmd": "./check %s --tier thorough" % pid,
        "evidence_file": "/verif/evidence/%s.json" % pid,
        "replay_cmd_template": "./check %s --replay {path}" % pid,
        "engine": "coq-model+correspondence",
        "level_claimed": {"category": "proof", "text": text, "design_ref": ref},
        "level_note": note,
        "technique": tech,
    }

claimed = [p for p in ALL if p in PROPS and p in TEXT]
hooks = open(os.path.join(ROOT, "lib", "hook_commits.txt")).read().split()
m = {
 "version": 1,
 "setup_cmd": "./check --setup",
 "hooks": {
  "guard": "message_io_verif",
  "enable": "RUSTFLAGS=\"--cfg message_io_verif\" cargo build --offline   (set by ./check when it builds /verif/harness, which path-depends on /repo)",
  "baseline_off_cmd": "cd /repo && cargo test --workspace --no-fail-fast --offline",
  "source_commits": hooks,
  "add_only": True
 },
 "engines": [
  {"name": "coq-model+correspondence", "path": "/verif/check", "serves_properties": claimed,
   "kind_free_text": "Coq 8.16.1 theorems over hand-written executable Gallina models (coq/theories, coq/props) + translator (translator/gen.py -> Gen.v, regenerated from /repo on every run) + differential correspondence: extracted OCaml model (ocaml/) vs the implementation run by the Rust harness (harness/, path dependency on /repo, hooks on)"}
 ],
 "checks": [chk(p) for p in claimed],
 "not_applicable": [
  {"property_id": p, "reason": "not yet claimed: model and theorems under construction (DESIGN.md section 10 work order); the technique applies and no switch of technique is intended"}
  for p in ALL if p not in claimed
 ],
 "notes": "All checks go through ./check <id>; evidence is written to evidence/<id>.json on every run; known findings and fixed defects live in known_findings.json; seeded changes used to test the checks are under seeded/."
}
json.dump(m, open(os.path.join(ROOT, "MANIFEST.json"), "w"), indent=1)
print("MANIFEST.json: %d checks, %d not yet claimed" % (len(claimed), len(ALL) - len(claimed)))

#!/usr/bin/env python3
"""Regenerates /verif/MANIFEST.json from the table below (so that it is always schema-valid)."""
import json, os, sys
ROOT = os.path.dirname(os.path.dirname(os.path.abspath(__file__)))
sys.path.insert(0, os.path.join(ROOT, "lib"))
from props import PROPS

ALL = ["C%02d" % i for i in range(1, 20)]

TEXT = {
 "C19": ("Theorems C19_* (props/C19.v) prove classification, exclusivity of the predicates, accessors and losslessness for ALL strings and ALL socket addresses over the model of remote_addr.rs whose match arms are regenerated from the source on every run (obligation C19_gen_obligation); the model is additionally run against the implementation on generated strings with Rust's own parser as the oracle.",
         "Trusted: Coq kernel, translator gen.py (arm shapes), Rust's SocketAddr parser as the definition of 'parses as ip:port', extraction + harness.",
         "Coq proof over regenerated model + differential correspondence", "DESIGN.md 4 (C19)"),
 "C14": ("Theorems C14_* (props/C14.v) prove, generically in the bit layout and instantiated on the constants regenerated from resource_id.rs/poll.rs (obligation C14_gen_obligation): field round trip, that the accessors partition all 64 bits of every raw id, token round trip and waker separation, injectivity, and that no sequence of generate() calls over any generators issues an id twice or with the wrong adapter/kind. Model run against ResourceId::new / accessors / token conversions / generators in debug and release builds.",
         "Trusted: Coq kernel, translator, usize=64 bits, fetch_add as a sequential counter; registry history part of the property is served by the driver model (part 2).",
         "Coq proof (bit-level, generic layout) + per-run vm_compute obligation + differential correspondence", "DESIGN.md 4 (C14)"),
 "C02": ("Theorem C02_decoder_chunking proves, by induction over the chunk list from a simulation lemma (one decode call = re-parsing buffer++chunk), that for EVERY message list and EVERY chunking of its frames (empty chunks included), in checked and wrapping arithmetic, the model of util/encoding.rs::Decoder returns exactly that list and buffers nothing; C02_feed_is_parse extends chunking independence to all byte streams; C02_prefix_roundtrip/_canonical prove the LEB128 prefix canonical and invertible for all n < 2^64. The model is run against the real Decoder (callbacks and stored_size after every chunk, panics caught) on exhaustive small streams x all cuts, boundary lengths x cut subsets, random cases, in debug and release.",
         "Trusted: Coq kernel, hand-written model of encoding.rs + integer-encoding (tied by correspondence incl. encsz/decsz), translator for the constants, extraction, harness.",
         "Coq proof by induction (simulation to a reference parser) + differential correspondence, exhaustive-small", "DESIGN.md 4 (C02)"),
 "C17": ("Layer 1 (props/C17.v): C17_decoder_total proves for ALL chunk lists over ALL byte values, both arithmetic modes, that the frame decoder never panics, never buffers more than it received and delivers exactly the one-shot parse of the received bytes. Run against the real Decoder on exhaustive small hostile strings x all cuts, over-long / non-canonical / all-continuation prefixes at every split, random bytes, debug and release. (Adapter-loop and driver non-interference layers are added with the driver model.)",
         "Trusted: as C02; tungstenite's parser and the kernel are oracles.",
         "Coq proof (totality + chunking independence on arbitrary bytes) + differential correspondence", "DESIGN.md 4 (C17)"),
}

def chk(pid):
    text, note, tech, ref = TEXT[pid]
    return {
        "property_id": pid,
        "quick_cmd": "./check %s --tier quick" % pid,
        "thorough_cmd": "./check %s --tier thorough" % pid,
        "evidence_file": "/verif/evidence/%s.json" % pid,
        "replay_cmd_template": "./check %s --replay {path}" % pid,
        "engine": "coq-model+correspondence",
        "level_claimed": {"category": "proof", "text": text, "design_ref": ref},
        "level_note": note,
        "technique": tech,
    }

claimed = [p for p in ALL if p in PROPS and p in TEXT]
hooks = open(os.path.join(ROOT, "lib", "hook_commits.txt")).read().split()
m = {
 "version": 1,
 "setup_cmd": "./check --setup",
 "hooks": {
  "guard": "message_io_verif",
  "enable": "RUSTFLAGS=\"--cfg message_io_verif\" cargo build --offline   (set by ./check when it builds /verif/harness, which path-depends on /repo)",
  "baseline_off_cmd": "cd /repo && cargo test --workspace --no-fail-fast --offline",
  "source_commits": hooks,
  "add_only": True
 },
 "engines": [
  {"name": "coq-model+correspondence", "path": "/verif/check", "serves_properties": claimed,
   "kind_free_text": "Coq 8.16.1 theorems over hand-written executable Gallina models (coq/theories, coq/props) + translator (translator/gen.py -> Gen.v, regenerated from /repo on every run) + differential correspondence: extracted OCaml model (ocaml/) vs the implementation run by the Rust harness (harness/, path dependency on /repo, hooks on)"}
 ],
 "checks": [chk(p) for p in claimed],
 "not_applicable": [
  {"property_id": p, "reason": "not yet claimed: model and theorems under construction (DESIGN.md section 10 work order); the technique applies and no switch of technique is intended"}
  for p in ALL if p not in claimed
 ],
 "notes": "All checks go through ./check <id>; evidence is written to evidence/<id>.json on every run; known findings and fixed defects live in known_findings.json; seeded changes used to test the checks are under seeded/."
}
json.dump(m, open(os.path.join(ROOT, "MANIFEST.json"), "w"), indent=1)
print("MANIFEST.json: %d checks, %d not yet claimed" % (len(claimed), len(ALL) - len(claimed)))

"""Per-property configuration of ./check: Coq targets, property files, harness runs."""

KERNEL_ORACLES = "Linux loopback TCP/UDP semantics (FIFO reliable byte stream, whole datagrams) are an oracle, sampled by the harness, not proved"

PROPS = {
    "C19": dict(
        coq=["props/C19.vo"], props=["props/C19.v"],
        runs=[dict(core="remoteaddr", profile="debug")],
        nontrivial="every distinct text / address is a different classification problem",
        trusted_base=["Rust's str::parse::<SocketAddr>() is the definition of 'parses as ip:port' (Section variable `parse`, supplied per case by the harness as an oracle table)"],
        assumptions=["serde derives, Display and ToSocketAddrs of RemoteAddr are not modelled",
                     "(&str,u16)/(String,u16) conversions resolve names through the OS and are outside the property"],
    ),
    "C14": dict(
        coq=["props/C14.vo"], props=["props/C14.v"],
        runs=[dict(core="resid", profile="debug"), dict(core="resid", profile="release")],
        nontrivial="distinct (operation, operands) lines",
        trusted_base=["usize is 64 bits", "AtomicUsize::fetch_add is a linearizable counter (modelled as a sequential counter)"],
        assumptions=["token round trip holds for raw ids below 2^(64-RESERVED_BITS): base values below 2^55 (stated in the theorem)"],
    ),
    "C02": dict(
        coq=["props/C02.vo"], props=["props/C02.v"],
        runs=[dict(core="decoder", profile="debug", args=["wf"]), dict(core="decoder", profile="release", args=["wf"])],
        nontrivial="distinct (stream, chunking) pairs; prefix cases distinct by value",
        trusted_base=["integer-encoding's LEB128 is modelled from its locked source (Varint.v) and tied by the encsz/decsz correspondence"],
        assumptions=["payload lengths below 2^64 (every Rust slice)", "usize is 64 bits"],
    ),
    "C17": dict(
        coq=["props/C17.vo"], props=["props/C17.v"],
        runs=[dict(core="decoder", profile="debug", args=["hostile"]), dict(core="decoder", profile="release", args=["hostile"])],
        nontrivial="distinct (byte string, chunking) pairs",
        trusted_base=["tungstenite's own parser on hostile bytes is an oracle (sampled by the hostile-peer scenarios, not proved)", KERNEL_ORACLES],
        assumptions=["usize is 64 bits"],
    ),
}

"""Per-property configuration of ./check: Coq targets, property files, harness runs."""

KERNEL_ORACLES = "Linux loopback TCP/UDP semantics (FIFO reliable byte stream, whole datagrams) are an oracle, sampled by the harness, not proved"

PROPS = {
    "C19": dict(
        coq=["props/C19.vo"], props=["props/C19.v"],
        runs=[dict(core="remoteaddr", profile="debug")],
        nontrivial="every distinct text / address is a different classification problem",
        trusted_base=["Rust's str::parse::<SocketAddr>() is the definition of 'parses as ip:port' (Section variable `parse`, supplied per case by the harness as an oracle table)"],
        assumptions=["serde derives, Display and ToSocketAddrs of RemoteAddr are not modelled",
                     "(&str,u16)/(String,u16) conversions resolve names through the OS and are outside the property"],
    ),
    "C14": dict(
        coq=["props/C14.vo"], props=["props/C14.v"],
        runs=[dict(core="resid", profile="debug"), dict(core="resid", profile="release"),
              dict(core="driver", profile="debug", extra_models=[["driverprops", "impl2.txt"]])],
        nontrivial="distinct (operation, operands) lines",
        trusted_base=["usize is 64 bits", "AtomicUsize::fetch_add is a linearizable counter (modelled as a sequential counter)"],
        assumptions=["token round trip holds for raw ids below 2^(64-RESERVED_BITS): base values below 2^55 (stated in the theorem)"],
    ),
    "C02": dict(
        coq=["props/C02.vo"], props=["props/C02.v"],
        runs=[dict(core="decoder", profile="debug", args=["wf"]), dict(core="decoder", profile="release", args=["wf"])],
        nontrivial="distinct (stream, chunking) pairs; prefix cases distinct by value",
        trusted_base=["integer-encoding's LEB128 is modelled from its locked source (Varint.v) and tied by the encsz/decsz correspondence"],
        assumptions=["payload lengths below 2^64 (every Rust slice)", "usize is 64 bits"],
    ),
    "C17": dict(
        coq=["props/C17.vo"], props=["props/C17.v"],
        runs=[dict(core="decoder", profile="debug", args=["hostile"]), dict(core="decoder", profile="release", args=["hostile"])],
        nontrivial="distinct (byte string, chunking) pairs",
        trusted_base=["tungstenite's own parser on hostile bytes is an oracle (sampled by the hostile-peer scenarios, not proved)", KERNEL_ORACLES],
        assumptions=["usize is 64 bits"],
    ),
    "C07": dict(
        coq=["props/C07.vo"], props=["props/C07.v"],
        runs=[dict(core="queue", profile="debug", extra_models=["queuespec"])],
        nontrivial="distinct histories (operation sequence with the recorded clock readings)",
        trusted_base=["crossbeam-channel: linearizable unbounded MPMC FIFO; select! returns a ready arm; at(t) never fires before t; default(d) fires only when no arm became ready within d",
                      "std::time::Instant is monotone; its Debug output (tv_sec/tv_nsec) is read by the harness to obtain the real deadlines"],
        assumptions=["single-threaded histories (the queue is quiescent at each receive)", "histories in which a clock reading falls within 2 ms of a live deadline are discarded and counted"],
    ),
    "C06": dict(
        coq=["props/C06.vo"], props=["props/C06.v"],
        runs=[dict(core="queue_conc", profile="debug", model_core="queuelog"),
              dict(core="queue", profile="debug", extra_models=["queuespec"])],
        nontrivial="distinct logs / histories; the flood scenario is counted by its events in input_distribution",
        trusted_base=["crossbeam-channel: linearizable unbounded MPMC FIFO (oracle)", "AtomicUsize::fetch_add: unique sequence numbers"],
        assumptions=["the receiver is a single consumer (&mut self)", "atomics are modelled sequentially consistent (the code uses Relaxed on one counter only)"],
    ),
    "C08": dict(
        coq=["props/C08.vo"], props=["props/C08.v"],
        runs=[dict(core="queue_timed", profile="debug", model_core="queuelabels"),
              dict(core="queue_conc", profile="debug", model_core="queuelog"),
              dict(core="queue", profile="debug", extra_models=["queuespec"])],
        nontrivial="distinct label sequences with their recorded clock readings",
        trusted_base=["crossbeam_channel::at(t) never fires before t; std::time::Instant monotone (oracles)"],
        assumptions=["real-time clauses are one-sided (never early); scenarios whose decisive instants are closer than 8 ms are discarded and counted"],
    ),
    "C16": dict(
        coq=["props/C16.vo"], props=["props/C16.v"],
        runs=[dict(core="queue_timed", profile="debug", model_core="queuelabels")],
        nontrivial="distinct label sequences with their recorded clock readings",
        trusted_base=["crossbeam-channel's select! returns within bounded time once an arm is ready (oracle; wake-up latency above 1 s is reported as a wedge)"],
        assumptions=["liveness is proved in safety form (no lost wake-up); bounded latency itself is measured, not proved"],
    ),
    "C03": dict(
        coq=["props/C03.vo"], props=["props/C03.v"],
        runs=[dict(core="driver", profile="debug", extra_models=[["driverprops", "impl2.txt"]])],
        nontrivial="distinct scripts (controller calls, poll events with adapter answers and nested user calls)",
        trusted_base=["std::sync::RwLock gives the registry atomic register / deregister / get (oracle)",
                      "what real TCP / tungstenite answer as pending / read status is an oracle, sampled by the socket scenarios"],
        assumptions=["fewer than 2^56 registrations per adapter", "one processor thread (NetworkProcessor is &mut); controller calls from other threads are modelled at the two points where they can change the outcome of a process() call"],
    ),
    "C04": dict(
        coq=["props/C04.vo"], props=["props/C04.v"],
        runs=[dict(core="driver", profile="debug", extra_models=[["driverprops", "impl2.txt"]]),
              dict(core="driver_conc", profile="debug", model=False)],
        nontrivial="distinct scripts",
        trusted_base=["std::sync::RwLock (oracle)", "that dropping the last Arc closes the socket and the peer sees EOF is Rust ownership + kernel (measured in C18)"],
        assumptions=["fewer than 2^56 registrations per adapter"],
    ),
}

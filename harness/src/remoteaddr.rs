//! C19: function correspondence for network/remote_addr.rs.
//! case line:  <hex of the utf-8 text> <1 if std parses it as SocketAddr else 0> <canonical addr text or ->
//! impl line:  <ctor S|T> <is_socket_addr> <is_string> <socket_addr(): hex of Display | P> <string(): hex | P>
//! plus, for socket-address values: "addr" cases exercising the From-like impls.
use crate::util::*;
use message_io::network::{RemoteAddr, ToRemoteAddr};
use std::net::{SocketAddr, SocketAddrV4, SocketAddrV6, Ipv4Addr, Ipv6Addr};

fn describe(ra: &RemoteAddr) -> String {
    let ctor = match ra {
        RemoteAddr::Socket(_) => "S",
        RemoteAddr::Str(_) => "T",
    };
    let sa = match panics(|| ra.socket_addr().to_string()) {
        Some(s) => hex(s.as_bytes()),
        None => "P".into(),
    };
    let st = match panics(|| ra.string().to_string()) {
        Some(s) => hex(s.as_bytes()),
        None => "P".into(),
    };
    format!("{} {} {} {} {}", ctor, ra.is_socket_addr() as u8, ra.is_string() as u8, sa, st)
}

fn gen_string(r: &mut Rng, out: &mut Out) -> String {
    let v4 = |r: &mut Rng| format!("{}.{}.{}.{}", r.below(256), r.below(256), r.below(256), r.below(256));
    let port = |r: &mut Rng| *r.pick(&[0u64, 1, 80, 443, 8080, 65535, 65536, 99999, 3000]);
    let v6s = ["::1", "::", "fe80::1", "2001:db8::ff00:42:8329", "::ffff:127.0.0.1", "1:2:3:4:5:6:7:8", "1:2:3:4:5:6:7:8:9", "fe80::1%eth0", "g::1"];
    let hosts = ["localhost", "example.com", "my-host.local", "a", "ws", "127.0.0.1.nip.io"];
    match r.below(17) {
        14 => {
            // random IPv6 socket address, fully expanded (the longest textual forms)
            out.count("gen_v6_expanded");
            let seg: Vec<String> = (0..8).map(|_| format!("{:x}", if r.chance(1, 3) { 0xffff } else { r.below(0x10000) })).collect();
            let scope = if r.chance(1, 2) { format!("%{}", r.pick(&[1u64, 7, 4294967295, 12345])) } else { String::new() };
            format!("[{}{}]:{}", seg.join(":"), scope, r.pick(&[0u64, 80, 65535, 10000]))
        }
        15 => {
            // IPv4-embedded IPv6 (up to 53 characters with the port)
            out.count("gen_v6_embedded_v4");
            let seg: Vec<String> = (0..6).map(|_| format!("{:x}", if r.chance(1, 2) { 0xffff } else { r.below(0x10000) })).collect();
            format!("[{}:{}]:{}", seg.join(":"), v4(r), r.pick(&[65535u64, 443, 10000]))
        }
        16 => {
            // Display of a random socket address value (always valid, canonical text)
            out.count("gen_display_of_value");
            if r.chance(1, 2) {
                SocketAddr::V4(SocketAddrV4::new(Ipv4Addr::from(r.next() as u32), r.next() as u16)).to_string()
            } else {
                let ip = Ipv6Addr::from((r.next() as u128) << 64 | r.next() as u128);
                SocketAddr::V6(SocketAddrV6::new(ip, r.next() as u16, 0, if r.chance(1, 2) { r.below(100) as u32 } else { 0 })).to_string()
            }
        }
        0 => { out.count("gen_v4_valid"); format!("{}:{}", v4(r), r.below(65536)) }
        1 => { out.count("gen_v4_port_boundary"); format!("{}:{}", v4(r), port(r)) }
        2 => { out.count("gen_v6_bracket"); format!("[{}]:{}", r.pick(&v6s), port(r)) }
        3 => { out.count("gen_v6_nobracket"); format!("{}:{}", r.pick(&v6s), port(r)) }
        4 => { out.count("gen_host_port"); format!("{}:{}", r.pick(&hosts), port(r)) }
        5 => { out.count("gen_url"); format!("{}://{}:{}/{}", r.pick(&["ws", "wss", "http", "tcp"]), if r.chance(1, 2) { v4(r) } else { r.pick(&hosts).to_string() }, port(r), r.pick(&["", "path", "a/b?c=d"])) }
        6 => { out.count("gen_missing_port"); if r.chance(1, 2) { v4(r) } else { format!("{}:", v4(r)) } }
        7 => { out.count("gen_bad_octet"); format!("{}.{}.{}.{}:{}", r.below(400), r.below(256), r.pick(&[256u64, 300, 999, 0, 1]), r.below(256), r.below(65536)) }
        8 => { out.count("gen_empty_or_space"); r.pick(&["", " ", ":", "::", ":80", " 127.0.0.1:80", "127.0.0.1:80 ", "127.0.0.1: 80", "\t"]).to_string() }
        9 => { out.count("gen_non_ascii"); r.pick(&["127.0.0.1:８０", "ｌocalhost:80", "١٢٧.٠.٠.١:80", "127。0。0。1:80", "café:80", "日本:443", "127.0.0.1:80\u{0}"]).to_string() }
        10 => { out.count("gen_leading_zero"); format!("{}.0{}.{}.{}:{}", r.below(256), r.below(10), r.below(256), r.below(256), r.pick(&["080", "80", "+80", "0x50", "65535", "00000"])) }
        11 => { out.count("gen_short_quad"); format!("{}.{}.{}:{}", r.below(256), r.below(256), r.below(256), r.below(65536)) }
        12 => { out.count("gen_scope_flow"); format!("[{}%{}]:{}", r.pick(&["fe80::1", "::1"]), r.pick(&["1", "eth0", "4294967295", "4294967296"]), port(r)) }
        _ => {
            out.count("gen_random_ascii");
            let n = r.below(24);
            (0..n).map(|_| *r.pick(&[b'0', b'1', b'2', b'5', b'9', b'.', b':', b'[', b']', b'a', b'f', b'/', b'%', b' ', b'w', b's']) as char).collect()
        }
    }
}

/// a conversion from a socket-address type never fails and never panics
fn conv<T: ToRemoteAddr>(x: &T, what: &str, out: &mut Out) -> Option<RemoteAddr> {
    match std::panic::catch_unwind(std::panic::AssertUnwindSafe(|| x.to_remote_addr())) {
        Ok(Ok(v)) => Some(v),
        Ok(Err(e)) => { out.violation(&format!("conversion from a socket-address value is not lossless: {}.to_remote_addr() = Err({})", what, e)); None }
        Err(_) => { out.violation(&format!("conversion from a socket-address value panicked: {}.to_remote_addr()", what)); None }
    }
}
trait PlainScope { fn scope_id_is_plain(&self) -> bool; }
impl PlainScope for SocketAddr { fn scope_id_is_plain(&self) -> bool { match self { SocketAddr::V4(_) => true, SocketAddr::V6(v) => v.scope_id() == 0 && v.flowinfo() == 0 } } }

pub fn run(a: &Args) {
    let mut out = Out::new(&a.out);
    let mut r = Rng::new(a.seed);
    let n = if a.thorough { 50_000 } else { 600 };
    let mut corpus: Vec<String> = vec!["127.0.0.1:80".into(), "ws://x".into(), "".into(), "[::1]:0".into(), "localhost:80".into()];
    if let Some(p) = &a.replay {
        // lines: "<hex of the string>" or a case line "str <hex> ..." of an earlier run
        corpus = std::fs::read_to_string(p).unwrap().lines().filter(|l| !l.trim().is_empty() && !l.starts_with("addr ")).map(|l| { let mut it = l.split(' '); let a = it.next().unwrap(); let tok = if a == "str" { it.next().unwrap_or("") } else { a }; String::from_utf8(unhex(tok)).unwrap_or_default() }).collect();
    }
    let total = if a.replay.is_some() { corpus.len() } else { n + corpus.len() };
    for i in 0..total {
        let s = if i < corpus.len() { corpus[i].clone() } else { gen_string(&mut r, &mut out) };
        // the oracle: Rust's own parser defines "parses as ip:port"
        let parsed: Option<SocketAddr> = s.parse().ok();
        out.count(if parsed.is_some() { "parses" } else { "does_not_parse" });
        let canon = parsed.map(|p| hex(p.to_string().as_bytes())).unwrap_or("-".into());
        let case = format!("str {} {} {}", hex(s.as_bytes()), parsed.is_some() as u8, canon);
        let ra_str = (&s[..]).to_remote_addr().unwrap();
        let ra_string = s.clone().to_remote_addr().unwrap();
        let ra_refstring = (&s).to_remote_addr().unwrap();
        let line = describe(&ra_str);
        if describe(&ra_string) != line || describe(&ra_refstring) != line {
            out.violation(&format!("String / &String conversion differs from &str for {:?}", s));
        }
        // direct property oracle on the implementation
        let is_sock = ra_str.is_socket_addr();
        let is_str = ra_str.is_string();
        if is_sock != parsed.is_some() {
            out.violation(&format!("classification: {:?} parses={} but is_socket_addr={}", s, parsed.is_some(), is_sock));
        }
        if is_str == is_sock {
            out.violation(&format!("predicates not exclusive for {:?}: is_socket_addr={} is_string={}", s, is_sock, is_str));
        }
        match (&ra_str, parsed) {
            (RemoteAddr::Socket(x), Some(p)) if *x == p => {}
            (RemoteAddr::Str(t), None) if *t == s => {}
            _ => out.violation(&format!("value not preserved for {:?}: {:?}", s, ra_str)),
        }
        out.case(&case, &line);
        // a value built through the public variants (deserialised, or made by hand): the predicates
        // answer by the variant, whatever the text looks like
        {
            let hand = RemoteAddr::Str(s.clone());
            if !hand.is_string() || hand.is_socket_addr() || hand.string() != s { out.violation(&format!("RemoteAddr::Str({:?}): is_string()={} is_socket_addr()={} (a Str value is a string whatever its text)", s, hand.is_string(), hand.is_socket_addr())); }
            if hand.to_remote_addr().unwrap() != RemoteAddr::Str(s.clone()) { out.violation(&format!("RemoteAddr::Str({:?}).to_remote_addr() is not the identity", s)); }
            out.count("hand_built_str_values");
        }
        // conversions from socket-address types (lossless)
        if let Some(p) = parsed {
            let Some(via_sa) = conv(&p, &format!("SocketAddr {}", p), &mut out) else { continue };
            let l2 = describe(&via_sa);
            let via_v = match p {
                SocketAddr::V4(v) => conv(&v, &format!("SocketAddrV4 {}", v), &mut out),
                SocketAddr::V6(v) => conv(&v, &format!("SocketAddrV6 {}", v), &mut out),
            };
            let Some(via_v) = via_v else { continue };
            let via_t = conv(&(p.ip(), p.port()), &format!("(IpAddr, u16) ({}, {})", p.ip(), p.port()), &mut out);
            if p.scope_id_is_plain() && via_t != Some(RemoteAddr::Socket(SocketAddr::new(p.ip(), p.port()))) { out.violation(&format!("(IpAddr, u16) conversion not lossless for ({}, {}): {:?}", p.ip(), p.port(), via_t)); }
            let via_ra = via_sa.to_remote_addr().unwrap();
            if via_v != via_sa || via_ra != via_sa || via_sa != RemoteAddr::Socket(p) {
                out.violation(&format!("socket-address conversion not lossless for {}: SocketAddr -> {:?}, V4/V6 -> {:?}, RemoteAddr -> {:?}", p, via_sa, via_v, via_ra));
            }
            out.case(&format!("addr {}", hex(p.to_string().as_bytes())), &l2);
            out.count("addr_cases");
        }
    }
    // a few explicit socket address values incl. v6 with flowinfo/scope
    let extra: Vec<SocketAddr> = vec![
        SocketAddr::V4(SocketAddrV4::new(Ipv4Addr::new(0, 0, 0, 0), 0)),
        SocketAddr::V4(SocketAddrV4::new(Ipv4Addr::new(255, 255, 255, 255), 65535)),
        SocketAddr::V6(SocketAddrV6::new(Ipv6Addr::LOCALHOST, 8080, 7, 3)),
        SocketAddr::V6(SocketAddrV6::new(Ipv6Addr::UNSPECIFIED, 0, 0, 0)),
    ];
    if a.replay.is_none() {
        for p in extra {
            let Some(via) = conv(&p, &format!("SocketAddr {}", p), &mut out) else { continue };
            let via_v = match p {
                SocketAddr::V4(v) => conv(&v, &format!("SocketAddrV4 {}", v), &mut out),
                SocketAddr::V6(v) => conv(&v, &format!("SocketAddrV6 {}", v), &mut out),
            };
            let Some(via_v) = via_v else { continue };
            if via_v != RemoteAddr::Socket(p) {
                out.violation(&format!("SocketAddrV4/V6 conversion not lossless for {:?}: {:?}", p, via_v));
            }
            if via != RemoteAddr::Socket(p) || *via.socket_addr() != p {
                out.violation(&format!("socket-address conversion not lossless for {:?}", p));
            }
            out.case(&format!("addr {}", hex(p.to_string().as_bytes())), &describe(&via));
            out.count("addr_cases");
        }
    }
    out.finish();
}

//! C03 / C04 / C13 / C14(part 2) / C17(layer 3) / C18: step correspondence for network/driver.rs +
//! registry.rs through a scripted MOCK adapter mounted under an unused adapter id (hook
//! network::verif_split_with) and pumped directly (hook NetworkProcessor::verif_process).
//! Everything the adapter answers and everything user code does inside a callback is scripted;
//! the same script is the model's label sequence.
//!
//! case line: labels separated by spaces
//!   c:<ucall>
//!   p:<id>:<R|W>:<race0>:<pend R|I|D>:<cb_conn>:<chunks>:<read D|W>:<race>:<cb_disc>:<accepts>
//!   ucall  = conn.<ok>.<peer> | listen.<ok> | send.<id>.<to>.<len>.<ans S|M|F|A> | rm.<id> | ready.<id>
//!   ucalls = ucall+ucall+... | -          chunks = <d>/<ucalls>,... | -
//!   accepts = r.<peer> | d.<peer>.<data>/<ucalls> , ... | -
//! impl/model line: the observable trace, one token per item
//!   E:C:<id>:<peer>:<ok> E:A:<id>:<peer>:<listener> E:M:<id>:<peer>:<data> E:D:<id>:<peer>
//!   R:conn:<id>:<peer>|R:conn:none  R:listen:<id>|none  R:send:<id>:<S|M|F|A>  R:rm:<id>:<0|1>  R:ready:<none|0|1>
//! impl2/driverprops line: "<lifecycle automaton accepts> <max over ids of removes-true + Disconnected>"
//!   AS:<id>:<len>  AT:<id>:<to>:<len>
use crate::util::*;
use message_io::network::adapter::{
    AcceptedType, Adapter, ConnectionInfo, ListeningInfo, Local, PendingStatus, ReadStatus, Remote, Resource, SendStatus,
};
use message_io::network::{
    self, Endpoint, NetEvent, NetworkController, NetworkProcessor, Readiness, RemoteAddr, ResourceId, ResourceType,
    TransportConnect, TransportListen,
};
use mio::event::Source;
use mio::{Interest, Registry, Token};
use std::cell::RefCell;
use std::io;
use std::net::SocketAddr;
use std::sync::Arc as Rc;

pub const MOCK_ADAPTER: u8 = 5;

// ---- script types --------------------------------------------------------------------------------
#[derive(Clone, Debug)]
pub enum UCall {
    Connect(bool, u64),
    Listen(bool),
    Send(u64, u64, u64, char), // id, to, len, adapter answer S/M/F/A
    Remove(u64),
    IsReady(u64),
}

#[derive(Clone, Debug)]
pub enum Acc {
    Remote(u64),
    Data(u64, u64, Vec<UCall>),
}

#[derive(Clone, Debug, Default)]
pub struct Answer {
    pub race0: Vec<UCall>,
    pub pend: char, // R I D
    pub cb_conn: Vec<UCall>,
    pub chunks: Vec<(u64, Vec<UCall>)>,
    pub read: char, // D W
    pub race: Vec<UCall>,
    pub cb_disc: Vec<UCall>,
    pub accepts: Vec<Acc>,
}

fn ucall_str(c: &UCall) -> String {
    match c {
        UCall::Connect(ok, peer) => format!("conn.{}.{}", *ok as u8, peer),
        UCall::Listen(ok) => format!("listen.{}", *ok as u8),
        UCall::Send(id, to, len, ans) => format!("send.{}.{}.{}.{}", id, to, len, ans),
        UCall::Remove(id) => format!("rm.{}", id),
        UCall::IsReady(id) => format!("ready.{}", id),
    }
}
fn ucalls_str(cs: &[UCall]) -> String {
    if cs.is_empty() { "-".into() } else { cs.iter().map(ucall_str).collect::<Vec<_>>().join("+") }
}
fn answer_str(a: &Answer) -> String {
    let chunks = if a.chunks.is_empty() { "-".into() } else { a.chunks.iter().map(|(d, cb)| format!("{}/{}", d, ucalls_str(cb))).collect::<Vec<_>>().join(",") };
    let accs = if a.accepts.is_empty() {
        "-".into()
    } else {
        a.accepts.iter().map(|x| match x { Acc::Remote(p) => format!("r.{}", p), Acc::Data(p, d, cb) => format!("d.{}.{}/{}", p, d, ucalls_str(cb)) }).collect::<Vec<_>>().join(",")
    };
    format!("{}:{}:{}:{}:{}:{}:{}:{}", ucalls_str(&a.race0), a.pend, ucalls_str(&a.cb_conn), chunks, a.read, ucalls_str(&a.race), ucalls_str(&a.cb_disc), accs)
}

// ---- the world shared between the harness loop, the mock adapter and the callback -----------------
pub struct World {
    pub controller: Option<Rc<NetworkController>>,
    pub log: Vec<String>,
    pub answer: Answer,
    pub race0_done: bool,
    pub connect_ok: bool,
    pub listen_ok: bool,
    pub send_ans: char,
    pub remote_keys: u64, // remotes created by the mock so far = base value of the next remote id
    pub local_keys: u64,
    pub msg_idx: usize,
    pub acc_data_idx: usize,
}

thread_local! {
    pub static WORLD: RefCell<World> = RefCell::new(World {
        controller: None, log: vec![], answer: Answer::default(), race0_done: true, connect_ok: true, listen_ok: true,
        send_ans: 'S', remote_keys: 0, local_keys: 0, msg_idx: 0, acc_data_idx: 0,
    });
}

pub fn peer_addr(peer: u64) -> SocketAddr {
    SocketAddr::from(([10, 0, (peer >> 8) as u8, peer as u8], 1000 + (peer % 60000) as u16))
}
pub fn peer_of(a: SocketAddr) -> u64 {
    match a {
        SocketAddr::V4(v) => ((v.ip().octets()[2] as u64) << 8) | v.ip().octets()[3] as u64,
        _ => 0,
    }
}
fn status_char(s: SendStatus) -> char {
    match s { SendStatus::Sent => 'S', SendStatus::MaxPacketSizeExceeded => 'M', SendStatus::ResourceNotFound => 'F', SendStatus::ResourceNotAvailable => 'A' }
}
fn char_status(c: char) -> SendStatus {
    match c { 'S' => SendStatus::Sent, 'M' => SendStatus::MaxPacketSizeExceeded, 'F' => SendStatus::ResourceNotFound, _ => SendStatus::ResourceNotAvailable }
}

/// run controller calls on the real NetworkController, logging what they return
pub fn exec_ucalls(cs: &[UCall]) {
    for c in cs {
        let ctl = WORLD.with(|w| w.borrow().controller.clone().unwrap());
        match c {
            UCall::Connect(ok, peer) => {
                WORLD.with(|w| w.borrow_mut().connect_ok = *ok);
                let r = ctl.verif_connect_on(MOCK_ADAPTER, RemoteAddr::Socket(peer_addr(*peer)));
                let s = match r { Ok((ep, _)) => format!("R:conn:{}:{}", ep.resource_id().raw(), peer_of(ep.addr())), Err(_) => "R:conn:none".into() };
                WORLD.with(|w| w.borrow_mut().log.push(s));
            }
            UCall::Listen(ok) => {
                WORLD.with(|w| w.borrow_mut().listen_ok = *ok);
                let r = ctl.verif_listen_on(MOCK_ADAPTER, peer_addr(0));
                let s = match r { Ok((id, _)) => format!("R:listen:{}", id.raw()), Err(_) => "R:listen:none".into() };
                WORLD.with(|w| w.borrow_mut().log.push(s));
            }
            UCall::Send(id, to, len, ans) => {
                WORLD.with(|w| w.borrow_mut().send_ans = *ans);
                let ep = endpoint_of(*id, *to);
                let st = ctl.send(ep, &vec![0u8; *len as usize]);
                WORLD.with(|w| w.borrow_mut().log.push(format!("R:send:{}:{}", id, status_char(st))));
            }
            UCall::Remove(id) => {
                let b = ctl.remove(ResourceId::from(*id as usize));
                WORLD.with(|w| w.borrow_mut().log.push(format!("R:rm:{}:{}", id, b as u8)));
            }
            UCall::IsReady(id) => {
                let r = ctl.is_ready(ResourceId::from(*id as usize));
                WORLD.with(|w| w.borrow_mut().log.push(format!("R:ready:{}", match r { None => "none".to_string(), Some(b) => (b as u8).to_string() })));
            }
        }
    }
}

/// an Endpoint for any (id, addr): only the crate can build one, so go through a UDP-like path:
/// Endpoint::from_listener accepts local ids of non-connection-oriented adapters only; the hook-free
/// way to get arbitrary endpoints is to transmute-free reconstruct them from an event. We keep a
/// template endpoint obtained from a connect on the mock and patch it through serde-free means:
/// Endpoint is Copy with private fields, so build it with the crate's own constructor via the hook.
fn endpoint_of(id: u64, to: u64) -> Endpoint {
    message_io::network::verif_endpoint(ResourceId::from(id as usize), peer_addr(to))
}

// ---- the mock adapter -------------------------------------------------------------------------------
pub struct NullSource;
impl Source for NullSource {
    fn register(&mut self, _: &Registry, _: Token, _: Interest) -> io::Result<()> { Ok(()) }
    fn reregister(&mut self, _: &Registry, _: Token, _: Interest) -> io::Result<()> { Ok(()) }
    fn deregister(&mut self, _: &Registry) -> io::Result<()> { Ok(()) }
}

pub struct MockAdapter;
pub struct MockRemote { key: u64, src: NullSource }
pub struct MockLocal { #[allow(dead_code)] key: u64, src: NullSource }

impl Adapter for MockAdapter {
    type Remote = MockRemote;
    type Local = MockLocal;
}
impl Resource for MockRemote {
    fn source(&mut self) -> &mut dyn Source { &mut self.src }
}
impl Resource for MockLocal {
    fn source(&mut self) -> &mut dyn Source { &mut self.src }
}

fn my_id(key: u64, local: bool) -> u64 {
    ResourceId::verif_new(MOCK_ADAPTER, if local { ResourceType::Local } else { ResourceType::Remote }, key as usize).raw() as u64
}

fn run_race0() {
    let cs = WORLD.with(|w| {
        let mut w = w.borrow_mut();
        if w.race0_done { vec![] } else { w.race0_done = true; w.answer.race0.clone() }
    });
    exec_ucalls(&cs);
}

impl Remote for MockRemote {
    fn connect_with(_: TransportConnect, remote_addr: RemoteAddr) -> io::Result<ConnectionInfo<Self>> {
        let ok = WORLD.with(|w| w.borrow().connect_ok);
        if !ok {
            return Err(io::Error::new(io::ErrorKind::Other, "scripted connect failure"));
        }
        let key = WORLD.with(|w| { let mut w = w.borrow_mut(); let k = w.remote_keys; w.remote_keys += 1; k });
        let peer = *remote_addr.socket_addr();
        Ok(ConnectionInfo { remote: MockRemote { key, src: NullSource }, local_addr: peer_addr(0), peer_addr: peer })
    }
    fn receive(&self, mut process_data: impl FnMut(&[u8])) -> ReadStatus {
        run_race0();
        let (chunks, read, race) = WORLD.with(|w| { let w = w.borrow(); (w.answer.chunks.clone(), w.answer.read, w.answer.race.clone()) });
        for (d, _) in &chunks {
            process_data(&d.to_le_bytes());
        }
        if read == 'D' {
            // other threads, between receive() returning and the driver's deregister
            exec_ucalls(&race);
            if let Some((go, id, spin)) = RACE_HOOK.with(|h| h.borrow_mut().take()) {
                go.store(id, std::sync::atomic::Ordering::SeqCst);
                for _ in 0..spin { std::hint::spin_loop(); }
            }
            // (oracle-only token, filtered out of the trace that is compared with the model: the
            // adapter tells the driver that the peer closed this connection)
            WORLD.with(|w| { let mut w = w.borrow_mut(); let id = my_id(self.key, false); w.log.push(format!("AR:{}:D", id)); });
            ReadStatus::Disconnected
        } else {
            ReadStatus::WaitNextEvent
        }
    }
    fn send(&self, data: &[u8]) -> SendStatus {
        let ans = WORLD.with(|w| { let mut w = w.borrow_mut(); let id = my_id(self.key, false); w.log.push(format!("AS:{}:{}", id, data.len())); w.send_ans });
        char_status(ans)
    }
    fn pending(&self, _: Readiness) -> PendingStatus {
        run_race0();
        match WORLD.with(|w| w.borrow().answer.pend) { 'R' => PendingStatus::Ready, 'I' => PendingStatus::Incomplete, _ => PendingStatus::Disconnected }
    }
    fn ready_to_write(&self) -> bool {
        run_race0();
        true
    }
}

impl Local for MockLocal {
    type Remote = MockRemote;
    fn listen_with(_: TransportListen, addr: SocketAddr) -> io::Result<ListeningInfo<Self>> {
        let ok = WORLD.with(|w| w.borrow().listen_ok);
        if !ok {
            return Err(io::Error::new(io::ErrorKind::Other, "scripted listen failure"));
        }
        let key = WORLD.with(|w| { let mut w = w.borrow_mut(); let k = w.local_keys; w.local_keys += 1; k });
        Ok(ListeningInfo { local: MockLocal { key, src: NullSource }, local_addr: addr })
    }
    fn accept(&self, mut accept_remote: impl FnMut(AcceptedType<'_, Self::Remote>)) {
        let accs = WORLD.with(|w| w.borrow().answer.accepts.clone());
        for a in accs {
            match a {
                Acc::Remote(peer) => {
                    let key = WORLD.with(|w| { let mut w = w.borrow_mut(); let k = w.remote_keys; w.remote_keys += 1; k });
                    accept_remote(AcceptedType::Remote(peer_addr(peer), MockRemote { key, src: NullSource }));
                }
                Acc::Data(peer, d, _) => accept_remote(AcceptedType::Data(peer_addr(peer), &d.to_le_bytes())),
            }
        }
    }
    fn send_to(&self, addr: SocketAddr, data: &[u8]) -> SendStatus {
        let ans = WORLD.with(|w| { let mut w = w.borrow_mut(); let id = my_id(self.key, true); w.log.push(format!("AT:{}:{}:{}", id, peer_of(addr), data.len())); w.send_ans });
        char_status(ans)
    }
}

/// one poll event through the real driver with the scripted answer
pub fn do_process(processor: &NetworkProcessor, id: u64, rd: char, a: &Answer) {
    WORLD.with(|w| { let mut w = w.borrow_mut(); w.answer = a.clone(); w.race0_done = false; w.msg_idx = 0; w.acc_data_idx = 0; });
    let local = ResourceId::from(id as usize).resource_type() == ResourceType::Local;
    let mut cb = |ev: NetEvent<'_>| {
        let nested: Vec<UCall> = WORLD.with(|w| {
            let mut w = w.borrow_mut();
            match &ev {
                NetEvent::Connected(ep, ok) => { w.log.push(format!("E:C:{}:{}:{}", ep.resource_id().raw(), peer_of(ep.addr()), *ok as u8)); w.answer.cb_conn.clone() }
                NetEvent::Accepted(ep, l) => { w.log.push(format!("E:A:{}:{}:{}", ep.resource_id().raw(), peer_of(ep.addr()), l.raw())); w.answer.cb_conn.clone() }
                NetEvent::Message(ep, data) => {
                    let d = if data.len() == 8 { u64::from_le_bytes([data[0], data[1], data[2], data[3], data[4], data[5], data[6], data[7]]) } else { u64::MAX };
                    w.log.push(format!("E:M:{}:{}:{}", ep.resource_id().raw(), peer_of(ep.addr()), d));
                    if local {
                        let datas: Vec<Vec<UCall>> = w.answer.accepts.iter().filter_map(|x| if let Acc::Data(_, _, cb) = x { Some(cb.clone()) } else { None }).collect();
                        let i = w.acc_data_idx; w.acc_data_idx += 1;
                        datas.get(i).cloned().unwrap_or_default()
                    } else {
                        let i = w.msg_idx; w.msg_idx += 1;
                        w.answer.chunks.get(i).map(|x| x.1.clone()).unwrap_or_default()
                    }
                }
                NetEvent::Disconnected(ep) => { w.log.push(format!("E:D:{}:{}", ep.resource_id().raw(), peer_of(ep.addr()))); w.answer.cb_disc.clone() }
            }
        });
        exec_ucalls(&nested);
    };
    processor.verif_process(ResourceId::from(id as usize), if rd == 'R' { Readiness::Read } else { Readiness::Write }, &mut cb);
    // race0 belongs to this process call even if no adapter method was reached (not found: no-op in the model too)
    WORLD.with(|w| w.borrow_mut().race0_done = true);
}

// ---- generation (online: ids come from what the implementation returned) ------------------------
struct Known { remotes: Vec<u64>, locals: Vec<u64>, stale: Vec<u64>, peers: Vec<(u64, u64)> }

fn pick_id(r: &mut Rng, k: &Known, want_remote: Option<bool>) -> u64 {
    let fabricated = |r: &mut Rng, local: bool| my_id(r.below(40), local);
    match r.below(10) {
        0 => { let coin = r.chance(1, 2); fabricated(r, want_remote.map(|x| !x).unwrap_or(coin)) }
        1 if !k.stale.is_empty() => *r.pick(&k.stale),
        _ => {
            let use_remote = want_remote.unwrap_or(r.chance(3, 4));
            if use_remote && !k.remotes.is_empty() { *r.pick(&k.remotes) }
            else if !use_remote && !k.locals.is_empty() { *r.pick(&k.locals) }
            else if !k.remotes.is_empty() { *r.pick(&k.remotes) }
            else { fabricated(r, !use_remote) }
        }
    }
}

fn gen_ucall(r: &mut Rng, k: &Known, current: Option<u64>) -> UCall {
    match r.below(12) {
        0 => UCall::Connect(r.chance(9, 10), r.range(1, 300)),
        1 => UCall::Listen(r.chance(9, 10)),
        2..=4 => {
            let id = if current.is_some() && r.chance(1, 2) { current.unwrap() } else { pick_id(r, k, None) };
            let to = k.peers.iter().find(|p| p.0 == id).map(|p| p.1).unwrap_or(r.range(1, 300));
            UCall::Send(id, to, *r.pick(&[0u64, 1, 10, 1000]), *r.pick(&['S', 'S', 'S', 'M', 'F']))
        }
        5..=8 => UCall::Remove(if current.is_some() && r.chance(2, 3) { current.unwrap() } else { pick_id(r, k, None) }),
        _ => UCall::IsReady(if current.is_some() && r.chance(1, 2) { current.unwrap() } else { pick_id(r, k, None) }),
    }
}

fn gen_nested(r: &mut Rng, k: &Known, current: u64, p_nonempty: u64) -> Vec<UCall> {
    if !r.chance(p_nonempty, 100) { return vec![]; }
    (0..r.range(1, 2)).map(|_| gen_ucall(r, k, Some(current))).collect()
}

fn gen_answer(r: &mut Rng, k: &Known, id: u64) -> Answer {
    let nchunks = *r.pick(&[0u64, 0, 1, 1, 2, 3]);
    Answer {
        race0: gen_nested(r, k, id, 8),
        pend: *r.pick(&['R', 'R', 'R', 'I', 'D']),
        cb_conn: gen_nested(r, k, id, 30),
        chunks: (0..nchunks).map(|i| (1000 + i + r.below(5) * 10, gen_nested(r, k, id, 25))).collect(),
        read: *r.pick(&['W', 'W', 'D']),
        race: gen_nested(r, k, id, 25),
        cb_disc: gen_nested(r, k, id, 25),
        accepts: (0..*r.pick(&[0u64, 1, 1, 2, 3])).map(|_| if r.chance(2, 3) { Acc::Remote(r.range(1, 300)) } else { Acc::Data(r.range(1, 300), 7000 + r.below(50), gen_nested(r, k, id, 25)) }).collect(),
    }
}

/// refresh what the generator knows from the implementation's own log
fn learn(k: &mut Known, from: usize) {
    WORLD.with(|w| {
        let w = w.borrow();
        for l in &w.log[from..] {
            let p: Vec<&str> = l.split(':').collect();
            match (p[0], p.get(1).cloned()) {
                ("R", Some("conn")) if p[2] != "none" => { let id = p[2].parse().unwrap(); k.remotes.push(id); k.peers.push((id, p[3].parse().unwrap())); }
                ("R", Some("listen")) if p[2] != "none" => k.locals.push(p[2].parse().unwrap()),
                ("E", Some("A")) => { let id = p[2].parse().unwrap(); if !k.remotes.contains(&id) { k.remotes.push(id); k.peers.push((id, p[3].parse().unwrap())); } }
                ("E", Some("D")) => { let id: u64 = p[2].parse().unwrap(); k.remotes.retain(|x| *x != id); k.stale.push(id); }
                ("E", Some("C")) if p[4] == "0" => { let id: u64 = p[2].parse().unwrap(); k.remotes.retain(|x| *x != id); k.stale.push(id); }
                _ => {}
            }
        }
    });
}

pub struct Session { pub controller: Rc<NetworkController>, pub processor: NetworkProcessor }

pub fn new_session() -> Session {
    let (controller, processor) = network::verif_split_with(MOCK_ADAPTER, MockAdapter);
    let controller = Rc::new(controller);
    WORLD.with(|w| {
        let mut w = w.borrow_mut();
        *w = World { controller: Some(controller.clone()), log: vec![], answer: Answer::default(), race0_done: true, connect_ok: true, listen_ok: true, send_ans: 'S', remote_keys: 0, local_keys: 0, msg_idx: 0, acc_data_idx: 0 };
    });
    Session { controller, processor }
}

pub fn end_session() -> Vec<String> {
    WORLD.with(|w| { let mut w = w.borrow_mut(); w.controller = None; std::mem::take(&mut w.log) })
}

fn one_history(r: &mut Rng, steps: usize, out: &mut Out) -> (String, String) {
    let sess = new_session();
    let mut k = Known { remotes: vec![], locals: vec![], stale: vec![], peers: vec![] };
    let mut labels: Vec<String> = vec![];
    // accepted remotes are registered silently: the generator predicts their ids from the counter
    for _ in 0..steps {
        let from = WORLD.with(|w| w.borrow().log.len());
        let before_keys = WORLD.with(|w| w.borrow().remote_keys);
        if r.chance(45, 100) || (k.remotes.is_empty() && k.locals.is_empty()) {
            let c = gen_ucall(r, &k, None);
            if let UCall::Remove(id) = &c { if k.remotes.contains(id) { k.stale.push(*id); k.remotes.retain(|x| x != id); } if k.locals.contains(id) { k.stale.push(*id); k.locals.retain(|x| x != id); } }
            out.count(match &c { UCall::Connect(..) => "call_connect", UCall::Listen(..) => "call_listen", UCall::Send(..) => "call_send", UCall::Remove(..) => "call_remove", UCall::IsReady(..) => "call_is_ready" });
            labels.push(format!("c:{}", ucall_str(&c)));
            exec_ucalls(&[c]);
        } else {
            let id = if r.chance(85, 100) && !(k.remotes.is_empty() && k.locals.is_empty()) {
                if !k.remotes.is_empty() && (k.locals.is_empty() || r.chance(3, 4)) { *r.pick(&k.remotes) } else { *r.pick(&k.locals) }
            } else {
                pick_id(r, &k, None)
            };
            let rd = if r.chance(3, 4) { 'R' } else { 'W' };
            let a = gen_answer(r, &k, id);
            out.count(if k.remotes.contains(&id) { "process_known_remote" } else if k.locals.contains(&id) { "process_listener" } else { "process_stale_or_fabricated" });
            labels.push(format!("p:{}:{}:{}", id, rd, answer_str(&a)));
            do_process(&sess.processor, id, rd, &a);
        }
        // remotes accepted silently in this step
        let after_keys = WORLD.with(|w| w.borrow().remote_keys);
        let conn_ids: Vec<u64> = WORLD.with(|w| w.borrow().log[from..].iter().filter(|l| l.starts_with("R:conn:") && !l.ends_with("none")).map(|l| l.split(':').nth(2).unwrap().parse().unwrap()).collect());
        for key in before_keys..after_keys {
            let id = my_id(key, false);
            if !conn_ids.contains(&id) && !k.remotes.contains(&id) { k.remotes.push(id); }
        }
        learn(&mut k, from);
        // removes performed in nested calls
        let removed: Vec<u64> = labels.last().map(|l| l.split(|c| c == '+' || c == ':' || c == '/' || c == ',').filter_map(|t| t.strip_prefix("rm.").and_then(|x| x.parse().ok())).collect()).unwrap_or_default();
        for id in removed { if k.remotes.contains(&id) { k.remotes.retain(|x| *x != id); k.stale.push(id); } if k.locals.contains(&id) { k.locals.retain(|x| *x != id); k.stale.push(id); } }
    }
    drop(sess);
    let log = end_session();
    (labels.join(" "), log.join(" "))
}

pub fn run(a: &Args) {
    let mut out = Out::new(&a.out);
    let mut r = Rng::new(a.seed);
    let n = if a.thorough { 30_000 } else { 1_500 };
    for i in 0..n {
        let steps = if i % 10 == 0 { r.range(40, 80) } else { r.range(3, 30) } as usize;
        let (case, imp_full) = one_history(&mut r, steps, &mut out);
        let imp: String = imp_full.split(' ').filter(|t| !t.starts_with("AR:")).collect::<Vec<_>>().join(" ");
        // implementation-level oracle: the lifecycle automaton and the exactly-once end (also judged
        // by the extracted Coq predicates on the model side)
        let verdict = check_trace(&imp_full, &mut out);
        // the model-side core `driverprops` evaluates the extracted Coq predicates on THIS trace
        out.case2(&format!("{} || {}", case, imp), &imp, &verdict);
    }
    out.finish();
}

/// C03/C04/C13 oracles on an observed trace (independent re-statement of the property text)
pub fn check_trace(trace: &str, out: &mut Out) -> String {
    use std::collections::HashMap;
    #[derive(PartialEq, Clone, Copy)]
    enum Ph { PendingC, Est, Dead }
    let mut ph: HashMap<u64, Ph> = HashMap::new();
    let mut ends: HashMap<u64, u32> = HashMap::new();
    let mut listeners: Vec<u64> = vec![];
    let mut gone: Vec<u64> = vec![];
    let toks: Vec<&str> = trace.split(' ').filter(|t| !t.is_empty()).collect();
    let before = out.violations.len() as u64 + out.counters.get("impl_property_violations").cloned().unwrap_or(0);
    let mut removed_ok: Vec<u64> = vec![];
    let mut expect_disc: Option<u64> = None;
    for (i, t) in toks.iter().enumerate() {
        let p: Vec<&str> = t.split(':').collect();
        // the adapter reported the peer's close of an established, not removed connection: the very
        // next observable thing is its Disconnected event
        if let Some(id) = expect_disc.take() {
            if !(p[0] == "E" && p.get(1) == Some(&"D") && p.get(2).and_then(|x| x.parse::<u64>().ok()) == Some(id)) {
                out.violation(&format!("[C04,C03] the peer closed the established connection {} (the adapter's receive() answered Disconnected, the user had not removed it) and no Disconnected event was delivered for it (next trace item: {})", id, t));
            }
        }
        if p[0] == "AR" {
            let id: u64 = p[1].parse().unwrap();
            if ph.get(&id) == Some(&Ph::Est) && !removed_ok.contains(&id) { expect_disc = Some(id); }
            continue;
        }
        match (p[0], p.get(1).cloned().unwrap_or("")) {
            ("R", "conn") if p[2] != "none" => {
                let id: u64 = p[2].parse().unwrap();
                if ph.insert(id, Ph::PendingC).is_some() { out.violation(&format!("[C14,C03] connect() returned resource id {} a second time", id)); }
            }
            ("R", "listen") if p[2] != "none" => {
                let id: u64 = p[2].parse().unwrap();
                if listeners.contains(&id) { out.violation(&format!("[C14] listen() returned resource id {} a second time", id)); }
                listeners.push(id);
            }
            ("E", "C") => {
                let id: u64 = p[2].parse().unwrap();
                if ph.get(&id) != Some(&Ph::PendingC) { out.violation(&format!("[C03] Connected for endpoint {} that connect() did not return, or delivered twice, or after its end (trace item {})", id, i)); }
                if p[4] == "1" { ph.insert(id, Ph::Est); } else { ph.insert(id, Ph::Dead); gone.push(id); }
            }
            ("E", "A") => {
                let id: u64 = p[2].parse().unwrap();
                let l: u64 = p[4].parse().unwrap();
                if ph.contains_key(&id) { out.violation(&format!("[C03] Accepted for endpoint {} that already has a history", id)); }
                if !listeners.contains(&l) { out.violation(&format!("[C03] Accepted names listener {} which listen() never returned", l)); }
                ph.insert(id, Ph::Est);
            }
            ("E", "M") => {
                let id: u64 = p[2].parse().unwrap();
                if (id >> 7) & 1 == 1 {
                    if !listeners.contains(&id) { out.violation(&format!("[C03,C12] Message on listener id {} that was never returned by listen()", id)); }
                } else if ph.get(&id) != Some(&Ph::Est) {
                    out.violation(&format!("[C03] Message for endpoint {} that is not established (never connected/accepted, or already disconnected)", id));
                }
            }
            ("E", "D") => {
                let id: u64 = p[2].parse().unwrap();
                if ph.get(&id) != Some(&Ph::Est) { out.violation(&format!("[C03,C04,C17] Disconnected for endpoint {} that is not established (failed handshake, never announced, or already ended)", id)); }
                if removed_ok.contains(&id) { out.violation(&format!("[C04] Disconnected for endpoint {} although remove() had returned true for it", id)); }
                ph.insert(id, Ph::Dead);
                *ends.entry(id).or_insert(0) += 1;
                gone.push(id);
            }
            ("AS", _) => {
                let id: u64 = p[1].parse().unwrap();
                if gone.contains(&id) || removed_ok.contains(&id) {
                    out.violation(&format!("[C14,C04,C13] send() on endpoint {} reached the adapter although that connection had ended (stale endpoint)", id));
                } else if ph.get(&id) != Some(&Ph::Est) {
                    out.violation(&format!("[C13] send() on endpoint {} reached the adapter although the connection is not established", id));
                }
            }
            ("R", "send") => {
                let id: u64 = p[2].parse().unwrap();
                let remote = (id >> 7) & 1 == 0;
                if remote && (gone.contains(&id) || removed_ok.contains(&id)) && p[3] != "F" {
                    out.violation(&format!("[C14,C04,C13] send() to the stale endpoint {} answered {} instead of ResourceNotFound", id, p[3]));
                }
                if remote && ph.get(&id) == Some(&Ph::PendingC) && !removed_ok.contains(&id) && p[3] != "A" {
                    out.violation(&format!("[C13] send() to the pending endpoint {} answered {} instead of ResourceNotAvailable", id, p[3]));
                }
            }
            ("R", "rm") if p[3] == "1" => {
                let id: u64 = p[2].parse().unwrap();
                if (id >> 7) & 1 == 0 {
                    if removed_ok.contains(&id) || ph.get(&id) == Some(&Ph::Dead) {
                        out.violation(&format!("[C04] remove({}) returned true for a connection that had already ended (removed before, or Disconnected)", id));
                    }
                    removed_ok.push(id);
                    *ends.entry(id).or_insert(0) += 1;
                }
            }
            _ => {}
        }
    }
    if let Some(id) = expect_disc { out.violation(&format!("[C04,C03] the peer closed the established connection {} and no Disconnected event was delivered for it (end of the history)", id)); }
    let worst = ends.values().cloned().max().unwrap_or(0);
    if worst > 1 { out.violation(&format!("[C04] a connection ended {} times (successful removes + Disconnected events)", worst)); }
    let after = out.violations.len() as u64 + out.counters.get("impl_property_violations").cloned().unwrap_or(0);
    let _ = gone;
    format!("{} {}", after == before, worst)
}


// ---- real threads: the two races of C04 -------------------------------------------------------------
/// (1) any number of threads call remove() on the same id at the same instant: exactly one `true`;
/// (2) a thread calls remove() while the processor thread is between the adapter's
///     ReadStatus::Disconnected and its own deregister: exactly one of {Disconnected, remove()->true}.
pub fn run_conc(a: &Args) {
    use std::sync::atomic::{AtomicBool, AtomicUsize, Ordering};
    use std::sync::Barrier;
    let mut out = Out::new(&a.out);
    let rounds = if a.thorough { 20_000 } else { 2_500 };
    let nthreads = 8;
    // (1)
    {
        let sess = new_session();
        let ctl = sess.controller.clone();
        let barrier = std::sync::Arc::new(Barrier::new(nthreads + 1));
        let target = std::sync::Arc::new(AtomicUsize::new(0));
        let trues = std::sync::Arc::new(AtomicUsize::new(0));
        let stop = std::sync::Arc::new(AtomicBool::new(false));
        let handles: Vec<_> = (0..nthreads).map(|_| {
            let (ctl, barrier, target, trues, stop) = (ctl.clone(), barrier.clone(), target.clone(), trues.clone(), stop.clone());
            std::thread::spawn(move || loop {
                barrier.wait();
                if stop.load(Ordering::SeqCst) { break; }
                let id = ResourceId::from(target.load(Ordering::SeqCst));
                if ctl.remove(id) { trues.fetch_add(1, Ordering::SeqCst); }
                barrier.wait();
            })
        }).collect();
        let mut bad = 0u64;
        for r in 0..rounds {
            exec_ucalls(&[UCall::Connect(true, 1 + (r % 200) as u64)]);
            let id: u64 = WORLD.with(|w| w.borrow().log.last().unwrap().split(':').nth(2).unwrap().parse().unwrap());
            target.store(id as usize, Ordering::SeqCst);
            trues.store(0, Ordering::SeqCst);
            barrier.wait();
            barrier.wait();
            let t = trues.load(Ordering::SeqCst);
            if t != 1 {
                bad += 1;
                if bad <= 3 { out.violation(&format!("[C04] {} threads called remove() on the same connection at once and {} of them got true (round {})", nthreads, t, r)); }
            }
        }
        stop.store(true, Ordering::SeqCst);
        barrier.wait();
        for h in handles { h.join().unwrap(); }
        out.add("concurrent_remove_rounds", rounds as u64);
        out.add("concurrent_remove_rounds_with_not_exactly_one_true", bad);
        drop(sess);
        end_session();
    }
    // (2)
    {
        let sess = new_session();
        let ctl = sess.controller.clone();
        let go = std::sync::Arc::new(AtomicUsize::new(0)); // id to remove, 0 = idle
        let result = std::sync::Arc::new(AtomicUsize::new(0)); // 1 = false, 2 = true
        let stop = std::sync::Arc::new(AtomicBool::new(false));
        let h = {
            let (ctl, go, result, stop) = (ctl.clone(), go.clone(), result.clone(), stop.clone());
            std::thread::spawn(move || {
                while !stop.load(Ordering::SeqCst) {
                    let id = go.load(Ordering::SeqCst);
                    if id != 0 {
                        let b = ctl.remove(ResourceId::from(id));
                        go.store(0, Ordering::SeqCst);
                        result.store(if b { 2 } else { 1 }, Ordering::SeqCst);
                    } else {
                        std::hint::spin_loop();
                    }
                }
            })
        };
        let (mut both, mut neither, mut driver_won, mut user_won) = (0u64, 0u64, 0u64, 0u64);
        for r in 0..rounds {
            exec_ucalls(&[UCall::Connect(true, 1 + (r % 200) as u64)]);
            let id: u64 = WORLD.with(|w| w.borrow().log.last().unwrap().split(':').nth(2).unwrap().parse().unwrap());
            // establish it
            do_process(&sess.processor, id, 'W', &Answer { pend: 'R', read: 'W', ..Default::default() });
            let from = WORLD.with(|w| w.borrow().log.len());
            result.store(0, Ordering::SeqCst);
            // the adapter reports the end; the other thread removes at (about) the same time
            RACE_HOOK.with(|h| *h.borrow_mut() = Some((go.clone(), id as usize, (r % 7) as u32 * 40)));
            do_process(&sess.processor, id, 'R', &Answer { pend: 'R', read: 'D', ..Default::default() });
            while result.load(Ordering::SeqCst) == 0 { std::hint::spin_loop(); }
            let user = result.load(Ordering::SeqCst) == 2;
            let disc = WORLD.with(|w| w.borrow().log[from..].iter().any(|l| l.starts_with("E:D:")));
            match (disc, user) {
                (true, true) => { both += 1; if both <= 3 { out.violation(&format!("[C04] connection {} got a Disconnected event AND a remove() that returned true (remove racing the peer's close)", id)); } }
                (false, false) => { neither += 1; if neither <= 3 { out.violation(&format!("[C04] connection {} ended with neither a Disconnected event nor a successful remove()", id)); } }
                (true, false) => driver_won += 1,
                (false, true) => user_won += 1,
            }
        }
        stop.store(true, Ordering::SeqCst);
        h.join().unwrap();
        out.add("race_rounds", rounds as u64);
        out.add("race_driver_won", driver_won);
        out.add("race_user_remove_won", user_won);
        out.add("race_both", both);
        out.add("race_neither", neither);
        drop(sess);
        end_session();
    }
    out.case("conc remove-vs-remove and remove-vs-peer-close races", "see counters");
    out.case("conc (second pseudo case so that the evidence counts the two families)", "see counters");
    out.finish();
}

thread_local! {
    /// when set, MockRemote::receive hands the id to the racing thread just before it returns Disconnected
    pub static RACE_HOOK: RefCell<Option<(std::sync::Arc<std::sync::atomic::AtomicUsize>, usize, u32)>> = RefCell::new(None);
}

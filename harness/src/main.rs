mod util;
mod remoteaddr;
mod resid;
mod decoder;
mod queue;
mod queue_conc;
mod queue_timed;
mod driver;
mod net;
mod nodeh;

fn main() {
    let args: Vec<String> = std::env::args().collect();
    if args.len() < 2 {
        eprintln!("usage: mioh <core> [--seed N] [--tier quick|thorough] [--out DIR] [--replay FILE]");
        std::process::exit(2);
    }
    // panics inside catch_unwind are expected in places: keep stderr quiet
    // (any other panic is echoed with its location: ./check shows it when the process dies)
    std::panic::set_hook(Box::new(|info| {
        if util::EXPECT_PANIC.with(|c| c.get()) == 0 {
            eprintln!("panic: {}", info.to_string().replace('\n', " "));
        }
    }));
    let a = util::parse_args(&args[2..]);
    match args[1].as_str() {
        "remoteaddr" => remoteaddr::run(&a),
        "resid" => resid::run(&a),
        "decoder" => decoder::run(&a),
        "queue" => queue::run(&a),
        "queue_conc" => queue_conc::run(&a),
        "queue_timed" => queue_timed::run(&a),
        "driver" => driver::run(&a),
        "driver_conc" => driver::run_conc(&a),
        "net_framed" => net::run_framed(&a),
        "net_tcp" => net::run_tcp(&a),
        "net_udp" => net::run_udp(&a),
        "net_ws" => net::run_ws(&a),
        "net_conc" => net::run_conc(&a),
        "net_limits" => net::run_limits(&a),
        "net_life" => net::run_life(&a),
        "net_sync" => net::run_sync(&a),
        "probe_starvation" => { let mut out = util::Out::new(&a.out); net::probe_stream_starvation(&mut out); out.finish() }
        "ws_first_stress" => { let mut out = util::Out::new(&a.out); for _ in 0..60 { net::ws_server_speaks_first(&mut out); } net::ws_server_speaks_first_threaded(&mut out, 3000); out.finish() }
        "node" => nodeh::run(&a),
        other => {
            eprintln!("unknown core {}", other);
            std::process::exit(2);
        }
    }
}

//! C06: multi-threaded histories on the real EventReceiver.
//! Every event is numbered sender*2^40 + kind*2^36 + index (kind 0 plain, 1 priority, 2 timer
//! with duration 0, 3 short timer, 4 cancelled far-future timer, 5 cancelled short timer).
//! case line:  log <nsenders> <sent events, send order per thread, threads concatenated> | <received, in receive order>
//! impl line:  "<same multiset> <fifo per sender>" computed here; the model side evaluates the
//! extracted Coq predicates same_multiset_b / all_fifo_b on the same log.
use crate::queue::timer_id_parts;
use crate::util::*;
use message_io::events::EventReceiver;
use std::collections::{HashMap, HashSet};
use std::time::{Duration, Instant};

fn ev(sender: u64, kind: u64, idx: u64) -> u64 {
    (sender << 40) | (kind << 36) | idx
}

struct Scenario {
    senders: usize,
    per_sender: usize,
    recv_variant: u64, // 0 receive_timeout, 1 try_receive, 2 receive, 3 rotating
    drop_senders_early: bool,
}

fn run_scenario(sc: &Scenario, seed: u64, out: &mut Out) {
    let mut q = EventReceiver::<u64>::default();
    let base_sender = q.sender().clone();
    let short = Duration::from_millis(120);
    let handles: Vec<_> = (0..sc.senders)
        .map(|t| {
            let s = base_sender.clone();
            let n = sc.per_sender;
            let mut r = Rng::new(seed ^ (t as u64 * 7919));
            std::thread::spawn(move || {
                let mut sent: Vec<u64> = vec![];          // every event that must be delivered, in send order
                let mut cancelled: Vec<u64> = vec![];     // must never be delivered
                let mut timer_deadlines: Vec<(u128, u64, u64, bool)> = vec![]; // (deadline, seq, event, cancelled)
                for i in 0..n as u64 {
                    match r.below(10) {
                        0..=3 => { let e = ev(t as u64, 0, i); s.send(e); sent.push(e); }
                        4..=5 => { let e = ev(t as u64, 1, i); s.send_with_priority(e); sent.push(e); }
                        6..=7 => { let e = ev(t as u64, 2, i); let id = s.send_with_timer(e, Duration::ZERO); let (d, q) = timer_id_parts(&id); timer_deadlines.push((d, q, e, false)); sent.push(e); }
                        8 => {
                            // a group of short timers with the same requested duration; half are cancelled at once
                            let e = ev(t as u64, 3, i);
                            let id = s.send_with_timer(e, short);
                            let (d, q) = timer_id_parts(&id);
                            if r.chance(1, 2) {
                                s.cancel_timer(id);
                                cancelled.push(e);
                                timer_deadlines.push((d, q, e, true));
                            } else {
                                timer_deadlines.push((d, q, e, false));
                                sent.push(e);
                            }
                        }
                        _ => { let e = ev(t as u64, 4, i); let id = s.send_with_timer(e, Duration::from_secs(3600)); s.cancel_timer(id); cancelled.push(e); let (d, q) = timer_id_parts(&id); timer_deadlines.push((d, q, e, true)); }
                    }
                }
                drop(s); // the sender handle is gone before (most of) its events are delivered
                (sent, cancelled, timer_deadlines)
            })
        })
        .collect();
    if sc.drop_senders_early {
        drop(base_sender);
    }
    // the receiver runs concurrently with the senders
    let mut received: Vec<u64> = vec![];
    let mut recv_instants: Vec<u128> = vec![];
    let mut sent_all: Vec<Vec<u64>> = vec![];
    let mut cancelled_all: HashSet<u64> = HashSet::new();
    let mut deadlines: HashMap<u64, (u128, u64)> = HashMap::new();
    let mut all_timers: Vec<(u128, u64, u64, bool)> = vec![];
    let mut joined = false;
    let mut handles = Some(handles);
    let mut expected_total = usize::MAX;
    let start = Instant::now();
    let mut k = 0u64;
    loop {
        if !joined && handles.as_ref().unwrap().iter().all(|h| h.is_finished()) {
            for h in handles.take().unwrap() {
                let (s, c, td) = h.join().unwrap();
                sent_all.push(s);
                cancelled_all.extend(c);
                for x in &td {
                    deadlines.insert(x.2, (x.0, x.1));
                }
                all_timers.extend(td);
            }
            expected_total = sent_all.iter().map(|v| v.len()).sum();
            joined = true;
        }
        if joined && received.len() >= expected_total {
            break;
        }
        if start.elapsed() > Duration::from_secs(20) {
            break; // events are missing: reported below
        }
        k += 1;
        let variant = if sc.recv_variant == 3 { k % 3 } else { sc.recv_variant };
        let got = match variant {
            0 => q.receive_timeout(Duration::from_millis(5)),
            1 => { let x = q.try_receive(); if x.is_none() { std::thread::yield_now(); } x }
            _ => {
                // receive() may only be used while something is certain to arrive
                if !joined || received.len() < expected_total { q.receive_timeout(Duration::from_millis(5)) } else { None }
            }
        };
        if let Some(e) = got {
            received.push(e);
            recv_instants.push(crate::queue::now_ns());
        }
    }
    // a grace period: nothing more may arrive (cancelled timers, duplicates)
    let grace = Instant::now();
    while grace.elapsed() < Duration::from_millis(150) {
        if let Some(e) = q.receive_timeout(Duration::from_millis(20)) {
            received.push(e);
            recv_instants.push(crate::queue::now_ns());
        }
    }
    // ---- oracle on the implementation ----------------------------------------------------------
    let sent_flat: Vec<u64> = sent_all.concat();
    let mut a = sent_flat.clone();
    let mut b = received.clone();
    a.sort();
    b.sort();
    let same = a == b;
    if !same {
        let sa: HashSet<u64> = a.iter().cloned().collect();
        let sb: HashSet<u64> = b.iter().cloned().collect();
        let lost: Vec<_> = sa.difference(&sb).take(5).collect();
        let invented: Vec<_> = sb.difference(&sa).take(5).collect();
        let dup = b.len() - sb.len();
        let lost_kinds: Vec<u64> = lost.iter().map(|e| (**e >> 36) & 15).collect();
        let cancelled_delivered = invented.iter().filter(|e| cancelled_all.contains(**e)).count();
        out.violation(&format!(
            "[C06,C08] queue lost/duplicated/invented events with {} senders: sent {} received {}: lost {:?} (kinds {:?}) not-sent {:?} ({} of them cancelled timers) duplicates {}",
            sc.senders, a.len(), b.len(), lost, lost_kinds, invented, cancelled_delivered, dup
        ));
    }
    let mut fifo = true;
    for t in 0..sc.senders as u64 {
        for kind in [0u64, 1] {
            let want: Vec<u64> = sent_flat.iter().cloned().filter(|e| e >> 40 == t && (e >> 36) & 15 == kind).collect();
            let got: Vec<u64> = received.iter().cloned().filter(|e| e >> 40 == t && (e >> 36) & 15 == kind).collect();
            if want != got {
                fifo = false;
                if same {
                    out.violation(&format!("[C06] events of sender {} kind {} received out of send order ({} events)", t, kind, want.len()));
                }
            }
        }
    }
    // timers never early (C08 clause, free here): receive instant >= deadline
    for (e, at) in received.iter().zip(recv_instants.iter()) {
        if let Some((d, _)) = deadlines.get(e) {
            if *at < *d {
                out.violation(&format!("[C08] timer event {} delivered {} ns before its deadline", e, d - at));
            }
        }
    }
    // coverage: timers that fell on the same Instant (the case the old keying lost)
    let mut by_deadline: HashMap<u128, Vec<bool>> = HashMap::new();
    for x in &all_timers {
        by_deadline.entry(x.0).or_default().push(x.3);
    }
    let same_instant = by_deadline.values().filter(|v| v.len() > 1).map(|v| v.len() as u64).sum::<u64>();
    let mixed = by_deadline.values().filter(|v| v.len() > 1 && v.iter().any(|c| *c) && v.iter().any(|c| !*c)).count() as u64;
    out.add("timers_sharing_an_instant", same_instant);
    out.add("same_instant_groups_with_one_cancelled_one_kept", mixed);
    out.add("events_sent", sent_flat.len() as u64);
    out.add("timers_cancelled", cancelled_all.len() as u64);
    out.count(&format!("scenario_{}_senders_variant_{}", sc.senders, sc.recv_variant));
    let case = format!(
        "log {} {} | {}",
        sc.senders,
        sent_flat.iter().map(|e| e.to_string()).collect::<Vec<_>>().join(","),
        received.iter().map(|e| e.to_string()).collect::<Vec<_>>().join(",")
    );
    out.case(&case, &format!("{} {}", same, fifo));
}

/// many zero-duration timers from many threads: some fall on the same Instant (the case the
/// bare-Instant keying lost); implementation-level oracle only (the log would be tens of MB)
fn flood(out: &mut Out, senders: usize, per_sender: usize) {
    let mut q = EventReceiver::<u64>::default();
    let handles: Vec<_> = (0..senders as u64)
        .map(|t| {
            let s = q.sender().clone();
            std::thread::spawn(move || {
                let mut v = Vec::with_capacity(per_sender);
                for i in 0..per_sender as u64 {
                    let e = ev(t, 2, i);
                    let id = s.send_with_timer(e, Duration::ZERO);
                    v.push((timer_id_parts(&id).0, e));
                }
                v
            })
        })
        .collect();
    let mut seen: HashSet<u64> = HashSet::new();
    let mut dups = 0u64;
    let total = senders * per_sender;
    let start = Instant::now();
    let mut finished: Vec<Vec<(u128, u64)>> = vec![];
    let mut handles = Some(handles);
    loop {
        match q.receive_timeout(Duration::from_millis(20)) {
            Some(e) => { if !seen.insert(e) { dups += 1; } }
            None => {
                if handles.as_ref().map(|h| h.iter().all(|x| x.is_finished())).unwrap_or(true) {
                    if let Some(hs) = handles.take() { for h in hs { finished.push(h.join().unwrap()); } }
                    if seen.len() >= total || start.elapsed() > Duration::from_secs(30) { break; }
                    // one more empty poll after everything was sent: stop
                    if q.receive_timeout(Duration::from_millis(100)).map(|e| { if !seen.insert(e) { dups += 1; } }).is_none() { break; }
                }
            }
        }
    }
    if let Some(hs) = handles.take() { for h in hs { finished.push(h.join().unwrap()); } }
    let mut by_deadline: HashMap<u128, u64> = HashMap::new();
    for v in &finished { for (d, _) in v { *by_deadline.entry(*d).or_insert(0) += 1; } }
    let sharing: u64 = by_deadline.values().filter(|c| **c > 1).sum();
    out.add("flood_timers_sent", total as u64);
    out.add("flood_timers_sharing_an_instant", sharing);
    if seen.len() != total || dups > 0 {
        out.violation(&format!("[C06,C08] queue lost/duplicated timed events: {} zero-duration timers from {} threads, {} delivered, {} duplicates; {} timers shared their Instant with another one", total, senders, seen.len(), dups, sharing));
    }
}

/// two sender handles, same call count on each, deadlines forced onto (nearly) the same Instant by
/// asking for duration = target - now: a good share of the pairs coincide to the nanosecond.
/// Of each pair the second timer is cancelled for odd k: the first must still be delivered.
fn forced_same_instant(out: &mut Out, pairs: usize) {
    use std::sync::{Arc, Barrier};
    let mut q = EventReceiver::<u64>::default();
    let base = Instant::now() + Duration::from_millis(30);
    let barrier = Arc::new(Barrier::new(2));
    let handles: Vec<_> = (0..2u64).map(|t| {
        let s = q.sender().clone();
        let barrier = barrier.clone();
        std::thread::spawn(move || {
            let mut v = Vec::with_capacity(pairs);
            for k in 0..pairs as u64 {
                let target = base + Duration::from_micros(k * 40);
                barrier.wait();
                let d = target.saturating_duration_since(Instant::now());
                let e = ev(t, 3, k);
                let id = s.send_with_timer(e, d);
                let cancelled = t == 1 && k % 2 == 1;
                if cancelled { s.cancel_timer(id); }
                v.push((timer_id_parts(&id).0, e, cancelled));
            }
            v
        })
    }).collect();
    let mut all: Vec<Vec<(u128, u64, bool)>> = vec![];
    for h in handles { all.push(h.join().unwrap()); }
    let mut received: HashSet<u64> = HashSet::new();
    let mut dups = 0u64;
    let end = Instant::now() + Duration::from_millis(30 + (pairs as u64 * 40) / 1000 + 400);
    while Instant::now() < end {
        if let Some(e) = q.receive_timeout(Duration::from_millis(20)) { if !received.insert(e) { dups += 1; } }
    }
    let mut same = 0u64; let mut same_one_cancelled = 0u64; let mut lost = 0u64; let mut lost_in_pair = 0u64; let mut cancelled_delivered = 0u64;
    for k in 0..pairs {
        let (a, b) = (all[0][k], all[1][k]);
        let coincide = a.0 == b.0;
        if coincide { same += 1; if b.2 { same_one_cancelled += 1; } }
        for x in [a, b] {
            if x.2 { if received.contains(&x.1) { cancelled_delivered += 1; } }
            else if !received.contains(&x.1) { lost += 1; if coincide { lost_in_pair += 1; } }
        }
    }
    out.add("forced_pairs", pairs as u64);
    out.add("forced_pairs_on_the_same_instant", same);
    out.add("forced_pairs_same_instant_one_cancelled", same_one_cancelled);
    if lost > 0 || cancelled_delivered > 0 || dups > 0 {
        out.violation(&format!("[C06,C08] two sender handles scheduling timers on the same instant: {} of {} pairs coincided; {} non-cancelled timers never delivered ({} of them in a coinciding pair), {} cancelled timers delivered, {} duplicates", same, pairs, lost, lost_in_pair, cancelled_delivered, dups));
    }
}

/// one timed send racing a consumer that polls with try_receive(), many rounds, nothing sent
/// afterwards: the event of every round is returned (a command that lands just after a poll
/// looked at the channel is seen by the next poll)
fn lone_timer_vs_polling(out: &mut Out, rounds: usize) {
    use std::sync::atomic::{AtomicU64, Ordering};
    use std::sync::Arc;
    let mut q = message_io::events::EventReceiver::<u64>::default();
    let s = q.sender().clone();
    let go = Arc::new(AtomicU64::new(0));     // round the sender may send
    let sent = Arc::new(AtomicU64::new(0));   // round whose send has returned
    let sender = { let (go, sent) = (go.clone(), sent.clone()); std::thread::spawn(move || {
        for round in 1..=rounds as u64 {
            while go.load(Ordering::SeqCst) < round { std::hint::spin_loop(); }
            for _ in 0..(round % 7) * 13 { std::hint::spin_loop(); }
            if round % 2 == 0 { s.send_with_timer(round, std::time::Duration::ZERO); } else { s.send_with_timer(round, std::time::Duration::from_micros(50)); }
            sent.store(round, Ordering::SeqCst);
        }
    }) };
    let mut lost = vec![];
    for round in 1..=rounds as u64 {
        go.store(round, Ordering::SeqCst);
        let mut got = None;
        let mut deadline: Option<std::time::Instant> = None;
        loop {
            if let Some(e) = q.try_receive() { got = Some(e); break; }
            if deadline.is_none() && sent.load(Ordering::SeqCst) >= round { deadline = Some(std::time::Instant::now() + std::time::Duration::from_millis(300)); }
            if let Some(d) = deadline { if std::time::Instant::now() > d { break; } }
        }
        if got != Some(round) { lost.push((round, got)); if lost.len() >= 3 { break; } }
    }
    go.store(u64::MAX, Ordering::SeqCst);
    let _ = sender.join();
    if !lost.is_empty() {
        out.violation(&format!("[C06,C08] a single send_with_timer() from another thread while the consumer polls with try_receive(), nothing sent afterwards: rounds (expected event, returned within 300 ms of the send) {:?} of {} rounds", lost, rounds));
    }
    out.add("lone_timer_vs_polling_rounds", rounds as u64);
}


/// a cancel issued shortly BEFORE the deadline (it has returned before `scheduling call + duration`)
/// against a receiver blocked inside receive_timeout() / receive(): the timer is never delivered
fn late_cancel_vs_blocked(out: &mut Out, rounds: usize) {
    use std::time::{Duration, Instant};
    let mut q = message_io::events::EventReceiver::<u64>::default();
    let s = q.sender().clone();
    let dur = Duration::from_millis(15);
    let (mut valid, mut bad) = (0u64, vec![]);
    for round in 1..=rounds as u64 {
        let before = Duration::from_micros([250u64, 120, 400, 60, 480][(round % 5) as usize]);
        let blocking = round % 3 == 0;
        let t0 = Instant::now();
        let id = s.send_with_timer(round, dur);
        let canceller = { let s = s.clone(); std::thread::spawn(move || {
            while Instant::now() < t0 + dur - before { std::hint::spin_loop(); }
            s.cancel_timer(id);
            let ok = Instant::now() < t0 + dur;
            if blocking { std::thread::sleep(Duration::from_millis(25)); s.send(u64::MAX); }
            ok
        }) };
        let mut got = vec![];
        if blocking {
            loop { let e = q.receive(); if e == u64::MAX { break; } got.push(e); }
        } else if let Some(e) = q.receive_timeout(Duration::from_millis(45)) { got.push(e); }
        let ok = canceller.join().unwrap_or(false);
        if ok { valid += 1; if !got.is_empty() && bad.len() < 4 { bad.push((round, before.as_micros() as u64, blocking, got)); } }
    }
    if !bad.is_empty() {
        out.violation(&format!("[C08] a timer cancelled before its deadline (cancel_timer() had returned before scheduling call + duration) was delivered to a receiver blocked in a receive call: (round, cancel issued N us before the deadline, receiver in receive() rather than receive_timeout(), delivered) {:?}; {} of {} rounds had a cancel in time", bad, valid, rounds));
    }
    out.add("late_cancel_rounds_with_cancel_in_time", valid);
}

pub fn run(a: &Args) {
    let mut out = Out::new(&a.out);
    let mut r = Rng::new(a.seed);
    lone_timer_vs_polling(&mut out, if a.thorough { 200_000 } else { 20_000 });
    late_cancel_vs_blocked(&mut out, if a.thorough { 300 } else { 30 });
    forced_same_instant(&mut out, if a.thorough { 20_000 } else { 3_000 });
    flood(&mut out, 8, if a.thorough { 400_000 } else { 100_000 });
    let scenarios: Vec<Scenario> = if a.thorough {
        let mut v = vec![];
        for senders in [1usize, 2, 4, 8] {
            for variant in 0..4 {
                v.push(Scenario { senders, per_sender: 60_000 / senders, recv_variant: variant, drop_senders_early: variant % 2 == 0 });
            }
        }
        v.push(Scenario { senders: 8, per_sender: 120_000, recv_variant: 3, drop_senders_early: true });
        v
    } else {
        vec![
            Scenario { senders: 2, per_sender: 4000, recv_variant: 0, drop_senders_early: true },
            Scenario { senders: 4, per_sender: 3000, recv_variant: 1, drop_senders_early: false },
            Scenario { senders: 8, per_sender: 3000, recv_variant: 3, drop_senders_early: true },
            Scenario { senders: 8, per_sender: 3000, recv_variant: 2, drop_senders_early: false },
        ]
    };
    for sc in &scenarios {
        run_scenario(sc, r.next(), &mut out);
    }
    out.finish();
}

//! C05 / C09 / C15 (+ threads of C18): real nodes (node::split) with the hook trace enabled.
//! Scenario = (listener mode, activity before the listener call, where stop() happens).
//! Two outputs per scenario:
//!   * implementation-level oracles: callbacks never overlap (an in-callback flag), no callback
//!     after a stop() issued inside a callback / before the listener call, the listener returns,
//!     events that happened before the listener call come first and in order;
//!   * a label sequence for the model (trace inclusion): case line = labels, impl line = "ok".
//! labels:  cp:<ids>  st  rp  re  lc:<t>  po:<ids>  sr:<id|->  lk:<t>  ck:<t>  ce:<t>  cs:<t>  cx:<t>  ul:<t>  xs
//!          threads: n (network thread)  s (signal thread);  ids are small numbers the harness gives to events
use crate::util::*;
use message_io::network::{NetEvent, Transport};
use message_io::node::{self, NodeEvent, NodeHandler};
use message_io::verif;
use std::net::UdpSocket;
use std::sync::atomic::{AtomicBool, AtomicU64, AtomicUsize, Ordering};
use std::sync::{Arc, Mutex};
use std::time::{Duration, Instant};

#[derive(Clone, Copy, Debug, PartialEq)]
pub enum Mode { ForEach, ForEachAsync, Enqueue }
#[derive(Clone, Copy, Debug, PartialEq)]
pub enum StopAt { NetEvent(usize), Signal(usize), BeforeStart, External(u64) }

pub struct Sc { pub mode: Mode, pub pre_datagrams: usize, pub live_datagrams: usize, pub signals: usize, pub stop: StopAt, pub cb_micros: u64,
    /// before the scripted stop() inside a callback, make the OTHER thread queue up for the callback:
    /// a datagram (when stopping from a signal) or a signal (when stopping from a network event) is
    /// injected and the callback lingers, so that the other thread is blocked on the lock when stop() runs
    pub inflight: bool,
    /// a whole short-lived FramedTcp client session (connect, three messages, close) completes before the listener call
    pub pre_session: bool,
    /// after the listener started: a FramedTcp client connects, sends one message (payload 600000) and closes at once;
    /// the callback that gets that message lingers 120 ms (so that the FIN is queued behind it) and stops the node
    pub live_session_stop: bool,
    /// traffic that does NOT end with the stop: a datagram every 5 ms until the listener has returned
    pub flood: bool,
    /// a thread arms and cancels far-future signal timers every 10 ms until the listener has returned
    pub timer_churn: bool,
    /// a datagram every 7 ms from BEFORE the listener call on (the hand-over happens under traffic)
    pub pre_flood: bool,
    /// the callback of the FIRST network event (and of signal 0) lingers this many ms (longer than any internal wait of the listener)
    pub long_cb_ms: u64,
    /// ONE sender keeps sending numbered datagrams (about 100 per millisecond) from before the listener call until the end:
    /// the numbers handed to the callback / offered by the queue are strictly increasing
    pub numbered_stream: bool,
    /// an EMPTY datagram is sent after pre-datagram #1 (before the listener call) and after the first live one
    pub with_empties: bool,
    /// a FramedTcp peer writes a 256 KiB burst of tiny frames right before the listener call (the thread that reads
    /// the sockets is in a long read loop at the moment of the hand-over)
    pub pre_tcp_stream: bool }

struct Shared {
    in_cb: AtomicBool,
    overlaps: AtomicU64,
    calls: AtomicUsize,
    stopped_at_call: AtomicUsize, // usize::MAX = not yet
    first_cb_ns: AtomicU64,       // 0 = no callback yet; nanoseconds since the harness epoch
    calls_after_stop: AtomicU64,
    net_order: Mutex<Vec<u64>>,    // payload numbers of network messages in delivery order
    sig_order: Mutex<Vec<u64>>,    // signals in delivery order
    log: Mutex<Vec<String>>,
    inject: Mutex<Option<(UdpSocket, std::net::SocketAddr)>>,
}

fn call_is_first_net(sh: &Shared) -> bool { sh.net_order.lock().unwrap().len() == 1 }

fn on_event(sh: &Shared, handler: &NodeHandler<u64>, sc: &Sc, kind: char, payload: u64) {
    // kind 'n' network, 's' signal
    if sh.in_cb.swap(true, Ordering::SeqCst) { sh.overlaps.fetch_add(1, Ordering::SeqCst); }
    let call = sh.calls.fetch_add(1, Ordering::SeqCst);
    if call == 0 { sh.first_cb_ns.store(epoch().elapsed().as_nanos() as u64 + 1, Ordering::SeqCst); }
    if sh.stopped_at_call.load(Ordering::SeqCst) != usize::MAX { sh.calls_after_stop.fetch_add(1, Ordering::SeqCst); }
    verif::trace("cb_enter", ((kind as u64) << 32) | (payload & 0xffff_ffff));
    if kind == 'n' { sh.net_order.lock().unwrap().push(payload); } else { sh.sig_order.lock().unwrap().push(payload); }
    if sc.cb_micros > 0 { std::thread::sleep(Duration::from_micros(sc.cb_micros + (payload % 3) * 50)); }
    if sc.long_cb_ms > 0 && ((kind == 'n' && call_is_first_net(sh)) || (kind == 's' && payload == 0)) { std::thread::sleep(Duration::from_millis(sc.long_cb_ms)); }
    let nets = sh.net_order.lock().unwrap().len();
    let session_msg = kind == 'n' && payload == 600_000 && sc.live_session_stop;
    if session_msg { std::thread::sleep(Duration::from_millis(120)); }
    let stop_now = session_msg || match sc.stop {
        StopAt::NetEvent(k) => kind == 'n' && nets == k + 1,
        StopAt::Signal(k) => kind == 's' && payload as usize == k,
        _ => false,
    };
    if stop_now && sh.stopped_at_call.load(Ordering::SeqCst) == usize::MAX {
        if sc.inflight {
            if kind == 's' { if let Some((s, addr)) = sh.inject.lock().unwrap().as_ref() { let _ = s.send_to(&900_001u64.to_le_bytes(), addr); } }
            else { handler.signals().send(777_777); }
            std::thread::sleep(Duration::from_millis(40));
        }
        handler.stop();
        sh.stopped_at_call.store(call, Ordering::SeqCst);
        verif::trace("cb_stop", 0);
    }
    verif::trace("cb_exit", 0);
    sh.in_cb.store(false, Ordering::SeqCst);
}

fn epoch() -> Instant { static E: std::sync::OnceLock<Instant> = std::sync::OnceLock::new(); *E.get_or_init(Instant::now) }

fn name_of(sc: &Sc) -> String { format!("{:?} pre={} live={} signals={} stop={:?} cb={}us", sc.mode, sc.pre_datagrams, sc.live_datagrams, sc.signals, sc.stop, sc.cb_micros) }

pub fn run_scenario(sc: &Sc, out: &mut Out) -> Option<String> {
    let _ = epoch();
    let _ = verif::take();
    let (handler, listener) = node::split::<u64>();
    let sh = Arc::new(Shared { in_cb: AtomicBool::new(false), overlaps: AtomicU64::new(0), calls: AtomicUsize::new(0), stopped_at_call: AtomicUsize::new(usize::MAX), first_cb_ns: AtomicU64::new(0), calls_after_stop: AtomicU64::new(0), net_order: Mutex::new(vec![]), sig_order: Mutex::new(vec![]), log: Mutex::new(vec![]), inject: Mutex::new(None) });
    let (_lid, addr) = handler.network().listen(Transport::Udp, "127.0.0.1:0").unwrap();
    let sock = UdpSocket::bind("127.0.0.1:0").unwrap();
    *sh.inject.lock().unwrap() = Some((UdpSocket::bind("127.0.0.1:0").unwrap(), addr));
    // activity before the listener call: numbered datagrams, paced so that they are certainly cached
    for i in 0..sc.pre_datagrams { sock.send_to(&(i as u64).to_le_bytes(), addr).unwrap(); if sc.with_empties && i == 1 { sock.send_to(&[], addr).unwrap(); } std::thread::sleep(Duration::from_micros(300)); }
    if sc.pre_session {
        use std::io::Write;
        let (_fl, faddr) = handler.network().listen(Transport::FramedTcp, "127.0.0.1:0").unwrap();
        let mut c = std::net::TcpStream::connect(faddr).unwrap();
        let mut bytes = vec![];
        for k in 0..3u64 { bytes.push(8u8); bytes.extend_from_slice(&(500_000 + k).to_le_bytes()); }
        c.write_all(&bytes).unwrap();
        std::thread::sleep(Duration::from_millis(30));
        drop(c);
    }
    if sc.pre_datagrams > 0 || sc.pre_session { std::thread::sleep(Duration::from_millis(70)); } // > one SAMPLING_TIMEOUT
    let bg_stop = Arc::new(AtomicBool::new(false));
    let mut bg = vec![];
    if sc.numbered_stream {
        // numbers from 100_000 on, one socket, one thread
        let (bg_stop, addr) = (bg_stop.clone(), addr);
        bg.push(std::thread::spawn(move || { let s = UdpSocket::bind("127.0.0.1:0").unwrap(); let mut n = 100_000u64; while !bg_stop.load(Ordering::SeqCst) && n < 390_000 { let _ = s.send_to(&n.to_le_bytes(), addr); n += 1; if n % 64 == 0 { std::thread::sleep(Duration::from_micros(60)); } } }));
        std::thread::sleep(Duration::from_millis(600));
    }
    if sc.pre_tcp_stream {
        use std::io::Write;
        if let Ok((_fl, faddr)) = handler.network().listen(Transport::FramedTcp, "127.0.0.1:0") {
            let bg_stop = bg_stop.clone();
            // a FINITE burst (256 KiB = 131072 two-byte frames): a stream
            // that never pauses keeps a receive() call from ever returning, which is known finding K2
            bg.push(std::thread::spawn(move || { if let Ok(mut c) = std::net::TcpStream::connect(faddr) { let _ = c.set_write_timeout(Some(Duration::from_millis(3000))); let chunk: Vec<u8> = (0..4096).flat_map(|_| [1u8, 7u8]).collect(); for _ in 0..32 { if bg_stop.load(Ordering::SeqCst) || c.write_all(&chunk).is_err() { break; } } while !bg_stop.load(Ordering::SeqCst) { std::thread::sleep(Duration::from_millis(5)); } } }));
            std::thread::sleep(Duration::from_millis(15));
        }
    }
    if sc.pre_flood {
        let (bg_stop, addr) = (bg_stop.clone(), addr);
        bg.push(std::thread::spawn(move || { let s = UdpSocket::bind("127.0.0.1:0").unwrap(); while !bg_stop.load(Ordering::SeqCst) { let _ = s.send_to(&900_004u64.to_le_bytes(), addr); std::thread::sleep(Duration::from_millis(7)); } }));
        std::thread::sleep(Duration::from_millis(80));
    }
    if sc.stop == StopAt::BeforeStart { handler.stop(); verif::trace("ext_stop", 0); }
    // signals queued before the start too
    for k in 0..sc.signals { match k % 3 { 0 => handler.signals().send(k as u64), 1 => handler.signals().send_with_priority(k as u64), _ => { handler.signals().send_with_timer(k as u64, Duration::from_millis(2 * k as u64)); } } }
    verif::trace("start", 0);
    let returned = Arc::new(AtomicBool::new(false));
    let t_start = Instant::now();
    let start_ns = epoch().elapsed().as_nanos() as u64;
    let cb = { let (sh, handler, sc2) = (sh.clone(), handler.clone(), Sc { ..*sc }); move |ev: NodeEvent<u64>| match ev {
        NodeEvent::Network(NetEvent::Message(_, d)) => { let p = if d.len() == 8 { u64::from_le_bytes(d.try_into().unwrap()) } else { 999_999 }; on_event(&sh, &handler, &sc2, 'n', p) }
        NodeEvent::Network(NetEvent::Accepted(..)) => on_event(&sh, &handler, &sc2, 'n', 888_001),
        NodeEvent::Network(NetEvent::Disconnected(..)) => on_event(&sh, &handler, &sc2, 'n', 888_002),
        NodeEvent::Network(_) => on_event(&sh, &handler, &sc2, 'n', 888_888),
        NodeEvent::Signal(s) => on_event(&sh, &handler, &sc2, 's', s),
    } };
    // the listener call, in its own thread so that a listener that never returns cannot hang the harness
    let lt = { let returned = returned.clone(); let mode = sc.mode; let (sh2, handler2, sc3) = (sh.clone(), handler.clone(), Sc { ..*sc });
        std::thread::Builder::new().name("listener-caller".into()).spawn(move || {
            match mode {
                Mode::ForEach => listener.for_each(cb),
                Mode::ForEachAsync => { let mut task = listener.for_each_async(cb); task.wait(); }
                Mode::Enqueue => {
                    drop(cb);
                    let (mut task, mut receiver) = listener.enqueue();
                    // the consumer of the queue plays the role of the callback
                    loop {
                        match receiver.receive_timeout(Duration::from_millis(20)) {
                            Some(node::StoredNodeEvent::Network(node::StoredNetEvent::Message(_, d))) => { let p = if d.len() == 8 { u64::from_le_bytes(d[..].try_into().unwrap()) } else { 999_999 }; on_event(&sh2, &handler2, &sc3, 'n', p) }
                            Some(node::StoredNodeEvent::Network(node::StoredNetEvent::Accepted(..))) => on_event(&sh2, &handler2, &sc3, 'n', 888_001),
                            Some(node::StoredNodeEvent::Network(node::StoredNetEvent::Disconnected(..))) => on_event(&sh2, &handler2, &sc3, 'n', 888_002),
                            Some(node::StoredNodeEvent::Network(_)) => on_event(&sh2, &handler2, &sc3, 'n', 888_888),
                            Some(node::StoredNodeEvent::Signal(s)) => on_event(&sh2, &handler2, &sc3, 's', s),
                            None => if !handler2.is_running() { break; },
                        }
                    }
                    task.wait();
                }
            }
            returned.store(true, Ordering::SeqCst);
        }).unwrap() };
    // live activity
    std::thread::sleep(Duration::from_millis(15));
    for i in 0..sc.live_datagrams { sock.send_to(&((sc.pre_datagrams + i) as u64).to_le_bytes(), addr).unwrap(); if sc.with_empties && i == 0 { sock.send_to(&[], addr).unwrap(); } std::thread::sleep(Duration::from_micros(400)); }
    if sc.flood {
        let (bg_stop, addr) = (bg_stop.clone(), addr);
        bg.push(std::thread::spawn(move || { let s = UdpSocket::bind("127.0.0.1:0").unwrap(); while !bg_stop.load(Ordering::SeqCst) { let _ = s.send_to(&900_002u64.to_le_bytes(), addr); std::thread::sleep(Duration::from_millis(5)); } }));
    }
    if sc.timer_churn {
        let (bg_stop, h2) = (bg_stop.clone(), handler.clone());
        bg.push(std::thread::spawn(move || { while !bg_stop.load(Ordering::SeqCst) { let id = h2.signals().send_with_timer(900_003, Duration::from_secs(3600)); std::thread::sleep(Duration::from_millis(10)); h2.signals().cancel_timer(id); } }));
    }
    if sc.live_session_stop {
        use std::io::Write;
        if let Ok((_fl, faddr)) = handler.network().listen(Transport::FramedTcp, "127.0.0.1:0") {
            if let Ok(mut c) = std::net::TcpStream::connect(faddr) {
                let mut bytes = vec![8u8]; bytes.extend_from_slice(&600_000u64.to_le_bytes());
                let _ = c.write_all(&bytes);
                drop(c); // FIN right behind the message
            }
        }
    }
    if let StopAt::External(ms) = sc.stop { std::thread::sleep(Duration::from_millis(ms)); handler.stop(); verif::trace("ext_stop", 0); }
    // a safety net: nothing stops the node by itself in some scenarios
    let deadline = Instant::now() + Duration::from_millis(1500);
    while !returned.load(Ordering::SeqCst) && Instant::now() < deadline {
        if handler.is_running() && Instant::now() + Duration::from_millis(700) > deadline && !matches!(sc.stop, StopAt::External(_)) && sh.stopped_at_call.load(Ordering::SeqCst) == usize::MAX {
            // the scripted stop never happened (e.g. fewer events than its index): stop from outside
            handler.stop();
            verif::trace("ext_stop", 0);
        }
        std::thread::sleep(Duration::from_millis(2));
    }
    bg_stop.store(true, Ordering::SeqCst);
    for b in bg { let _ = b.join(); }
    let t_stop_to_return = t_start.elapsed();
    let ret = returned.load(Ordering::SeqCst);
    if ret { lt.join().unwrap(); }
    let recs = verif::take();
    // ---- implementation-level oracles ----------------------------------------------------------
    let name = format!("{:?} pre={} live={} signals={} stop={:?}{}", sc.mode, sc.pre_datagrams, sc.live_datagrams, sc.signals, sc.stop, format!("{}{}{}{}", if sc.inflight { " with the other thread queued on the callback lock" } else { "" }, if sc.live_session_stop { "; stop() from the callback of a message whose sender closed right behind it" } else { "" }, if sc.flood { "; a datagram keeps arriving every 5 ms also after the stop" } else { "" }, if sc.timer_churn { "; far timers are armed and cancelled every 10 ms also after the stop" } else { "" }) + if sc.pre_flood { "; a datagram every 7 ms from before the listener call on" } else { "" });
    if sh.overlaps.load(Ordering::SeqCst) > 0 { out.violation(&format!("[C05] the event callback was entered while another invocation was still running ({} overlaps) in {}", sh.overlaps.load(Ordering::SeqCst), name)); }
    if sc.stop == StopAt::BeforeStart && sc.mode == Mode::Enqueue && sh.calls.load(Ordering::SeqCst) > 0 {
        out.violation(&format!("[C09] stop() before enqueue(), yet {} events came out of the queue ({})", sh.calls.load(Ordering::SeqCst), name));
    }
    if sc.mode != Mode::Enqueue {
        let after = sh.calls_after_stop.load(Ordering::SeqCst);
        if after > 0 && !matches!(sc.stop, StopAt::External(_)) { out.violation(&format!("[C09] the callback was invoked {} more time(s) after stop() had returned ({})", after, name)); }
        if sc.stop == StopAt::BeforeStart && sh.calls.load(Ordering::SeqCst) > 0 { out.violation(&format!("[C09] stop() before the listener call, yet the callback was invoked {} times ({})", sh.calls.load(Ordering::SeqCst), name)); }
    }
    if !ret { out.violation(&format!("[C09,C18] the listener call did not return within 1.5 s after stop() ({}); is_running()={}", name, handler.is_running())); }
    if handler.is_running() { out.violation(&format!("[C09] is_running() is still true after stop() ({})", name)); }
    // C15: per the single sender the payload numbers are increasing: delivered in the order they happened,
    // cached ones (sent >= 70 ms before the listener call) first and complete unless the node was stopped
    let order = sh.net_order.lock().unwrap().clone();
    let msgs: Vec<u64> = order.iter().cloned().filter(|p| *p < 400_000).collect();
    if sc.pre_session {
        let early = sh.stopped_at_call.load(Ordering::SeqCst) != usize::MAX || sc.stop == StopAt::BeforeStart;
        // the session that completed before the listener call: Accepted, its three messages one by one, Disconnected
        let session: Vec<u64> = order.iter().cloned().filter(|p| (500_000..500_010).contains(p) || *p == 888_001 || *p == 888_002 || *p == 999_999).collect();
        let expected = vec![888_001u64, 500_000, 500_001, 500_002, 888_002];
        if !expected.starts_with(&session) || (!early && session != expected) {
            out.violation(&format!("[C15,C04] a FramedTcp client connected, sent three 8-byte messages and closed before the listener call; delivered for it (888001=Accepted, 888002=Disconnected, 999999=a message of another size): {:?}, expected [888001, 500000, 500001, 500002, 888002]{} ({:?})", session, if early { " or, the node having been stopped, a prefix of it" } else { "" }, sc.mode));
        }
    }
    if msgs.windows(2).any(|w| w[0] >= w[1]) { out.violation(&format!("[C15] network events delivered out of the order in which they happened: {:?} ({})", &msgs[..msgs.len().min(20)], name)); }
    let stopped_early = sh.stopped_at_call.load(Ordering::SeqCst) != usize::MAX || sc.stop == StopAt::BeforeStart;
    if !stopped_early || matches!(sc.stop, StopAt::NetEvent(k) if k >= sc.pre_datagrams) {
        let cached_expected: Vec<u64> = (0..sc.pre_datagrams as u64).collect();
        if msgs.len() < cached_expected.len() || msgs[..cached_expected.len()] != cached_expected[..] {
            out.violation(&format!("[C15] {} datagrams arrived >= 70 ms before the listener call; delivered first: {:?} ({})", sc.pre_datagrams, &msgs[..msgs.len().min(12)], name));
        }
    }
    if sc.pre_flood && sc.stop != StopAt::BeforeStart {
        // the hand-over from the cache thread happens although datagrams keep arriving: the callback
        // gets its first event soon after the listener call
        let first = sh.first_cb_ns.load(Ordering::SeqCst);
        if first == 0 || first.saturating_sub(start_ns) > 1_000_000_000 {
            out.violation(&format!("[C15,C18] a datagram arrives every 7 ms from before the listener call on: the first event reached the callback {} after the call (cached and live events must be delivered whatever the traffic at the moment of the hand-over) ({})", if first == 0 { "never".to_string() } else { format!("{} ms", first.saturating_sub(start_ns) / 1_000_000) }, name));
        }
    }
    if sc.numbered_stream {
        let stream: Vec<u64> = order.iter().cloned().filter(|p| (100_000..400_000).contains(p)).collect();
        if let Some(w) = stream.windows(2).position(|w| w[0] >= w[1]) {
            out.violation(&format!("[C15] one sender kept sending numbered datagrams from before the listener call on: they reached the callback out of order: ... {:?} ... at position {} of {} ({})", &stream[w.saturating_sub(2)..(w + 3).min(stream.len())], w, stream.len(), name));
        }
        out.add("numbered_stream_events", stream.len() as u64);
    }
    if sc.with_empties && matches!(sc.stop, StopAt::External(_)) {
        // the numbered datagrams and the two empty ones (999999 = a message of another size), in the order they were sent
        let seq: Vec<u64> = order.iter().cloned().filter(|p| *p < 400_000 || *p == 999_999).collect();
        let mut expected: Vec<u64> = vec![];
        for i in 0..sc.pre_datagrams as u64 { expected.push(i); if i == 1 { expected.push(999_999); } }
        for i in 0..sc.live_datagrams as u64 { expected.push(sc.pre_datagrams as u64 + i); if i == 0 { expected.push(999_999); } }
        if seq != expected { out.violation(&format!("[C15,C12] datagrams 0..{} and two EMPTY datagrams (one before the listener call, one after; shown as 999999) were sent in this order {:?}; delivered {:?} ({})", sc.pre_datagrams + sc.live_datagrams, expected, seq, name)); }
    }
    if sc.pre_tcp_stream && matches!(sc.stop, StopAt::External(_)) {
        // the numbered datagrams of the OTHER peer all arrive although a stream keeps the reading thread busy at the hand-over
        let want: Vec<u64> = (0..(sc.pre_datagrams + sc.live_datagrams) as u64).collect();
        if msgs != want { out.violation(&format!("[C15] while the reading thread is busy with a 256 KiB burst of tiny FramedTcp frames across the listener call, {} numbered datagrams of another peer were sent ({} before the call, {} right after it): delivered {:?} ({})", want.len(), sc.pre_datagrams, sc.live_datagrams, &msgs[..msgs.len().min(20)], name)); }
    }
    // C06 at node level: signals sent by one thread through the same kind of call reach the callback
    // in the order they were sent (k % 3: 0 = send, 1 = send_with_priority, 2 = send_with_timer(2k ms))
    {
        let sigs: Vec<u64> = sh.sig_order.lock().unwrap().iter().cloned().filter(|k| *k < 100_000).collect();
        for (kind, name) in [(0u64, "send()"), (1, "send_with_priority()"), (2, "send_with_timer()")] {
            let sub: Vec<u64> = sigs.iter().cloned().filter(|k| k % 3 == kind).collect();
            if sub.windows(2).any(|w| w[0] >= w[1]) {
                out.violation(&format!("[C06,C07] signals sent through {} before the listener call were delivered to the callback out of order or twice: {:?} ({})", name, sub, name_of(sc)));
            }
        }
    }
    out.count(&format!("mode_{:?}", sc.mode));
    out.add("callbacks", sh.calls.load(Ordering::SeqCst) as u64);
    let _ = t_stop_to_return;
    if sc.mode == Mode::Enqueue || matches!(sc.stop, StopAt::External(_)) || !ret { return None; }
    // ---- the label sequence for the model --------------------------------------------------------
    Some(labels_of(&recs, sc.mode))
}

fn labels_of(recs: &[verif::Record], mode: Mode) -> String {
    // thread roles
    let net_name = if mode == Mode::ForEach { "listener-caller" } else { "node-network-thread" };
    let sig_name = if mode == Mode::ForEach { "node-network-thread" } else { "node-signal-thread" };
    let role = |t: &str| if t == net_name { Some('n') } else if t == sig_name { Some('s') } else { None };
    // ids of cached events = ids seen at replay, in order (unknown ones 0)
    let mut out: Vec<String> = vec![];
    let pushes = recs.iter().filter(|r| r.site == "cache_push").count();
    let mut replay_ids: Vec<u64> = vec![];
    {
        // an id for each replayed event: the cb_enter that follows its replay_pop on the network thread
        let net: Vec<&verif::Record> = recs.iter().filter(|r| role(&r.thread) == Some('n')).collect();
        for (i, r) in net.iter().enumerate() {
            if r.site == "replay_pop" {
                let mut id = 0;
                for r2 in &net[i + 1..] { if r2.site == "replay_pop" || r2.site == "poll" { break; } if r2.site == "cb_enter" { id = (r2.arg & 0xffff_ffff) + 1; break; } }
                replay_ids.push(id);
            }
        }
    }
    let mut cached: Vec<u64> = replay_ids.clone();
    while cached.len() < pushes { cached.push(0); }
    out.push(format!("cp:{}", cached.iter().map(|x| x.to_string()).collect::<Vec<_>>().join(",")));
    let mut started = false;
    let mut replay_done = false;
    // batches of the network thread: records between two "poll"s
    let recs2: Vec<&verif::Record> = recs.iter().filter(|r| r.site != "cache_push" && r.site != "start").collect();
    let mut i = 0;
    while i < recs2.len() {
        let r = recs2[i];
        let who = role(&r.thread);
        match (r.site, who) {
            ("ext_stop", _) => out.push("xs".into()),
            (_, None) => {}
            (site, Some(t)) => {
                if !started { out.push("st".into()); started = true; }
                match site {
                    "replay_pop" => {
                        out.push("rp".into());
                    }
                    "replay_check" => { out.push("ck:n".into()); }
                    "poll" => {
                        if !replay_done { out.push("re".into()); replay_done = true; }
                        out.push("lc:n".into());
                        // the events of this batch: every `lock` of the network thread until its next poll
                        let mut ids = vec![];
                        let mut j = i + 1;
                        while j < recs2.len() {
                            let q = recs2[j];
                            if role(&q.thread) == Some('n') {
                                if q.site == "poll" { break; }
                                if q.site == "lock" {
                                    let mut id = 0;
                                    let mut k = j + 1;
                                    while k < recs2.len() { let z = recs2[k]; if role(&z.thread) == Some('n') { if z.site == "unlock" { break; } if z.site == "cb_enter" { id = (z.arg & 0xffff_ffff) + 1; } } k += 1; }
                                    ids.push(id);
                                }
                            }
                            j += 1;
                        }
                        out.push(format!("po:{}", ids.iter().map(|x| x.to_string()).collect::<Vec<_>>().join(",")));
                    }
                    "sig_wait" => {
                        if mode == Mode::ForEach && !replay_done { out.push("re".into()); replay_done = true; }
                        out.push("lc:s".into());
                        // did this wait return a signal? (a lock of the signal thread before its next sig_wait)
                        let mut got: Option<u64> = None;
                        let mut j = i + 1;
                        while j < recs2.len() {
                            let q = recs2[j];
                            if role(&q.thread) == Some('s') {
                                if q.site == "sig_wait" { break; }
                                if q.site == "lock" {
                                    let mut id = 0;
                                    let mut k = j + 1;
                                    while k < recs2.len() { let z = recs2[k]; if role(&z.thread) == Some('s') { if z.site == "unlock" { break; } if z.site == "cb_enter" { id = z.arg & 0xffff_ffff; } } k += 1; }
                                    got = Some(id);
                                    break;
                                }
                            }
                            j += 1;
                        }
                        out.push(match got { Some(id) => format!("sr:{}", id), None => "sr:-".into() });
                    }
                    "lock" => out.push(format!("lk:{}", t)),
                    "check" => out.push(format!("ck:{}", t)),
                    "unlock" => {
                        // a skipped callback (running was false) has no `check` record: the model needs the step
                        let mut had_check = false;
                        let mut k = i;
                        while k > 0 { k -= 1; let z = recs2[k]; if role(&z.thread) == Some(t) { if z.site == "lock" { break; } if z.site == "check" { had_check = true; } } }
                        if !had_check { out.push(format!("ck:{}", t)); }
                        out.push(format!("ul:{}", t));
                    }
                    "cb_enter" => out.push(format!("ce:{}", t)),
                    "cb_stop" => out.push(format!("cs:{}", t)),
                    "cb_exit" => out.push(format!("cx:{}", t)),
                    _ => {}
                }
            }
        }
        i += 1;
    }
    if !started { out.push("st".into()); }
    out.join(" ")
}


/// C06 at node level under bursts: far more signals queued at once than any internal batch size
/// (1000 plain + 200 priority before the listener call, 500 more while a callback lingers);
/// every one reaches the callback / the queue exactly once, in sending order per kind
fn signal_burst(out: &mut Out, mode: Mode) {
    mark_scenario(out, &format!("node signal burst {:?}: 1000 plain + 200 priority signals before the listener call, 500 more plain ones while the first callback lingers 30 ms", mode));
    let (handler, listener) = node::split::<u64>();
    for i in 0..1000u64 { handler.signals().send(i); }
    for i in 0..200u64 { handler.signals().send_with_priority(10_000 + i); }
    let got: Arc<Mutex<Vec<u64>>> = Arc::new(Mutex::new(vec![]));
    let first = Arc::new(AtomicBool::new(true));
    let on_sig = { let (got, first, h) = (got.clone(), first.clone(), handler.clone()); move |s: u64| {
        if first.swap(false, Ordering::SeqCst) {
            let h2 = h.clone();
            let t = std::thread::spawn(move || { for i in 1000..1500u64 { h2.signals().send(i); } });
            std::thread::sleep(Duration::from_millis(30));
            let _ = t.join();
        }
        got.lock().unwrap().push(s);
    } };
    let done = Arc::new(AtomicBool::new(false));
    let lt = { let (done, h) = (done.clone(), handler.clone()); std::thread::Builder::new().name("listener-caller".into()).spawn(move || {
        let mut on_sig = on_sig;
        match mode {
            Mode::ForEach => listener.for_each(move |ev| if let NodeEvent::Signal(s) = ev { on_sig(s) }),
            Mode::ForEachAsync => { let mut task = listener.for_each_async(move |ev| if let NodeEvent::Signal(s) = ev { on_sig(s) }); task.wait(); }
            Mode::Enqueue => {
                let (mut task, mut receiver) = listener.enqueue();
                loop { match receiver.receive_timeout(Duration::from_millis(20)) { Some(node::StoredNodeEvent::Signal(s)) => on_sig(s), Some(_) => {}, None => if !h.is_running() { break; } } }
                task.wait();
            }
        }
        done.store(true, Ordering::SeqCst);
    }).unwrap() };
    let end = Instant::now() + Duration::from_secs(4);
    while got.lock().unwrap().len() < 1700 && Instant::now() < end { std::thread::sleep(Duration::from_millis(5)); }
    std::thread::sleep(Duration::from_millis(60));
    handler.stop();
    let end = Instant::now() + Duration::from_secs(3);
    while !done.load(Ordering::SeqCst) && Instant::now() < end { std::thread::sleep(Duration::from_millis(5)); }
    if done.load(Ordering::SeqCst) { let _ = lt.join(); } else { out.violation(&format!("[C09,C18] signal burst {:?}: the listener did not return within 3 s after stop()", mode)); }
    let _ = verif::take();
    let got = got.lock().unwrap().clone();
    let plain: Vec<u64> = got.iter().cloned().filter(|x| *x < 10_000).collect();
    let prio: Vec<u64> = got.iter().cloned().filter(|x| *x >= 10_000).collect();
    let want_plain: Vec<u64> = (0..1500).collect();
    let want_prio: Vec<u64> = (10_000..10_200).collect();
    if plain != want_plain || prio != want_prio {
        let missing: Vec<u64> = want_plain.iter().chain(want_prio.iter()).cloned().filter(|x| !got.contains(x)).collect();
        let first_bad = plain.iter().zip(want_plain.iter()).position(|(a, b)| a != b);
        out.violation(&format!("[C06] {:?}: 1000 plain signals (0..1000) and 200 priority signals (10000..10200) sent before the listener call, 500 more plain ones (1000..1500) while the first callback lingers 30 ms: delivered {} plain / {} priority; never delivered {:?}{}; first plain position out of sequence {:?}", mode, plain.len(), prio.len(), &missing[..missing.len().min(20)], if missing.len() > 20 { format!(" ... ({} in all)", missing.len()) } else { String::new() }, first_bad));
    }
    out.count("node_signal_burst");
}

/// C05 where the only live resource is an ACCEPTED connection (its listener has been removed) and the
/// application re-arms a timeout the usual way (cancel the id of the timer that has just fired, arm a new one):
/// a peer streams one-byte messages, two threads send plain signals, callbacks spin ~20 us / signals ~200 us
fn overlap_accepted_only(out: &mut Out, mode: Mode, millis: u64) {
    use std::io::Write;
    mark_scenario(out, &format!("node overlap {:?}: only an accepted Tcp connection is left (listener removed), re-armed timers with a cancel of the fired id, plain signals from 2 threads", mode));
    let (handler, listener) = node::split::<u64>();
    let (lid, addr) = handler.network().listen(Transport::Tcp, "127.0.0.1:0").unwrap();
    let inside = Arc::new(AtomicUsize::new(0));
    let overlaps = Arc::new(AtomicU64::new(0));
    let (nets, sigs) = (Arc::new(AtomicU64::new(0)), Arc::new(AtomicU64::new(0)));
    let accepted = Arc::new(AtomicBool::new(false));
    let timer: Arc<Mutex<Option<message_io::events::TimerId>>> = Arc::new(Mutex::new(None));
    let stop = Arc::new(AtomicBool::new(false));
    let cb = { let (inside, overlaps, nets, sigs, accepted, timer, h) = (inside.clone(), overlaps.clone(), nets.clone(), sigs.clone(), accepted.clone(), timer.clone(), handler.clone()); move |ev: NodeEvent<u64>| {
        if inside.fetch_add(1, Ordering::SeqCst) != 0 { overlaps.fetch_add(1, Ordering::SeqCst); }
        let spin = match ev {
            NodeEvent::Network(NetEvent::Accepted(..)) => { accepted.store(true, Ordering::SeqCst); 20 }
            NodeEvent::Network(_) => { nets.fetch_add(1, Ordering::SeqCst); 20 }
            NodeEvent::Signal(7_000_000) => {
                // the timeout has fired: cancel its (now stale) id and arm the next one
                let mut t = timer.lock().unwrap();
                if let Some(id) = t.take() { h.signals().cancel_timer(id); }
                *t = Some(h.signals().send_with_timer(7_000_000, Duration::from_micros(700)));
                sigs.fetch_add(1, Ordering::SeqCst); 200
            }
            NodeEvent::Signal(_) => { sigs.fetch_add(1, Ordering::SeqCst); 200 }
        };
        let t = Instant::now(); while t.elapsed() < Duration::from_micros(spin) { std::hint::spin_loop(); }
        inside.fetch_sub(1, Ordering::SeqCst);
    } };
    let done = Arc::new(AtomicBool::new(false));
    let lt = { let done = done.clone(); std::thread::Builder::new().name("listener-caller".into()).spawn(move || { match mode { Mode::ForEach => listener.for_each(cb), _ => { let mut task = listener.for_each_async(cb); task.wait(); } } done.store(true, Ordering::SeqCst); }).unwrap() };
    let mut bg = vec![];
    let peer = std::net::TcpStream::connect(addr);
    let end = Instant::now() + Duration::from_secs(2);
    while !accepted.load(Ordering::SeqCst) && Instant::now() < end { std::thread::sleep(Duration::from_millis(2)); }
    handler.network().remove(lid);
    if let Ok(mut peer) = peer {
        let stop = stop.clone();
        let _ = peer.set_nodelay(true);
        bg.push(std::thread::spawn(move || { while !stop.load(Ordering::SeqCst) { if peer.write_all(&[1u8]).is_err() { break; } let t = Instant::now(); while t.elapsed() < Duration::from_micros(60) { std::hint::spin_loop(); } } }));
    }
    *timer.lock().unwrap() = Some(handler.signals().send_with_timer(7_000_000, Duration::from_micros(700)));
    for k in 0..2u64 { let (stop, h) = (stop.clone(), handler.clone()); bg.push(std::thread::spawn(move || { let mut i = 0u64; while !stop.load(Ordering::SeqCst) { h.signals().send(k << 20 | (i & 0xfffff)); i += 1; std::thread::sleep(Duration::from_micros(500)); } })); }
    std::thread::sleep(Duration::from_millis(millis));
    handler.stop();
    stop.store(true, Ordering::SeqCst);
    for b in bg { let _ = b.join(); }
    let end = Instant::now() + Duration::from_secs(3);
    while !done.load(Ordering::SeqCst) && Instant::now() < end { std::thread::sleep(Duration::from_millis(5)); }
    if done.load(Ordering::SeqCst) { let _ = lt.join(); } else { out.violation(&format!("[C09,C18] overlap {:?}: the listener did not return within 3 s after stop()", mode)); }
    let _ = verif::take();
    if overlaps.load(Ordering::SeqCst) > 0 {
        out.violation(&format!("[C05] {:?}: a Tcp listener accepted one peer and was then removed (the accepted connection is the node's only resource); the peer streams one-byte messages, two threads send plain signals every 500 us, and the callback re-arms a 700 us timer (cancel_timer(id of the timer that has just fired), then send_with_timer): the callback was entered {} times while another invocation was still running ({} network events, {} signals)", mode, overlaps.load(Ordering::SeqCst), nets.load(Ordering::SeqCst), sigs.load(Ordering::SeqCst)));
    }
    if nets.load(Ordering::SeqCst) < 50 || sigs.load(Ordering::SeqCst) < 50 { out.count("node_overlap_accepted_only_thin"); }
    out.add("overlap_accepted_only_net_events", nets.load(Ordering::SeqCst));
    out.add("overlap_accepted_only_signals", sigs.load(Ordering::SeqCst));
    out.count("node_overlap_accepted_only");
}

pub fn run(a: &Args) {
    let mut out = Out::new(&a.out);
    let mut r = Rng::new(a.seed);
    let mut scs: Vec<Sc> = vec![];
    for mode in [Mode::ForEach, Mode::ForEachAsync, Mode::Enqueue] {
        scs.push(Sc { mode, pre_datagrams: 4, live_datagrams: 6, signals: 6, stop: StopAt::BeforeStart, cb_micros: 0, inflight: false, pre_session: false, live_session_stop: false, flood: false, timer_churn: false, pre_flood: false, long_cb_ms: 0, numbered_stream: false, with_empties: false, pre_tcp_stream: false });
        scs.push(Sc { mode, pre_datagrams: 0, live_datagrams: 0, signals: 0, stop: StopAt::BeforeStart, cb_micros: 0, inflight: false, pre_session: false, live_session_stop: false, flood: false, timer_churn: false, pre_flood: false, long_cb_ms: 0, numbered_stream: false, with_empties: false, pre_tcp_stream: false });
        let max_idx = if a.thorough { 12 } else { 5 };
        for k in 0..max_idx {
            scs.push(Sc { mode, pre_datagrams: 5, live_datagrams: 8, signals: 6, stop: StopAt::NetEvent(k), cb_micros: 200, inflight: false, pre_session: false, live_session_stop: false, flood: false, timer_churn: false, pre_flood: false, long_cb_ms: 0, numbered_stream: false, with_empties: false, pre_tcp_stream: false });
            scs.push(Sc { mode, pre_datagrams: 3, live_datagrams: 10, signals: 8, stop: StopAt::Signal(k), cb_micros: 300, inflight: false, pre_session: false, live_session_stop: false, flood: false, timer_churn: false, pre_flood: false, long_cb_ms: 0, numbered_stream: false, with_empties: false, pre_tcp_stream: false });
        }
        for k in 0..(if a.thorough { 6 } else { 2 }) {
            scs.push(Sc { mode, pre_datagrams: 2, live_datagrams: 6, signals: 6, stop: StopAt::Signal(2 + k), cb_micros: 100, inflight: true, pre_session: false, live_session_stop: false, flood: false, timer_churn: false, pre_flood: false, long_cb_ms: 0, numbered_stream: false, with_empties: false, pre_tcp_stream: false });
            scs.push(Sc { mode, pre_datagrams: 2, live_datagrams: 8, signals: 4, stop: StopAt::NetEvent(3 + k), cb_micros: 100, inflight: true, pre_session: false, live_session_stop: false, flood: false, timer_churn: false, pre_flood: false, long_cb_ms: 0, numbered_stream: false, with_empties: false, pre_tcp_stream: false });
        }
        scs.push(Sc { mode, pre_datagrams: 3, live_datagrams: 5, signals: 4, stop: StopAt::External(150), cb_micros: 0, inflight: false, pre_session: true, live_session_stop: false, flood: false, timer_churn: false, pre_flood: false, long_cb_ms: 0, numbered_stream: false, with_empties: false, pre_tcp_stream: false });
        scs.push(Sc { mode, pre_datagrams: 0, live_datagrams: 4, signals: 0, stop: StopAt::NetEvent(8), cb_micros: 100, inflight: false, pre_session: true, live_session_stop: false, flood: false, timer_churn: false, pre_flood: false, long_cb_ms: 0, numbered_stream: false, with_empties: false, pre_tcp_stream: false });
        scs.push(Sc { mode, pre_datagrams: 0, live_datagrams: 3, signals: 2, stop: StopAt::NetEvent(99), cb_micros: 0, inflight: false, pre_session: false, live_session_stop: true, flood: false, timer_churn: false, pre_flood: false, long_cb_ms: 0, numbered_stream: false, with_empties: false, pre_tcp_stream: false });
        scs.push(Sc { mode, pre_datagrams: 2, live_datagrams: 5, signals: 3, stop: StopAt::External(120), cb_micros: 100, inflight: false, pre_session: false, live_session_stop: false, flood: true, timer_churn: false, pre_flood: false, long_cb_ms: 0, numbered_stream: false, with_empties: false, pre_tcp_stream: false });
        scs.push(Sc { mode, pre_datagrams: 2, live_datagrams: 5, signals: 3, stop: StopAt::NetEvent(4), cb_micros: 100, inflight: false, pre_session: false, live_session_stop: false, flood: false, timer_churn: true, pre_flood: false, long_cb_ms: 0, numbered_stream: false, with_empties: false, pre_tcp_stream: false });
        scs.push(Sc { mode, pre_datagrams: 0, live_datagrams: 4, signals: 3, stop: StopAt::Signal(1), cb_micros: 0, inflight: false, pre_session: false, live_session_stop: false, flood: true, timer_churn: true, pre_flood: false, long_cb_ms: 0, numbered_stream: false, with_empties: false, pre_tcp_stream: false });
        // a long live burst handled by a slow callback (hundreds of events out of single polls) while signals fire
        scs.push(Sc { mode, pre_datagrams: 0, live_datagrams: 260, signals: 24, stop: StopAt::NetEvent(259), cb_micros: 250, inflight: false, pre_session: false, live_session_stop: false, flood: false, timer_churn: false, pre_flood: false, long_cb_ms: 0, numbered_stream: false, with_empties: false, pre_tcp_stream: false });
        scs.push(Sc { mode, pre_datagrams: 3, live_datagrams: 4, signals: 2, stop: StopAt::External(400), cb_micros: 0, inflight: false, pre_session: false, live_session_stop: false, flood: false, timer_churn: false, pre_flood: true, long_cb_ms: 0, numbered_stream: false, with_empties: false, pre_tcp_stream: false });
        // more cached events than any fixed small capacity
        scs.push(Sc { mode, pre_datagrams: if a.thorough { 3000 } else { 1100 }, live_datagrams: 5, signals: 2, stop: StopAt::External(700), cb_micros: 0, inflight: false, pre_session: false, live_session_stop: false, flood: false, timer_churn: false, pre_flood: false, long_cb_ms: 0, numbered_stream: false, with_empties: false, pre_tcp_stream: false });
        // the callback is busy with slow network events while plain / priority / timed signals are pending
        scs.push(Sc { mode, pre_datagrams: 4, live_datagrams: 6, signals: 18, stop: StopAt::External(500), cb_micros: 20_000, inflight: false, pre_session: false, live_session_stop: false, flood: false, timer_churn: false, pre_flood: false, long_cb_ms: 0, numbered_stream: false, with_empties: false, pre_tcp_stream: false });
        // one callback that lasts longer than any internal wait (130 ms) while events of the other kind are ready
        scs.push(Sc { mode, pre_datagrams: 0, live_datagrams: 5, signals: 9, stop: StopAt::External(700), cb_micros: 0, inflight: false, pre_session: false, live_session_stop: false, flood: false, timer_churn: false, pre_flood: false, long_cb_ms: 130, numbered_stream: false, with_empties: false, pre_tcp_stream: false });
        scs.push(Sc { mode, pre_datagrams: 3, live_datagrams: 5, signals: 9, stop: StopAt::External(700), cb_micros: 100, inflight: false, pre_session: false, live_session_stop: false, flood: true, timer_churn: false, pre_flood: false, long_cb_ms: 130, numbered_stream: false, with_empties: false, pre_tcp_stream: false });
        for _ in 0..(if mode == Mode::Enqueue { 3 } else { 1 }) {
            scs.push(Sc { mode, pre_datagrams: 0, live_datagrams: 0, signals: 2, stop: StopAt::External(300), cb_micros: 0, inflight: false, pre_session: false, live_session_stop: false, flood: false, timer_churn: false, pre_flood: false, long_cb_ms: 0, numbered_stream: true, with_empties: false, pre_tcp_stream: false });
        }
        scs.push(Sc { mode, pre_datagrams: 4, live_datagrams: 4, signals: 2, stop: StopAt::External(400), cb_micros: 0, inflight: false, pre_session: false, live_session_stop: false, flood: false, timer_churn: false, pre_flood: false, long_cb_ms: 0, numbered_stream: false, with_empties: true, pre_tcp_stream: false });
        scs.push(Sc { mode, pre_datagrams: 3, live_datagrams: 6, signals: 2, stop: StopAt::External(1200), cb_micros: 0, inflight: false, pre_session: false, live_session_stop: false, flood: false, timer_churn: false, pre_flood: false, long_cb_ms: 0, numbered_stream: false, with_empties: false, pre_tcp_stream: true });
        // a long start-up cache, a callback slow enough for the live traffic to arrive during the replay
        scs.push(Sc { mode, pre_datagrams: 300, live_datagrams: 30, signals: 4, stop: StopAt::NetEvent(329), cb_micros: 150, inflight: false, pre_session: false, live_session_stop: false, flood: false, timer_churn: false, pre_flood: false, long_cb_ms: 0, numbered_stream: false, with_empties: false, pre_tcp_stream: false });
        scs.push(Sc { mode, pre_datagrams: 20, live_datagrams: 40, signals: 20, stop: StopAt::NetEvent(45), cb_micros: 100, inflight: false, pre_session: false, live_session_stop: false, flood: false, timer_churn: false, pre_flood: false, long_cb_ms: 0, numbered_stream: false, with_empties: false, pre_tcp_stream: false });
        scs.push(Sc { mode, pre_datagrams: 6, live_datagrams: 30, signals: 30, stop: StopAt::External(40), cb_micros: 500, inflight: false, pre_session: false, live_session_stop: false, flood: false, timer_churn: false, pre_flood: false, long_cb_ms: 0, numbered_stream: false, with_empties: false, pre_tcp_stream: false });
        scs.push(Sc { mode, pre_datagrams: 0, live_datagrams: 30, signals: 9, stop: StopAt::Signal(8), cb_micros: 2000, inflight: false, pre_session: false, live_session_stop: false, flood: false, timer_churn: false, pre_flood: false, long_cb_ms: 0, numbered_stream: false, with_empties: false, pre_tcp_stream: false });
        for _ in 0..(if a.thorough { 20 } else { 2 }) {
            scs.push(Sc { mode, pre_datagrams: r.below(12) as usize, live_datagrams: r.below(30) as usize, signals: r.below(15) as usize,
                stop: if r.chance(1, 2) { StopAt::NetEvent(r.below(20) as usize) } else { StopAt::Signal(r.below(10) as usize) }, cb_micros: *r.pick(&[0u64, 100, 1000]), inflight: r.chance(1, 2), pre_session: r.chance(1, 3), live_session_stop: false, flood: r.chance(1, 4), timer_churn: r.chance(1, 4), pre_flood: r.chance(1, 5), long_cb_ms: 0, numbered_stream: false, with_empties: false, pre_tcp_stream: false });
        }
    }
    // (deep search / thorough) a node that has been idle for 3.5 s is stopped from another thread
    if a.thorough || a.rest.iter().any(|x| x == "idle") {
        for mode in [Mode::ForEach, Mode::ForEachAsync, Mode::Enqueue] {
            scs.push(Sc { mode, pre_datagrams: 0, live_datagrams: 2, signals: 1, stop: StopAt::External(3500), cb_micros: 0, inflight: false, pre_session: false, live_session_stop: false, flood: false, timer_churn: false, pre_flood: false, long_cb_ms: 0, numbered_stream: false, with_empties: false, pre_tcp_stream: false });
        }
    }
    // scenarios share the process-wide hook trace: one at a time
    for sc in &scs {
        match run_scenario(sc, &mut out) {
            Some(labels) => out.case(&labels, "ok"),
            None => out.count("scenarios_without_trace_inclusion"),
        }
    }
    // C05 under a sustained flood of short callbacks from both sides (no trace inclusion here: the
    // point is contention on the callback lock at every hand-over)
    for mode in [Mode::ForEach, Mode::ForEachAsync] {
        mark_scenario(&out, &format!("node stress {:?}: datagram bursts from 2 sockets against plain / priority / timed signals from 3 threads, callbacks of ~15 us, 1 s", mode));
        let (handler, listener) = node::split::<u64>();
        let (_l, addr) = handler.network().listen(Transport::Udp, "127.0.0.1:0").unwrap();
        let inside = Arc::new(AtomicUsize::new(0));
        let overlaps = Arc::new(AtomicU64::new(0));
        let calls = Arc::new(AtomicU64::new(0));
        let stop = Arc::new(AtomicBool::new(false));
        let mut bg = vec![];
        for k in 0..2u64 { let stop = stop.clone(); bg.push(std::thread::spawn(move || { let s = UdpSocket::bind("127.0.0.1:0").unwrap(); let mut i = 0u64; while !stop.load(Ordering::SeqCst) { for _ in 0..40 { let _ = s.send_to(&(k << 32 | i).to_le_bytes(), addr); i += 1; } std::thread::sleep(Duration::from_micros(300)); } })); }
        for k in 0..3u64 { let (stop, h) = (stop.clone(), handler.clone()); bg.push(std::thread::spawn(move || { let mut i = 0u64; while !stop.load(Ordering::SeqCst) { for _ in 0..20 { match k { 0 => h.signals().send(i), 1 => h.signals().send_with_priority(i), _ => { h.signals().send_with_timer(i, Duration::ZERO); } } i += 1; } std::thread::sleep(Duration::from_micros(200)); } })); }
        let cb = { let (inside, overlaps, calls) = (inside.clone(), overlaps.clone(), calls.clone()); move |_ev: NodeEvent<u64>| {
            if inside.fetch_add(1, Ordering::SeqCst) != 0 { overlaps.fetch_add(1, Ordering::SeqCst); }
            calls.fetch_add(1, Ordering::SeqCst);
            let t = Instant::now(); while t.elapsed() < Duration::from_micros(15) { std::hint::spin_loop(); }
            inside.fetch_sub(1, Ordering::SeqCst);
        } };
        let done = Arc::new(AtomicBool::new(false));
        let lt = { let done = done.clone(); std::thread::Builder::new().name("listener-caller".into()).spawn(move || { match mode { Mode::ForEach => listener.for_each(cb), _ => { let mut task = listener.for_each_async(cb); task.wait(); } } done.store(true, Ordering::SeqCst); }).unwrap() };
        std::thread::sleep(Duration::from_millis(if a.thorough { 3000 } else { 1000 }));
        handler.stop();
        stop.store(true, Ordering::SeqCst);
        for b in bg { let _ = b.join(); }
        let end = Instant::now() + Duration::from_secs(3);
        while !done.load(Ordering::SeqCst) && Instant::now() < end { std::thread::sleep(Duration::from_millis(5)); }
        if done.load(Ordering::SeqCst) { let _ = lt.join(); } else { out.violation(&format!("[C09,C18] stress {:?}: the listener did not return within 3 s after stop()", mode)); }
        let _ = verif::take();
        if overlaps.load(Ordering::SeqCst) > 0 { out.violation(&format!("[C05] under a flood of short callbacks ({:?}: datagram bursts from 2 sockets, plain / priority / timed signals from 3 threads, {} callbacks of ~15 us in total) the callback was entered {} times while another invocation was still running", mode, calls.load(Ordering::SeqCst), overlaps.load(Ordering::SeqCst))); }
        out.add("stress_callbacks", calls.load(Ordering::SeqCst));
        out.count("node_stress_short_callbacks");
    }
    for mode in [Mode::ForEach, Mode::ForEachAsync, Mode::Enqueue] { signal_burst(&mut out, mode); }
    for mode in [Mode::ForEach, Mode::ForEachAsync] { overlap_accepted_only(&mut out, mode, if a.thorough { 3000 } else { 900 }); }
    // C18: a node dropped without ever starting its listener, under traffic, ends its cache thread
    {
        let th0 = std::fs::read_dir("/proc/self/task").map(|d| d.count()).unwrap_or(0);
        let (handler, listener) = node::split::<()>();
        let (_l, addr) = handler.network().listen(Transport::Udp, "127.0.0.1:0").unwrap();
        let stop = Arc::new(AtomicBool::new(false));
        let flood = { let stop = stop.clone(); std::thread::spawn(move || { let s = UdpSocket::bind("127.0.0.1:0").unwrap(); while !stop.load(Ordering::SeqCst) { let _ = s.send_to(b"x", addr); std::thread::sleep(Duration::from_millis(5)); } }) };
        std::thread::sleep(Duration::from_millis(60));
        let done = Arc::new(AtomicBool::new(false));
        { let done = done.clone(); std::thread::spawn(move || { drop(listener); drop(handler); done.store(true, Ordering::SeqCst); }); }
        let end = Instant::now() + Duration::from_secs(3);
        while !done.load(Ordering::SeqCst) && Instant::now() < end { std::thread::sleep(Duration::from_millis(5)); }
        if !done.load(Ordering::SeqCst) { out.violation("[C18] dropping a node whose listener was never started did not return within 3 s while datagrams keep arriving every 5 ms (the cache thread does not end)"); }
        stop.store(true, Ordering::SeqCst);
        flood.join().unwrap();
        std::thread::sleep(Duration::from_millis(100));
        let th1 = std::fs::read_dir("/proc/self/task").map(|d| d.count()).unwrap_or(0);
        if th1 > th0 && done.load(Ordering::SeqCst) { out.violation(&format!("[C18] {} threads of a dropped node are still alive", th1 - th0)); }
        out.count("node_dropped_unstarted_under_traffic");
    }
    out.finish();
}

//! C07 (+ sequential part of C06/C08): step correspondence for events.rs on single-threaded
//! histories.  The environment's choices (clock readings) are recorded from the real run and
//! handed to the model inside the case line.
//!
//! case line: ops separated by spaces
//!   S:<e>  P:<e>  T:<e>:<d_ns>:<now_ns>  C:<deadline_ns>:<seq>  R:<now>  RT:<t_ns>:<now>  RV:<now>
//! impl line: one token per op:  u (unit)  i:<deadline>:<seq>  e:<payload>  n (None)
//! A timer's real deadline and sequence number are read from `{:?}` of the TimerId; `now` of a
//! send_with_timer is deadline - d; `now` of a receive is the clock just before the call.
use crate::util::*;
use message_io::events::{EventReceiver, TimerId};
use std::time::{Duration, Instant};

pub fn instant_ns(dbg: &str) -> u128 {
    // "Instant { tv_sec: 123, tv_nsec: 456 }"
    let sec: u128 = dbg.split("tv_sec:").nth(1).unwrap().trim().split(|c: char| !c.is_ascii_digit()).next().unwrap().parse().unwrap();
    let nsec: u128 = dbg.split("tv_nsec:").nth(1).unwrap().trim().split(|c: char| !c.is_ascii_digit()).next().unwrap().parse().unwrap();
    sec * 1_000_000_000 + nsec
}

pub fn timer_id_parts(id: &TimerId) -> (u128, u64) {
    // "TimerId(Instant { tv_sec: 1, tv_nsec: 2 }, 7)"
    let d = format!("{:?}", id);
    let dl = instant_ns(&d);
    // "..., <seq>)" — a TimerId without a sequence number (older layout) reads as seq 0
    let seq: u64 = d.rsplit(',').next().unwrap().trim().trim_end_matches(')').trim().parse().unwrap_or(0);
    (dl, seq)
}

pub fn now_ns() -> u128 {
    instant_ns(&format!("{:?}", Instant::now()))
}

const MS: u64 = 1_000_000;
const FAR: u64 = 3_600_000 * MS;

#[derive(Clone, Debug)]
enum Op {
    Send,
    Prio,
    Timer(u64),      // duration ns
    Cancel(usize),   // index into timers created so far (live or not)
    Try,
    RecvTimeout(u64),
    Recv,
    Sleep(u64),      // the caller does something else for a while (no queue call)
}

struct Shadow {
    queued: usize,                         // plain + priority events not yet delivered
    timers: Vec<(u64, u64, bool, bool)>,   // (payload, duration, cancelled, delivered)
}

fn gen_history(r: &mut Rng, out: &mut Out, len: usize) -> Vec<Op> {
    // The shadow is only used to avoid a receive() that would block forever.
    let mut ops = vec![];
    let mut ntimers = 0usize;
    let shape = r.below(6);
    for _ in 0..len {
        let k = r.below(100);
        let op = match shape {
            // boundary shapes forced in: pending timer next to plain events, cancelled then
            // re-scheduled, priority during timers, same-instant timers
            0 => match k { 0..=24 => Op::Send, 25..=34 => Op::Prio, 35..=54 => Op::Timer(FAR), 55..=64 => Op::Timer(0), 65..=74 if ntimers > 0 => Op::Cancel(r.below(ntimers as u64) as usize), 75..=94 => Op::Try, _ => Op::RecvTimeout(0) },
            1 => match k { 0..=19 => Op::Timer(0), 20..=29 => Op::Timer(21 * MS), 30..=39 => Op::Timer(52 * MS), 40..=49 => Op::Send, 50..=54 => Op::Prio, 55..=64 if ntimers > 0 => Op::Cancel(r.below(ntimers as u64) as usize), 65..=79 => Op::Try, 80..=92 => Op::RecvTimeout(*r.pick(&[0, 34 * MS, 67 * MS])), _ => Op::Recv },
            2 => match k { 0..=39 => Op::Timer(0), 40..=49 if ntimers > 0 => Op::Cancel(r.below(ntimers as u64) as usize), 50..=59 => Op::Send, 60..=64 => Op::Prio, _ => Op::Try },
            3 => match k { 0..=29 => Op::Send, 30..=59 => Op::Prio, 60..=69 => Op::Timer(0), 70..=84 => Op::Try, 85..=94 => Op::RecvTimeout(0), _ => Op::Recv },
            _ => match k { 0..=14 => Op::Send, 15..=24 => Op::Prio, 25..=34 => Op::Timer(0), 35..=42 => Op::Timer(21 * MS), 43..=47 => Op::Timer(FAR), 48..=57 if ntimers > 0 => Op::Cancel(r.below(ntimers as u64) as usize), 58..=77 => Op::Try, 78..=92 => Op::RecvTimeout(*r.pick(&[0, 0, 34 * MS])), _ => Op::Recv },
        };
        if let Op::Timer(_) = op {
            ntimers += 1;
        }
        if let Op::Cancel(_) = op {
            if ntimers == 0 {
                continue;
            }
        }
        ops.push(op);
    }
    out.count(&format!("history_shape_{}", shape));
    ops
}

/// run one history on the real queue; returns (case line, impl line) or None when a clock reading
/// was too close to a deadline to be attributed unambiguously
fn run_history(ops: &[Op], counters: &mut Vec<(String, u64)>) -> Option<(String, String)> {
    let mut q = EventReceiver::<u64>::default();
    let sender = q.sender().clone();
    let mut case = String::new();
    let mut imp = String::new();
    let mut next_payload = 1u64;
    let mut timer_ids: Vec<TimerId> = vec![];
    let mut sh = Shadow { queued: 0, timers: vec![] };
    let mut live_deadlines: Vec<(u128, u64)> = vec![]; // (deadline, payload) of timers not delivered (cancelled ones stay: harmless)
    let margin: u128 = 2 * MS as u128;
    let mut bump = |name: &str| {
        if let Some(x) = counters.iter_mut().find(|x| x.0 == name) { x.1 += 1 } else { counters.push((name.to_string(), 1)) }
    };
    let mut deliver = |sh: &mut Shadow, live: &mut Vec<(u128, u64)>, p: u64| {
        if let Some(t) = sh.timers.iter_mut().find(|t| t.0 == p) {
            t.3 = true;
            live.retain(|x| x.1 != p);
        } else if sh.queued > 0 {
            sh.queued -= 1;
        }
    };
    for op in ops {
        if !case.is_empty() {
            case.push(' ');
            imp.push(' ');
        }
        match op {
            Op::Send => {
                sender.send(next_payload);
                case.push_str(&format!("S:{}", next_payload));
                imp.push('u');
                next_payload += 1;
                sh.queued += 1;
                bump("op_send");
            }
            Op::Prio => {
                sender.send_with_priority(next_payload);
                case.push_str(&format!("P:{}", next_payload));
                imp.push('u');
                next_payload += 1;
                sh.queued += 1;
                bump("op_send_with_priority");
            }
            Op::Timer(d) => {
                let id = sender.send_with_timer(next_payload, Duration::from_nanos(*d));
                let (dl, seq) = timer_id_parts(&id);
                case.push_str(&format!("T:{}:{}:{}", next_payload, d, dl - *d as u128));
                imp.push_str(&format!("i:{}:{}", dl, seq));
                timer_ids.push(id);
                sh.timers.push((next_payload, *d, false, false));
                live_deadlines.push((dl, next_payload));
                next_payload += 1;
                bump(if *d == 0 { "op_timer_expired" } else if *d == FAR { "op_timer_far_future" } else { "op_timer_short" });
            }
            Op::Cancel(i) => {
                let id = timer_ids[*i];
                sender.cancel_timer(id);
                let (dl, seq) = timer_id_parts(&id);
                case.push_str(&format!("C:{}:{}", dl, seq));
                imp.push('u');
                sh.timers[*i].2 = true;
                bump("op_cancel");
            }
            Op::Try => {
                let t0 = now_ns();
                let res = q.try_receive();
                let t1 = now_ns();
                if live_deadlines.iter().any(|x| x.0 > t0 && x.0 <= t1) {
                    return None;
                }
                case.push_str(&format!("R:{}", t0));
                match res {
                    Some(p) => { imp.push_str(&format!("e:{}", p)); deliver(&mut sh, &mut live_deadlines, p); }
                    None => imp.push('n'),
                }
                bump("op_try_receive");
            }
            Op::RecvTimeout(t) => {
                let t0 = now_ns();
                let res = q.receive_timeout(Duration::from_nanos(*t));
                let t1 = now_ns();
                let until = t0 + *t as u128;
                // ambiguous when a live deadline is within the margin of the call instant or of the timeout
                if live_deadlines.iter().any(|x| x.0 > t0 && (x.0 < t0 + margin || (x.0 + margin > until && x.0 < until + margin) || (*t == 0 && x.0 < t1 + margin))) {
                    return None;
                }
                // the call came back later than the requested timeout (the thread was descheduled) and a
                // timer expired in between: returning it and not returning it are both right (it became
                // deliverable during the call, but after the timeout): not a history with one answer
                if live_deadlines.iter().any(|x| x.0 >= until && x.0 <= t1 + margin) {
                    return None;
                }
                case.push_str(&format!("RT:{}:{}", t, t0));
                match res {
                    Some(p) => { imp.push_str(&format!("e:{}", p)); deliver(&mut sh, &mut live_deadlines, p); }
                    None => imp.push('n'),
                }
                bump(if *t == 0 { "op_receive_timeout_zero" } else { "op_receive_timeout_blocking" });
            }
            Op::Sleep(d) => {
                std::thread::sleep(Duration::from_nanos(*d));
                // not a queue call: nothing for the model to do (clock readings come with the receives)
                if case.ends_with(' ') { case.pop(); imp.pop(); }
                bump("op_sleep");
                continue;
            }
            Op::Recv => {
                let short_live = sh.timers.iter().any(|t| !t.2 && !t.3 && t.1 < FAR);
                if sh.queued == 0 && !short_live {
                    // would block forever: replace by a try_receive
                    let t0 = now_ns();
                    let res = q.try_receive();
                    case.push_str(&format!("R:{}", t0));
                    match res {
                        Some(p) => { imp.push_str(&format!("e:{}", p)); deliver(&mut sh, &mut live_deadlines, p); }
                        None => imp.push('n'),
                    }
                    bump("op_try_receive");
                    continue;
                }
                let t0 = now_ns();
                let p = q.receive();
                if live_deadlines.iter().any(|x| x.0 > t0 && x.0 < t0 + margin) {
                    return None;
                }
                case.push_str(&format!("RV:{}", t0));
                imp.push_str(&format!("e:{}", p));
                deliver(&mut sh, &mut live_deadlines, p);
                bump("op_receive");
            }
        }
    }
    Some((case, imp))
}

pub fn run(a: &Args) {
    let mut out = Out::new(&a.out);
    let mut r = Rng::new(a.seed);
    let n = if a.thorough { 6000 } else { 400 };
    // fixed corpus first: the witnesses of the defects fixed in events.rs
    let corpus: Vec<Vec<Op>> = vec![
        vec![Op::Timer(FAR), Op::Send, Op::Try, Op::RecvTimeout(0)],
        vec![Op::Timer(0), Op::Timer(0), Op::Timer(0), Op::Try, Op::Try, Op::Try, Op::Try],
        vec![Op::Timer(0), Op::Timer(0), Op::Cancel(0), Op::Try, Op::Try],
        vec![Op::Send, Op::Prio, Op::Timer(0), Op::Try, Op::Try, Op::Try],
        vec![Op::Timer(21 * MS), Op::Send, Op::Recv, Op::Recv],
        vec![Op::Timer(21 * MS), Op::RecvTimeout(67 * MS), Op::RecvTimeout(0)],
        vec![Op::Timer(52 * MS), Op::RecvTimeout(34 * MS), Op::RecvTimeout(34 * MS)],
        // several timers pending with different deadlines: the blocking calls wake for the EARLIEST one
        vec![Op::Timer(21 * MS), Op::Timer(FAR), Op::RecvTimeout(67 * MS), Op::Try],
        vec![Op::Timer(FAR), Op::Timer(21 * MS), Op::RecvTimeout(67 * MS), Op::Try],
        vec![Op::Timer(52 * MS), Op::Timer(21 * MS), Op::Recv, Op::Recv],
        vec![Op::Timer(FAR), Op::Timer(52 * MS), Op::Timer(21 * MS), Op::Cancel(2), Op::RecvTimeout(67 * MS), Op::Try],
        // blocking receive() with both kinds queued and no timer at all
        vec![Op::Send, Op::Prio, Op::Recv, Op::Recv],
        vec![Op::Send, Op::Send, Op::Prio, Op::Prio, Op::Recv, Op::Recv, Op::Recv, Op::Recv],
    ];
    let mut histories: Vec<Vec<Op>> = corpus;
    // the blocking receive() picks priority before plain, every time (not a random choice)
    for _ in 0..12 { histories.push(vec![Op::Send, Op::Prio, Op::Recv, Op::Recv]); }
    // long runs of priority events do not change what comes next: priority, then expired timers, then plain
    for variant in 0..3 {
        let mut h: Vec<Op> = (0..40).map(|_| Op::Prio).collect();
        h.push(Op::Timer(0)); h.push(Op::Send);
        for k in 0..44 { h.push(match (variant, k % 3) { (0, _) => Op::Try, (1, _) => Op::RecvTimeout(0), (_, 0) => Op::Try, (_, 1) => Op::RecvTimeout(0), _ => Op::Recv }); }
        histories.push(h);
        // one by one: a priority event is queued before each call, 20 times, with a plain event and an expired timer waiting
        let mut h: Vec<Op> = vec![Op::Send, Op::Timer(0)];
        for _ in 0..20 { h.push(Op::Prio); h.push(Op::Prio); h.push(if variant == 1 { Op::RecvTimeout(0) } else { Op::Try }); }
        h.extend((0..24).map(|_| Op::Try));
        histories.push(h);
    }
    // bursts of timer commands larger than any plausible per-call batch, looked at only after the deadline
    for (n, cancel_all) in [(150usize, true), (300, true), (200, false)] {
        let mut h: Vec<Op> = (0..n).map(|_| Op::Timer(21 * MS)).collect();
        if cancel_all { h.extend((0..n).map(Op::Cancel)); } else { h.extend((0..n).step_by(2).map(Op::Cancel)); }
        h.push(Op::Send);
        h.push(Op::Sleep(40 * MS));
        h.extend((0..6).map(|_| Op::Try));
        histories.push(h);
        let mut h: Vec<Op> = (0..n).map(|_| Op::Timer(FAR)).collect();
        h.extend((0..n).map(Op::Cancel));
        h.push(Op::Timer(0));
        h.push(Op::Try);
        h.push(Op::Try);
        histories.push(h);
    }
    for _ in 0..n {
        let len = r.range(3, 40) as usize;
        histories.push(gen_history(&mut r, &mut out, len));
    }
    // run in parallel (blocking receives sleep); each history has its own queue
    let nthreads = 16;
    let chunks: Vec<Vec<(usize, Vec<Op>)>> = (0..nthreads).map(|k| histories.iter().cloned().enumerate().filter(|(i, _)| i % nthreads == k).collect()).collect();
    let handles: Vec<_> = chunks
        .into_iter()
        .map(|chunk| {
            std::thread::spawn(move || {
                let mut res = vec![];
                let mut counters = vec![];
                for (i, h) in chunk {
                    let mut attempt = 0;
                    loop {
                        // watchdog: a blocking call that never returns must not hang the harness
                        let (tx, rx) = std::sync::mpsc::channel();
                        let h2 = h.clone();
                        std::thread::spawn(move || {
                            let mut c = vec![];
                            let r = run_history(&h2, &mut c);
                            tx.send((r, c)).ok();
                        });
                        match rx.recv_timeout(Duration::from_secs(8)) {
                            Ok((Some(x), c)) => { counters.extend(c); res.push((i, Some(x))); break; }
                            Ok((None, _)) if attempt < 2 => attempt += 1,
                            Ok((None, _)) => { res.push((i, None)); break; }
                            Err(_) => { res.push((i, Some((format!("HUNG {:?}", h), "a blocking receive never returned".to_string())))); break; }
                        }
                    }
                }
                (res, counters)
            })
        })
        .collect();
    let mut all: Vec<(usize, Option<(String, String)>)> = vec![];
    for h in handles {
        let (res, counters) = h.join().unwrap();
        all.extend(res);
        for (k, v) in counters {
            out.add(&k, v);
        }
    }
    all.sort_by_key(|x| x.0);
    for (_, x) in all {
        match x {
            Some((c, i)) if c.starts_with("HUNG") => out.violation(&format!("[C07,C16] a receive()/receive_timeout() call on a queue with deliverable events never returned (history {})", &c[..c.len().min(300)])),
            Some((c, i)) => out.case(&c, &i),
            None => out.count("discarded_clock_reading_too_close_to_a_deadline"),
        }
    }
    out.finish();
}

//! C14 (part 1): function correspondence for resource_id.rs and the token conversions of poll.rs.
//! case lines:
//!   new <adapter> <L|R> <base>            impl: <raw|P>            (debug_assert!s fire in debug builds)
//!   acc <raw>                             impl: <adapter> <L|R> <base>
//!   tok <raw>                             impl: <token> <id_of_token(token)>
//!   gen <adapter> <L|R> <count>           impl: space separated raws issued by one generator
use crate::util::*;
use message_io::network::{ResourceId, ResourceIdGenerator, ResourceType, verif_token_of_id, verif_id_of_token};

fn ty(local: bool) -> ResourceType {
    if local { ResourceType::Local } else { ResourceType::Remote }
}
fn tyc(t: ResourceType) -> &'static str {
    match t { ResourceType::Local => "L", ResourceType::Remote => "R" }
}

pub fn run(a: &Args) {
    let mut out = Out::new(&a.out);
    let mut r = Rng::new(a.seed);
    let nrand = if a.thorough { 200_000 } else { 3_000 };

    // every adapter byte x kind, boundary base values
    let bases: Vec<u64> = vec![0, 1, 2, 255, 256, (1 << 55) - 1, 1 << 55, (1 << 56) - 1, 1 << 56, u64::MAX];
    for ad in 0..=255u64 {
        for local in [false, true] {
            for &b in &bases {
                new_case(&mut out, ad as u8, local, b as usize);
            }
        }
    }
    out.add("new_exhaustive_adapter_kind", 512);
    // raw values: bit boundaries and random
    let mut raws: Vec<u64> = vec![0, 1, 127, 128, 129, 255, 256, 257, u64::MAX, u64::MAX - 1, 1 << 63, (1 << 63) - 1, (1 << 63) | 128];
    for i in 0..64 {
        raws.push(1u64 << i);
        raws.push((1u64 << i).wrapping_sub(1));
        raws.push(!(1u64 << i));
    }
    for _ in 0..nrand {
        let x = r.next();
        raws.push(match r.below(4) { 0 => x, 1 => x >> r.below(64), 2 => x & 0xffff, _ => x | (1 << 63) });
    }
    for &raw in &raws {
        let id = ResourceId::from(raw as usize);
        let (ad, t, b) = (id.adapter_id(), id.resource_type(), id.base_value());
        out.case(&format!("acc {}", raw), &format!("{} {} {}", ad, tyc(t), b));
        out.count("acc_cases");
        // direct oracle: the accessors partition the bits, reassembling gives the same raw
        if id.raw() as u64 != raw {
            out.violation(&format!("From<usize>/raw() not identity for {}", raw));
        }
        if id.is_local() == id.is_remote() || id.is_local() != (t == ResourceType::Local) {
            out.violation(&format!("is_local/is_remote inconsistent for raw {}", raw));
        }
        if (ad as u64) <= 127 && (b as u64) < (1 << 56) {
            if let Some(back) = panics(|| ResourceId::verif_new(ad, t, b)) {
                if back.raw() as u64 != raw {
                    out.violation(&format!("accessors do not partition raw {}: new(adapter,kind,base) = {}", raw, back.raw()));
                }
            } else {
                out.violation(&format!("ResourceId::new panicked on fields read from raw {}", raw));
            }
        }
        let tok = verif_token_of_id(id);
        let back = verif_id_of_token(tok);
        out.case(&format!("tok {}", raw), &format!("{} {}", tok, back.raw()));
        out.count("tok_cases");
        if raw < (1 << 63) {
            if back != id {
                out.violation(&format!("token round trip lost id {} (token {})", raw, tok));
            }
            if tok == 0 {
                out.violation(&format!("token of id {} collides with the waker token", raw));
            }
        }
    }
    // random in-range new()
    for _ in 0..nrand {
        let ad = r.below(128) as u8;
        let local = r.chance(1, 2);
        let b = match r.below(3) { 0 => r.below(1 << 16), 1 => r.below(1 << 56), _ => (1 << 56) - 1 - r.below(1000) };
        new_case(&mut out, ad, local, b as usize);
    }
    // generators: ids are issued in counter order, never twice, carrying adapter and kind
    for _ in 0..(if a.thorough { 400 } else { 40 }) {
        let ad = r.below(128) as u8;
        let local = r.chance(1, 2);
        let n = r.range(1, 300);
        let g = ResourceIdGenerator::new(ad, ty(local));
        let ids: Vec<ResourceId> = (0..n).map(|_| g.generate()).collect();
        let mut seen = std::collections::HashSet::new();
        for id in &ids {
            if !seen.insert(id.raw()) {
                out.violation(&format!("generator ({}, {}) issued raw {} twice", ad, tyc(ty(local)), id.raw()));
            }
            if id.adapter_id() != ad || id.resource_type() != ty(local) {
                out.violation(&format!("generator ({}, {}) issued id {} that decodes to ({}, {})", ad, tyc(ty(local)), id.raw(), id.adapter_id(), tyc(id.resource_type())));
            }
        }
        out.case(&format!("gen {} {} {}", ad, tyc(ty(local)), n), &ids.iter().map(|i| i.raw().to_string()).collect::<Vec<_>>().join(" "));
        out.count("gen_cases");
    }
    out.finish();
}

fn new_case(out: &mut Out, ad: u8, local: bool, b: usize) {
    let res = panics(|| ResourceId::verif_new(ad, ty(local), b));
    let line = match res {
        Some(id) => id.raw().to_string(),
        None => "P".into(),
    };
    out.case(&format!("new {} {} {}", ad, tyc(ty(local)), b), &line);
    out.count("new_cases");
    if let Some(id) = res {
        if ad <= 127 && (b as u64) < (1 << 56) {
            if id.adapter_id() != ad || id.resource_type() != ty(local) || id.base_value() != b {
                out.violation(&format!("new({}, {}, {}) reads back as ({}, {}, {})", ad, tyc(ty(local)), b, id.adapter_id(), tyc(id.resource_type()), id.base_value()));
            }
        }
    }
}

//! C08 / C16: timed scenarios on the real EventReceiver with a receiver thread that blocks and a
//! second thread that sends / schedules / cancels while it is blocked.
//! case line: labels with the recorded clock readings
//!    TP:<th>:<e>:<d>:<now>  TC:<th>:<now>  S:<e>:<now>  P:<e>:<now>  C:<deadline>:<seq>:<now>  RB:<timeout|->:<now>
//! The model driver lets the blocked receiver take every wake-up that is due before the next
//! label's clock, and at the end lets it run until it returns.  impl/model line: what the blocking
//! receive returned:  e:<payload> | n
use crate::queue::{now_ns, timer_id_parts};
use crate::util::*;
use message_io::events::{EventReceiver, EventSender, TimerId};
use std::sync::mpsc;
use std::time::{Duration, Instant};

const MS: u64 = 1_000_000;

#[derive(Clone, Copy, Debug, PartialEq)]
enum Wake { Plain, Prio, Timer(u64), CancelQ, Nothing, FarCancelThenPlain(u32) }
#[derive(Clone, Copy, Debug, PartialEq)]
enum Recv { Forever, Timeout(u64) }

struct Sc { dq: Option<u64>, recv: Recv, wake: Wake, delta: u64 }

struct Res { case: String, imp: String, violations: Vec<String>, discarded: bool }

fn run_sc(sc: &Sc) -> Res {
    let mut q = EventReceiver::<u64>::default();
    let s: EventSender<u64> = q.sender().clone();
    let mut labels: Vec<String> = vec![];
    let mut viol = vec![];
    let mut idq: Option<TimerId> = None;
    let mut dlq: Option<u128> = None;
    if let Some(dq) = sc.dq {
        let id = s.send_with_timer(100, Duration::from_nanos(dq));
        let (dl, _seq) = timer_id_parts(&id);
        labels.push(format!("TP:0:100:{}:{}", dq, dl - dq as u128));
        labels.push(format!("TC:0:{}", dl - dq as u128));
        idq = Some(id);
        dlq = Some(dl);
    }
    let (tx, rx) = mpsc::channel();
    let recv = sc.recv;
    let (dtx, drx) = mpsc::channel();
    let _h = std::thread::spawn(move || {
        let t0 = now_ns();
        tx.send(t0).unwrap();
        let r = match recv {
            Recv::Forever => Some(q.receive()),
            Recv::Timeout(t) => q.receive_timeout(Duration::from_nanos(t)),
        };
        let t_end = now_ns();
        dtx.send((r, t_end)).ok();
        q
    });
    let t0 = rx.recv().unwrap();
    labels.push(match sc.recv { Recv::Forever => format!("RB:-:{}", t0), Recv::Timeout(t) => format!("RB:{}:{}", t, t0) });
    std::thread::sleep(Duration::from_nanos(sc.delta));
    // the wake-up action, performed while the receiver is (normally) blocked
    let t1 = now_ns();
    let mut wake_deadline: Option<u128> = None;
    let mut far_send_t: Option<u128> = None;
    match sc.wake {
        Wake::Plain => { s.send(200); labels.push(format!("S:200:{}", now_ns())); }
        Wake::Prio => { s.send_with_priority(200); labels.push(format!("P:200:{}", now_ns())); }
        Wake::Timer(d) => {
            let id = s.send_with_timer(200, Duration::from_nanos(d));
            let (dl, _) = timer_id_parts(&id);
            labels.push(format!("TP:1:200:{}:{}", d, dl - d as u128));
            labels.push(format!("TC:1:{}", now_ns()));
            wake_deadline = Some(dl);
        }
        Wake::CancelQ => {
            if let Some(id) = idq {
                s.cancel_timer(id);
                let (dl, seq) = timer_id_parts(&id);
                labels.push(format!("C:{}:{}:{}", dl, seq, now_ns()));
            }
        }
        Wake::Nothing => {}
        Wake::FarCancelThenPlain(n) => {
            // n wake-ups that deliver nothing (a far timer is armed, then cancelled), spread over
            // the first half of the timeout; then a plain event well inside the timeout
            for _ in 0..n {
                let id = s.send_with_timer(300, Duration::from_secs(3600));
                let (dl, seq) = timer_id_parts(&id);
                labels.push(format!("TP:1:300:{}:{}", 3_600_000_000_000u64, dl - 3_600_000_000_000u128));
                labels.push(format!("TC:1:{}", now_ns()));
                std::thread::sleep(Duration::from_millis(60));
                s.cancel_timer(id);
                labels.push(format!("C:{}:{}:{}", dl, seq, now_ns()));
                std::thread::sleep(Duration::from_millis(60));
            }
            far_send_t = Some(now_ns());
            s.send(200);
            labels.push(format!("S:200:{}", now_ns()));
        }
    }
    let t1b = now_ns();
    // a receive() that can never return must be released (and is not a case)
    // watchdog: a receiver that is not back 2.5 s after the last decisive instant is wedged; it is
    // then released with a rescue event so that the harness itself never hangs
    let (res, t_end, wedged) = match drx.recv_timeout(Duration::from_millis(2500)) {
        Ok((r, t)) => (r, t, false),
        Err(_) => {
            s.send(999);
            let (r, t) = drx.recv_timeout(Duration::from_secs(10)).unwrap_or((None, now_ns()));
            (r, t, true)
        }
    };
    let until = match sc.recv { Recv::Timeout(t) => Some(t0 + t as u128), Recv::Forever => None };
    // ---- implementation-level oracle: what may be returned and when -------------------------------
    let q_live = sc.dq.is_some() && sc.wake != Wake::CancelQ;
    let margin: u128 = 8 * MS as u128;
    // discard runs in which two decisive instants came closer than the margin (scheduling jitter)
    // decisive instants: when the queued timer expires, when the wake-up action becomes
    // deliverable, when the timeout ends
    let mut instants: Vec<u128> = vec![];
    if let Some(d) = dlq { instants.push(d) }
    match sc.wake {
        Wake::Timer(_) => instants.push(wake_deadline.unwrap().max(t1b)),
        Wake::Nothing => {}
        _ => instants.push(t1b),
    }
    // (the plain event of FarCancelThenPlain exists from the instant BEFORE its send() call: the
    // receiver may well be back before the sending thread has read the clock again)
    let t1 = if let Wake::FarCancelThenPlain(_) = sc.wake { far_send_t.unwrap_or(t1b) } else { t1 };
    if let Some(u) = until { instants.push(u) }
    let mut discarded = false;
    for i in 0..instants.len() {
        for j in 0..i {
            let (a, b) = (instants[i], instants[j]);
            if (a >= b && a - b < margin) || (b > a && b - a < margin) {
                discarded = true;
            }
        }
    }
    if t1 < t0 { discarded = true; }
    if wedged {
        let imp = "WEDGED".to_string();
        // (a timer that is never delivered although its deadline passed is also C08's "delivered once after the deadline")
        viol.push(format!("[C06,C16{}] receiver blocked in {:?} (queued timer {:?} ms) was not woken by {:?} from another thread within 2.5 s (released by a rescue event, got {:?})", if matches!(sc.wake, Wake::Timer(_)) || sc.dq.is_some() { ",C08" } else { "" }, sc.recv, sc.dq.map(|d| d / MS), sc.wake, res));
        return Res { case: labels.join(" "), imp, violations: viol, discarded: false };
    }
    let imp = match res { Some(e) => format!("e:{}", e), None => "n".into() };
    match res {
        Some(100) => {
            let d = dlq.unwrap();
            if t_end < d { viol.push(format!("[C08] timer delivered {} ns before its deadline to a blocked receiver ({:?})", d - t_end, (sc.dq, sc.recv, sc.wake))); }
            if sc.wake == Wake::CancelQ && t1b + margin < d && !discarded {
                viol.push(format!("[C08] timer cancelled {} ms before its deadline (while the receiver was blocked in {:?}) was still delivered", (d - t1b) / MS as u128, sc.recv));
            }
            if t_end > d + 1_000_000_000 { viol.push(format!("[C16] blocked receiver woke {} ms after the deadline of an already queued timer", (t_end - d) / MS as u128)); }
        }
        Some(200) => {
            let earliest = wake_deadline.unwrap_or(t1);
            if t_end < earliest { viol.push(format!("[C08,C16] event returned {} ns before it could exist/expire ({:?})", earliest - t_end, sc.wake)); }
            if t_end > earliest.max(t1b) + 1_000_000_000 {
                viol.push(format!("[C16] receiver blocked in {:?} was not woken by {:?} sent from another thread: returned {} ms late", sc.recv, sc.wake, (t_end - earliest.max(t1b)) / MS as u128));
            }
        }
        Some(x) => viol.push(format!("[C06] receiver returned an event nobody sent: {}", x)),
        None => {
            let u = until.unwrap();
            if t_end < u { viol.push(format!("[C16] receive_timeout returned None {} ns before the timeout elapsed", u - t_end)); }
            // nothing may have been deliverable before the timeout
            let deliverable_before: Option<u128> = [
                if q_live { dlq } else { None },
                match sc.wake { Wake::Plain | Wake::Prio | Wake::FarCancelThenPlain(_) => Some(t1b), Wake::Timer(_) => wake_deadline.map(|d| d.max(t1b)), _ => None },
            ].iter().flatten().cloned().min();
            if let Some(t) = deliverable_before {
                if t + margin < u && !discarded {
                    viol.push(format!("[C16{}] receive_timeout returned None although an event ({:?}, queued timer {:?}) became deliverable {} ms before the timeout", if matches!(sc.wake, Wake::Timer(_)) || q_live { ",C08" } else { "" }, sc.wake, sc.dq.map(|d| d / MS), (u - t) / MS as u128));
                }
            }
        }
    }
    Res { case: labels.join(" "), imp, violations: viol, discarded }
}

/// "any receive timeout": the largest representable timeouts behave like receive(): the blocked
/// receiver is woken by a plain, a priority and a timed send from another thread
/// the only queued timer is cancelled; the receiver then blocks on the (now empty) queue and another
/// thread schedules a timer that expires LATER than the cancelled one would have: it wakes the receiver
fn later_timer_after_cancel(out: &mut Out) {
    for variant in 0..4u64 {
        let mut q = EventReceiver::<u64>::default();
        let s = q.sender().clone();
        let first = Duration::from_millis(if variant % 2 == 0 { 20 } else { 40 });
        let id = s.send_with_timer(1, first);
        let cancel_while_blocked = variant >= 2;
        if !cancel_while_blocked {
            let a = q.try_receive();   // the receiver learns of the timer
            s.cancel_timer(id);
            let b = q.try_receive();   // ... and of its cancellation
            if a.is_some() || b.is_some() { out.violation(&format!("[C08] try_receive() returned {:?} / {:?} for a timer of {:?} that was cancelled at once", a, b, first)); }
        }
        let (tx, rx) = mpsc::channel();
        let forever = variant % 2 == 1;
        let h = std::thread::spawn(move || { let t = Instant::now(); let r = if forever { Some(q.receive()) } else { q.receive_timeout(Duration::from_secs(30)) }; tx.send((r, t.elapsed())).ok(); });
        std::thread::sleep(Duration::from_millis(8));
        if cancel_while_blocked { s.cancel_timer(id); std::thread::sleep(Duration::from_millis(4)); }
        let t_sched = Instant::now();
        s.send_with_timer(2, Duration::from_millis(70));
        let got = rx.recv_timeout(Duration::from_millis(2500));
        let how = format!("a {:?} timer was scheduled and cancelled {}; the receiver blocked in {}; then another thread scheduled a 70 ms timer", first, if cancel_while_blocked { "while the receiver was already blocked" } else { "(the receiver saw both through try_receive())" }, if forever { "receive()" } else { "receive_timeout(30 s)" });
        match got {
            Ok((Some(2), _)) => { let e = t_sched.elapsed(); if e > Duration::from_millis(70 + 400) { out.violation(&format!("[C16] {}: delivered only {:?} after it was scheduled", how, e)); } }
            Ok((other, e)) => out.violation(&format!("[C16,C08] {}: the receive call returned {:?} after {:?}", how, other, e)),
            Err(_) => { out.violation(&format!("[C16] {}: the receiver was not woken within 2.5 s (the timer expired 70 ms after it was scheduled)", how)); s.send(999); }
        }
        let _ = h.join();
        out.count("later_timer_after_cancel");
    }
}

/// a timer is cancelled by another thread right around the instant it expires while the receiver is
/// blocked in receive_timeout(): either the event is delivered, or nothing is - and then only after the
/// whole timeout has elapsed
fn cancel_around_expiry_keeps_the_timeout(out: &mut Out, rounds: usize) {
    let timer = Duration::from_millis(1);
    let timeout = Duration::from_millis(5);
    let (mut early, mut delivered, mut waited) = (vec![], 0u64, 0u64);
    for round in 0..rounds {
        let mut q = EventReceiver::<u64>::default();
        let s = q.sender().clone();
        let offset = Duration::from_micros((round % 100) as u64);
        let c = std::thread::spawn(move || {
            let t = Instant::now();
            let id = s.send_with_timer(5, timer);
            while Instant::now() < t + timer + offset { std::hint::spin_loop(); }
            s.cancel_timer(id);
        });
        let t0 = Instant::now();
        let r = q.receive_timeout(timeout);
        let e = t0.elapsed();
        let _ = c.join();
        match r { Some(_) => delivered += 1, None if e < timeout => { if early.len() < 5 { early.push((round, e)); } else { early.push((round, e)); early.truncate(5); } } None => waited += 1 }
    }
    if !early.is_empty() {
        out.violation(&format!("[C16] receive_timeout({:?}) reported nothing BEFORE the timeout had elapsed: a {:?} timer was cancelled by another thread 0..100 us after its expiry while the receiver was blocked; (round, returned None after) {:?}; of {} rounds {} delivered the event and {} waited the whole timeout", timeout, timer, early, rounds, delivered, waited));
    }
    out.add("cancel_around_expiry_rounds", rounds as u64);
    out.add("cancel_around_expiry_delivered", delivered);
}

fn unbounded_timeouts(out: &mut Out) {
    for (ti, timeout) in [Duration::MAX, Duration::from_secs(u64::MAX), Duration::from_secs(u64::MAX / 4), Duration::from_secs(3600 * 24 * 365 * 100)].into_iter().enumerate() {
        for kind in 0..3u64 {
            let mut q = EventReceiver::<u64>::default();
            let s = q.sender().clone();
            let (tx, rx) = mpsc::channel();
            let h = std::thread::spawn(move || { let r = std::panic::catch_unwind(std::panic::AssertUnwindSafe(|| q.receive_timeout(timeout))); tx.send(r.ok()).ok(); });
            std::thread::sleep(Duration::from_millis(25));
            match kind { 0 => s.send(7), 1 => s.send_with_priority(7), _ => { s.send_with_timer(7, Duration::from_millis(10)); } }
            let got = rx.recv_timeout(Duration::from_millis(2500));
            let what = ["send()", "send_with_priority()", "send_with_timer(10 ms)"][kind as usize];
            match got {
                Ok(Some(Some(7))) => {}
                Ok(None) => out.violation(&format!("[C16] receive_timeout({:?}) panicked instead of waiting ({} from another thread)", timeout, what)),
                Ok(Some(other)) => out.violation(&format!("[C16] receive_timeout({:?}) returned {:?} although {} delivered an event 25 ms into the wait", timeout, other, what)),
                Err(_) => { out.violation(&format!("[C16] a receiver blocked in receive_timeout({:?}) was not woken within 2.5 s by {} from another thread", timeout, what)); s.send(999); }
            }
            let _ = h.join();
            let _ = ti;
            out.count("unbounded_timeouts");
        }
    }
}

/// two timers pending at once; the receiver blocks, gets the first, blocks again: the second must
/// wake it at its own deadline (the alarm has to be re-armed after a delivery)
fn two_timers_two_receives(out: &mut Out) {
    for (d1, d2, variant) in [(50u64, 160u64, 0), (50, 160, 1), (0, 120, 0), (40, 45, 1)] {
        let mut q = EventReceiver::<u64>::default();
        let s = q.sender().clone();
        let id1 = s.send_with_timer(100, Duration::from_millis(d1));
        let id2 = s.send_with_timer(101, Duration::from_millis(d2));
        let (dl1, _) = timer_id_parts(&id1);
        let (dl2, _) = timer_id_parts(&id2);
        let mut labels = vec![format!("TP:0:100:{}:{}", d1 * MS, dl1 - (d1 * MS) as u128), format!("TC:0:{}", dl1 - (d1 * MS) as u128),
                              format!("TP:0:101:{}:{}", d2 * MS, dl2 - (d2 * MS) as u128), format!("TC:0:{}", dl2 - (d2 * MS) as u128)];
        let (tx, rx) = mpsc::channel();
        let _h = std::thread::spawn(move || {
            let mut res = vec![];
            for _ in 0..2 {
                let t0 = now_ns();
                let r = if variant == 0 { Some(q.receive()) } else { q.receive_timeout(Duration::from_millis(900)) };
                res.push((t0, r, now_ns()));
            }
            tx.send(res).ok();
            q
        });
        match rx.recv_timeout(Duration::from_millis(3000)) {
            Ok(res) => {
                let want = [(100u64, dl1), (101u64, dl2)];
                let mut imp = String::new();
                for (i, (t0, r, t_end)) in res.iter().enumerate() {
                    labels.push(format!("RB:{}:{}", if variant == 0 { "-".to_string() } else { (900 * MS).to_string() }, t0));
                    imp = match r { Some(e) => format!("e:{}", e), None => "n".into() };
                    if *r != Some(want[i].0) {
                        out.violation(&format!("[C16,C08] two timers ({} ms, {} ms) pending, consecutive blocking receives: call {} returned {:?} instead of the timer event {}", d1, d2, i + 1, r, want[i].0));
                    } else if *t_end < want[i].1 {
                        out.violation(&format!("[C08] timer delivered {} ns early", want[i].1 - t_end));
                    } else if *t_end > want[i].1 + 1_000_000_000 {
                        out.violation(&format!("[C16] the second of two pending timers woke the blocked receiver {} ms late", (t_end - want[i].1) / MS as u128));
                    }
                    if i == 0 {
                        // the first call's result is checked by the oracle above; only the last one is compared with the model
                    }
                }
                out.case(&labels.join(" "), &imp);
                out.count("two_timers_two_blocking_receives");
            }
            Err(_) => {
                s.send(999); s.send(999);
                out.violation(&format!("[C06,C16] two timers ({} ms, {} ms) pending: two consecutive blocking receives did not both return within 3 s (the second timer did not wake the receiver)", d1, d2));
            }
        }
    }
}

fn never_early_sweep(out: &mut Out, thorough: bool) {
    // durations incl. 0 and sub-millisecond, several threads, sender handles dropped before delivery
    let durs: [u64; 7] = [0, 200_000, MS, 5 * MS, 20 * MS, 50 * MS, 90 * MS];
    let reps = if thorough { 40 } else { 6 };
    let mut q = EventReceiver::<u64>::default();
    let mut expected = 0usize;
    let mut starts: std::collections::HashMap<u64, (u128, u64)> = std::collections::HashMap::new();
    let handles: Vec<_> = (0..3u64).map(|t| {
        let s = q.sender().clone();
        std::thread::spawn(move || {
            let mut v = vec![];
            for r in 0..reps as u64 {
                for (k, d) in durs.iter().enumerate() {
                    let e = (t << 40) | (r << 8) | k as u64;
                    let before = now_ns();
                    s.send_with_timer(e, Duration::from_nanos(*d));
                    v.push((e, before, *d));
                }
            }
            drop(s);
            v
        })
    }).collect();
    for h in handles {
        for (e, before, d) in h.join().unwrap() {
            starts.insert(e, (before, d));
            expected += 1;
        }
    }
    let mut got = 0usize;
    let t_start = Instant::now();
    while got < expected && t_start.elapsed() < Duration::from_secs(5) {
        if let Some(e) = q.receive_timeout(Duration::from_millis(200)) {
            let at = now_ns();
            got += 1;
            match starts.remove(&e) {
                Some((before, d)) => {
                    if at < before + d as u128 {
                        out.violation(&format!("[C08] timer with duration {} ns delivered after only {} ns", d, at - before));
                    }
                }
                None => out.violation(&format!("[C06,C08] timer event {} delivered twice or never scheduled", e)),
            }
        }
    }
    if got < expected {
        out.violation(&format!("[C06,C08] {} of {} timers were never delivered although their sender handles were dropped after scheduling", expected - got, expected));
    }
    out.add("never_early_timers_checked", got as u64);
}

pub fn run(a: &Args) {
    let mut out = Out::new(&a.out);
    let dqs = [None, Some(60 * MS), Some(400 * MS)];
    let recvs = [Recv::Forever, Recv::Timeout(130 * MS), Recv::Timeout(600 * MS)];
    let wakes = [Wake::Plain, Wake::Prio, Wake::Timer(0), Wake::Timer(45 * MS), Wake::Timer(200 * MS), Wake::CancelQ, Wake::Nothing];
    let deltas: Vec<u64> = if a.thorough { vec![5 * MS, 30 * MS, 30 * MS, 30 * MS] } else { vec![30 * MS] };
    let mut scs: Vec<Sc> = vec![];
    for delta in &deltas {
        for dq in dqs {
            for recv in recvs {
                for wake in wakes {
                    if wake == Wake::CancelQ && dq.is_none() { continue; }
                    // receive() must be certain to return
                    let q_live = dq.is_some() && wake != Wake::CancelQ;
                    let wake_delivers = matches!(wake, Wake::Plain | Wake::Prio | Wake::Timer(_) | Wake::FarCancelThenPlain(_));
                    if recv == Recv::Forever && !q_live && !wake_delivers { continue; }
                    scs.push(Sc { dq, recv, wake, delta: *delta });
                }
            }
        }
    }
    // several wake-ups that deliver nothing before the one that does (remaining time must be recomputed from the start)
    for n in [2u32, 4] {
        scs.push(Sc { dq: None, recv: Recv::Timeout(1000 * MS), wake: Wake::FarCancelThenPlain(n), delta: 20 * MS });
        scs.push(Sc { dq: Some(3_600_000 * MS), recv: Recv::Timeout(1000 * MS), wake: Wake::FarCancelThenPlain(n), delta: 20 * MS });
    }
    scs.push(Sc { dq: None, recv: Recv::Forever, wake: Wake::FarCancelThenPlain(2), delta: 20 * MS });
    // the receiver has already been blocked for a long time when the other thread acts
    for recv in [Recv::Timeout(500 * MS), Recv::Timeout(640 * MS), Recv::Forever] {
        scs.push(Sc { dq: None, recv, wake: Wake::Timer(20 * MS), delta: 300 * MS });
        scs.push(Sc { dq: Some(3_600_000 * MS), recv, wake: Wake::Timer(20 * MS), delta: 300 * MS });
        scs.push(Sc { dq: Some(3_600_000 * MS), recv, wake: Wake::Prio, delta: 300 * MS });
    }
    let n = scs.len();
    let nthreads = 12;
    let scs = std::sync::Arc::new(scs);
    let handles: Vec<_> = (0..nthreads).map(|k| {
        let scs = scs.clone();
        std::thread::spawn(move || {
            let mut v = vec![];
            for i in (k..n).step_by(nthreads) {
                let mut r = run_sc(&scs[i]);
                if r.discarded { r = run_sc(&scs[i]); }
                v.push((i, r));
            }
            v
        })
    }).collect();
    let mut all = vec![];
    for h in handles { all.extend(h.join().unwrap()); }
    all.sort_by_key(|x| x.0);
    for (i, r) in all {
        let sc = &scs[i];
        out.count(&format!("recv_{}", match sc.recv { Recv::Forever => "receive".to_string(), Recv::Timeout(t) => format!("receive_timeout_{}ms", t / MS) }));
        out.count(&format!("wake_{}", match sc.wake { Wake::Plain => "plain".into(), Wake::Prio => "priority".into(), Wake::Timer(d) => format!("timer_{}ms", d / MS), Wake::CancelQ => "cancel_queued_timer".into(), Wake::Nothing => "nothing".into(), Wake::FarCancelThenPlain(n) => format!("{}_idle_wakeups_then_plain", n) }));
        for v in &r.violations { out.violation(v); }
        if r.discarded {
            out.count("discarded_decisive_instants_too_close");
        } else {
            out.case(&r.case, &r.imp);
        }
    }
    two_timers_two_receives(&mut out);
    unbounded_timeouts(&mut out);
    later_timer_after_cancel(&mut out);
    cancel_around_expiry_keeps_the_timeout(&mut out, if a.thorough { 6000 } else { 1000 });
    never_early_sweep(&mut out, a.thorough);
    out.finish();
}

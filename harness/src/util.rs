//! shared helpers: deterministic PRNG (SplitMix64), hex, output files, stats
use std::collections::BTreeMap;
use std::fmt::Write as _;
use std::fs::File;
use std::io::{BufWriter, Write};
use std::path::{Path, PathBuf};

#[derive(Clone)]
pub struct Rng(pub u64);

impl Rng {
    pub fn new(seed: u64) -> Self {
        Rng(seed ^ 0x9E37_79B9_7F4A_7C15)
    }
    pub fn next(&mut self) -> u64 {
        self.0 = self.0.wrapping_add(0x9E37_79B9_7F4A_7C15);
        let mut z = self.0;
        z = (z ^ (z >> 30)).wrapping_mul(0xBF58_476D_1CE4_E5B9);
        z = (z ^ (z >> 27)).wrapping_mul(0x94D0_49BB_1331_11EB);
        z ^ (z >> 31)
    }
    /// uniform in 0..n (n > 0)
    pub fn below(&mut self, n: u64) -> u64 {
        self.next() % n
    }
    pub fn range(&mut self, lo: u64, hi_incl: u64) -> u64 {
        lo + self.below(hi_incl - lo + 1)
    }
    pub fn chance(&mut self, num: u64, den: u64) -> bool {
        self.below(den) < num
    }
    pub fn pick<'a, T>(&mut self, xs: &'a [T]) -> &'a T {
        &xs[self.below(xs.len() as u64) as usize]
    }
    pub fn fork(&mut self) -> Rng {
        Rng(self.next())
    }
}

pub fn hex(b: &[u8]) -> String {
    if b.is_empty() {
        return "-".to_string();
    }
    let mut s = String::with_capacity(b.len() * 2);
    for x in b {
        write!(s, "{:02x}", x).unwrap();
    }
    s
}

pub fn unhex(s: &str) -> Vec<u8> {
    if s == "-" {
        return vec![];
    }
    (0..s.len() / 2).map(|i| u8::from_str_radix(&s[2 * i..2 * i + 2], 16).unwrap()).collect()
}

/// Everything a run writes: cases for the model, the implementation's answers, statistics.
pub struct Out {
    pub dir: PathBuf,
    pub cases: BufWriter<File>,
    pub imp: BufWriter<File>,
    pub imp2: Option<BufWriter<File>>,
    pub n: u64,
    pub counters: BTreeMap<String, u64>,
    pub violations: Vec<String>,
    pub samples: Vec<String>,
    pub notes: Vec<String>,
}

impl Out {
    pub fn new(dir: &str) -> Out {
        std::fs::create_dir_all(dir).unwrap();
        let d = Path::new(dir).to_path_buf();
        Out {
            cases: BufWriter::new(File::create(d.join("cases.txt")).unwrap()),
            imp: BufWriter::new(File::create(d.join("impl.txt")).unwrap()),
            imp2: None,
            dir: d,
            n: 0,
            counters: BTreeMap::new(),
            violations: vec![],
            samples: vec![],
            notes: vec![],
        }
    }
    /// one case: the line the model reads, the line the implementation produced
    pub fn case(&mut self, case_line: &str, impl_line: &str) {
        debug_assert!(!case_line.contains('\n') && !impl_line.contains('\n'));
        writeln!(self.cases, "{}", case_line).unwrap();
        writeln!(self.imp, "{}", impl_line).unwrap();
        if self.samples.len() < 6 && (self.n % 97 == 0 || self.samples.len() < 2) && case_line.len() < 400 {
            self.samples.push(format!("{} => {}", case_line, impl_line));
        }
        self.n += 1;
    }
    /// a case with a second implementation-side line (e.g. a verdict), written to impl2.txt
    pub fn case2(&mut self, case_line: &str, impl_line: &str, impl2_line: &str) {
        if self.imp2.is_none() {
            self.imp2 = Some(BufWriter::new(File::create(self.dir.join("impl2.txt")).unwrap()));
        }
        writeln!(self.imp2.as_mut().unwrap(), "{}", impl2_line).unwrap();
        self.case(case_line, impl_line);
    }
    pub fn count(&mut self, key: &str) {
        *self.counters.entry(key.to_string()).or_insert(0) += 1;
    }
    pub fn add(&mut self, key: &str, v: u64) {
        *self.counters.entry(key.to_string()).or_insert(0) += v;
    }
    /// a property violation observed directly on the implementation (with the case that shows it)
    pub fn violation(&mut self, what: &str) {
        if self.violations.len() < 50 {
            self.violations.push(what.to_string());
        }
        self.count("impl_property_violations");
    }
    pub fn finish(mut self) {
        self.cases.flush().unwrap();
        self.imp.flush().unwrap();
        if let Some(f) = self.imp2.as_mut() { f.flush().unwrap(); }
        let mut s = String::from("{\n");
        write!(s, " \"cases\": {},\n", self.n).unwrap();
        s.push_str(" \"counters\": {");
        let mut first = true;
        for (k, v) in &self.counters {
            if !first {
                s.push(',');
            }
            first = false;
            write!(s, "\n  {}: {}", json_str(k), v).unwrap();
        }
        s.push_str("\n },\n");
        for (name, list) in [("violations", &self.violations), ("samples", &self.samples), ("notes", &self.notes)] {
            write!(s, " {}: [", json_str(name)).unwrap();
            for (i, v) in list.iter().enumerate() {
                if i > 0 {
                    s.push(',');
                }
                write!(s, "\n  {}", json_str(v)).unwrap();
            }
            s.push_str("\n ]");
            s.push_str(if name == "notes" { "\n" } else { ",\n" });
        }
        s.push_str("}\n");
        std::fs::write(self.dir.join("stats.json"), s).unwrap();
    }
}

pub fn json_str(s: &str) -> String {
    let mut o = String::from("\"");
    for c in s.chars() {
        match c {
            '"' => o.push_str("\\\""),
            '\\' => o.push_str("\\\\"),
            '\n' => o.push_str("\\n"),
            '\t' => o.push_str("\\t"),
            c if (c as u32) < 0x20 => write!(o, "\\u{:04x}", c as u32).unwrap(),
            c => o.push(c),
        }
    }
    o.push('"');
    o
}

pub struct Args {
    pub seed: u64,
    pub thorough: bool,
    pub out: String,
    pub replay: Option<String>,
    pub rest: Vec<String>,
}

pub fn parse_args(args: &[String]) -> Args {
    let mut a = Args { seed: 1, thorough: false, out: "/tmp/mioh_out".into(), replay: None, rest: vec![] };
    let mut i = 0;
    while i < args.len() {
        match args[i].as_str() {
            "--seed" => {
                a.seed = args[i + 1].parse().unwrap();
                i += 1;
            }
            "--tier" => {
                a.thorough = args[i + 1] == "thorough";
                i += 1;
            }
            "--out" => {
                a.out = args[i + 1].clone();
                i += 1;
            }
            "--replay" => {
                a.replay = Some(args[i + 1].clone());
                i += 1;
            }
            x => a.rest.push(x.to_string()),
        }
        i += 1;
    }
    a
}

/// names the scenario that is about to run in <out>/current_case.txt: if the process dies (abort,
/// a panic on a thread nobody catches), ./check reports the death with this scenario as the input
pub fn mark_scenario(out: &Out, line: &str) {
    use std::io::{Seek, SeekFrom, Write};
    static MARK: std::sync::Mutex<Option<std::fs::File>> = std::sync::Mutex::new(None);
    let mut m = MARK.lock().unwrap();
    if m.is_none() {
        *m = std::fs::File::create(out.dir.join("current_case.txt")).ok();
    }
    if let Some(f) = m.as_mut() {
        let _ = f.seek(SeekFrom::Start(0));
        let _ = f.write_all(line.as_bytes());
        let _ = f.write_all(b"\n#END#                                                                                                              \n");
    }
}

thread_local! { pub static EXPECT_PANIC: std::cell::Cell<u32> = std::cell::Cell::new(0); }

/// runs `f`, catching a panic of the code under test (None); such panics are not echoed on stderr
pub fn panics<R>(f: impl FnOnce() -> R) -> Option<R> {
    EXPECT_PANIC.with(|c| c.set(c.get() + 1));
    let r = std::panic::catch_unwind(std::panic::AssertUnwindSafe(f)).ok();
    EXPECT_PANIC.with(|c| c.set(c.get() - 1));
    r
}

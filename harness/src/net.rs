//! Real-socket scenarios on loopback: message-io nodes against message-io nodes and against
//! independent peers (raw std sockets, stock tungstenite).  Shared infrastructure + the cores
//!   net_framed (C01, C02 prefix on the wire)   net_ws (C01)   net_tcp (C11)
//!   net_conc (C10)   net_udp (C12)   net_limits (C13)   net_life (C03, C04, C17, C18)
use crate::util::*;
use message_io::network::{self, Endpoint, NetEvent, NetworkController, ResourceId, SendStatus, Transport};
use std::io::{Read, Write};
use std::net::{SocketAddr, TcpListener, TcpStream, UdpSocket};
use std::sync::atomic::{AtomicBool, Ordering};
use std::sync::{Arc, Mutex};
use std::time::{Duration, Instant};

#[derive(Clone, Debug, PartialEq)]
pub enum Ev {
    Connected(Endpoint, bool),
    Accepted(Endpoint, ResourceId),
    Message(Endpoint, Vec<u8>),
    Disconnected(Endpoint),
}

static WEDGED: AtomicBool = AtomicBool::new(false);
/// work (spin, microseconds) the recording callback does for each filler message of the streaming scenarios
static FILLER_SPIN_US: std::sync::atomic::AtomicU64 = std::sync::atomic::AtomicU64::new(0);

/// a message-io network (controller + processor pumped by its own thread) that records its events
pub struct Net {
    pub ctl: Arc<NetworkController>,
    pub events: Arc<Mutex<Vec<(Instant, Ev)>>>,
    stop: Arc<AtomicBool>,
    handle: Option<std::thread::JoinHandle<bool>>,
}

impl Net {
    pub fn new() -> Net { Net::with_opts(None, 0) }
    /// `echo`: messages of at most that many bytes are sent back from INSIDE the callback
    pub fn with_echo(echo: Option<usize>) -> Net { Net::with_opts(echo, 0) }
    /// `slow_ms`: the callback lingers that long on every Message event (a slow consumer)
    pub fn with_opts(echo: Option<usize>, slow_ms: u64) -> Net {
        let (ctl, mut processor) = network::split();
        let ctl = Arc::new(ctl);
        let events = Arc::new(Mutex::new(vec![]));
        let stop = Arc::new(AtomicBool::new(false));
        let (ev2, stop2) = (events.clone(), stop.clone());
        let ctl2 = ctl.clone();
        let handle = std::thread::Builder::new().name("net-processor".into()).spawn(move || {
            // returns true if event processing panicked
            let r = std::panic::catch_unwind(std::panic::AssertUnwindSafe(|| {
                while !stop2.load(Ordering::SeqCst) {
                    processor.process_poll_event(Some(Duration::from_millis(5)), |e| {
                        let rec = match e {
                            NetEvent::Connected(ep, ok) => Ev::Connected(ep, ok),
                            NetEvent::Accepted(ep, l) => Ev::Accepted(ep, l),
                            NetEvent::Message(_, d) if d.len() == 1 && d[0] == 7 => {
                                // filler of the streaming scenarios: not recorded; the application "works" a little on it
                                let us = FILLER_SPIN_US.load(Ordering::Relaxed);
                                if us > 0 { let t = Instant::now(); while t.elapsed() < Duration::from_micros(us) { std::hint::spin_loop(); } }
                                return;
                            }
                            NetEvent::Message(ep, d) => {
                                if let Some(max) = echo { if d.len() <= max { ctl2.send(ep, d); } }
                                if slow_ms > 0 { std::thread::sleep(Duration::from_millis(slow_ms)); }
                                Ev::Message(ep, d.to_vec())
                            }
                            NetEvent::Disconnected(ep) => Ev::Disconnected(ep),
                        };
                        ev2.lock().unwrap().push((Instant::now(), rec));
                    });
                }
            }));
            r.is_err()
        }).unwrap();
        Net { ctl, events, stop, handle: Some(handle) }
    }
    pub fn snapshot(&self) -> Vec<Ev> {
        self.events.lock().unwrap().iter().map(|x| x.1.clone()).collect()
    }
    /// wait until `pred` holds on the event log (true) or the time is up (false)
    pub fn wait(&self, ms: u64, pred: impl Fn(&[Ev]) -> bool) -> bool {
        // patience: every wait of the scenarios is an upper bound that costs time only when the
        // awaited thing does not happen; a loaded or cold machine must not turn into an alarm
        let end = Instant::now() + Duration::from_millis(ms * 4);
        loop {
            if pred(&self.snapshot()) { return true; }
            if Instant::now() > end { return false; }
            std::thread::sleep(Duration::from_millis(2));
        }
    }
    pub fn messages_of(&self, id: ResourceId) -> Vec<Vec<u8>> {
        self.snapshot().into_iter().filter_map(|e| match e { Ev::Message(ep, d) if ep.resource_id() == id => Some(d), _ => None }).collect()
    }
    pub fn panicked(&self) -> bool {
        self.handle.as_ref().map(|h| h.is_finished()).unwrap_or(false) && !self.stop.load(Ordering::SeqCst)
    }
    /// stops the processor thread; true if it had panicked
    pub fn shutdown(mut self) -> bool {
        self.stop.store(true, Ordering::SeqCst);
        // a processor thread that does not come back from process_poll_event (5 ms timeout) within
        // 4 s is wedged inside the library: reported like a panic, and the thread is abandoned
        let end = Instant::now() + Duration::from_secs(4);
        while let Some(h) = self.handle.as_ref() {
            if h.is_finished() { break; }
            if Instant::now() > end { WEDGED.store(true, Ordering::SeqCst); self.handle.take(); return true; }
            std::thread::sleep(Duration::from_millis(2));
        }
        self.handle.take().map(|h| h.join().unwrap_or(true)).unwrap_or(false)
    }
    /// true if some node's event processing never came back (see shutdown)
    pub fn any_wedged() -> bool { WEDGED.load(Ordering::SeqCst) }
}

/// stock tungstenite server handshake on an accepted stream, with read/write timeouts: a node
/// that never sends or completes its handshake must not hang the harness
pub fn ws_accept(s: TcpStream) -> Result<tungstenite::WebSocket<TcpStream>, tungstenite::HandshakeError<tungstenite::ServerHandshake<TcpStream, tungstenite::handshake::server::NoCallback>>> {
    let _ = s.set_read_timeout(Some(Duration::from_secs(5)));
    let _ = s.set_write_timeout(Some(Duration::from_secs(5)));
    tungstenite::accept(s)
}

pub fn payload(tag: u64, len: usize) -> Vec<u8> {
    // self-describing: content depends on (tag, position); first bytes look like prefixes on purpose
    let mut r = Rng::new(tag.wrapping_mul(0x9E37_79B9).wrapping_add(len as u64));
    (0..len).map(|i| match i % 7 { 0 => 0x80, 1 => 0xff, 2 => 0x00, _ => r.next() as u8 }).collect()
}

pub fn connect_pair(t: Transport) -> Option<(Net, Net, ResourceId, Endpoint, Endpoint)> {
    // a: listener side, b: connector side; returns (a, b, listener id, a's endpoint for b, b's endpoint for a)
    let a = Net::new();
    let b = Net::new();
    let (lid, addr) = a.ctl.listen(t, "127.0.0.1:0").ok()?;
    let (ep_b, _) = b.ctl.connect(t, addr).ok()?;
    if !b.wait(3000, |ev| ev.iter().any(|e| matches!(e, Ev::Connected(ep, true) if *ep == ep_b))) { return None; }
    if t.is_connection_oriented() {
        if !a.wait(3000, |ev| ev.iter().any(|e| matches!(e, Ev::Accepted(_, l) if *l == lid))) { return None; }
        let ep_a = a.snapshot().into_iter().find_map(|e| match e { Ev::Accepted(ep, l) if l == lid => Some(ep), _ => None })?;
        Some((a, b, lid, ep_a, ep_b))
    } else {
        Some((a, b, lid, ep_b, ep_b))
    }
}

/// send with retry while the connection is not yet usable (never for other statuses)
pub fn send_all(ctl: &NetworkController, ep: Endpoint, msgs: &[Vec<u8>]) -> Vec<SendStatus> {
    msgs.iter().map(|m| ctl.send(ep, m)).collect()
}

// ---------------------------------------------------------------------------------------------------
// C01 (FramedTcp) + the prefix on the wire (C02)
// ---------------------------------------------------------------------------------------------------
fn leb128(mut n: u64) -> Vec<u8> {
    let mut v = vec![];
    loop {
        let b = (n & 0x7f) as u8;
        n >>= 7;
        if n == 0 { v.push(b); break; } else { v.push(b | 0x80); }
    }
    v
}

pub fn run_framed(a: &Args) {
    let mut out = Out::new(&a.out);
    let mut r = Rng::new(a.seed);
    let t = Transport::FramedTcp;
    let boundary: Vec<usize> = vec![0, 1, 2, 126, 127, 128, 129, 255, 256, 16383, 16384, 16385, 65534, 65535, 65536, 65537];

    // (a) message-io -> message-io, both directions, bursts that share socket reads, then idleness
    mark_scenario(&out, "net_framed (a) message-io -> message-io, both directions, bursts that share socket reads, then idleness");
    for dir in 0..2 {
        let mut lists: Vec<Vec<usize>> = vec![boundary.clone(), vec![0; 40], vec![128; 30], (0..200).map(|i| i % 300).collect(), vec![1 << 21, 5, 1 << 20, 0, 127, 128]];
        for _ in 0..(if a.thorough { 40 } else { 4 }) {
            lists.push((0..r.range(1, 60)).map(|_| *r.pick(&[0usize, 1, 5, 127, 128, 129, 300, 16383, 16384, 70000])).collect());
        }
        for sizes in lists {
            let Some((na, nb, _lid, ep_a, ep_b)) = connect_pair(t) else { out.violation("[C01,C03] could not establish a FramedTcp connection on loopback"); continue };
            let (sender, receiver, ep_s, rid) = if dir == 0 { (&nb, &na, ep_b, ep_a.resource_id()) } else { (&na, &nb, ep_a, ep_b.resource_id()) };
            let msgs: Vec<Vec<u8>> = sizes.iter().enumerate().map(|(i, l)| payload(i as u64, *l)).collect();
            let st = send_all(&sender.ctl, ep_s, &msgs);
            if st.iter().any(|s| *s != SendStatus::Sent) {
                out.violation(&format!("[C01,C13] FramedTcp send() on an established connection answered {:?}", st.iter().find(|s| **s != SendStatus::Sent)));
            }
            let n = msgs.len();
            let ok = receiver.wait(6000, |_| receiver.messages_of(rid).len() >= n);
            // no further traffic: everything must have arrived; then nothing more may arrive
            std::thread::sleep(Duration::from_millis(30));
            let got = receiver.messages_of(rid);
            if !ok || got != msgs {
                let first_bad = got.iter().zip(msgs.iter()).position(|(x, y)| x != y);
                out.violation(&format!("[C01] FramedTcp {}: sent {} messages (sizes {:?}...), received {} ; first difference at index {:?} (delivered within 6 s without further traffic: {})",
                    if dir == 0 { "connector->acceptor" } else { "acceptor->connector" }, n, &sizes[..sizes.len().min(12)], got.len(), first_bad, ok));
            }
            out.count("framed_mio_to_mio_lists");
            out.add("framed_messages", n as u64);
            out.case(&format!("framed mio dir{} sizes {:?}", dir, &sizes[..sizes.len().min(20)]), &format!("{} {}", got.len(), got == msgs));
            if na.shutdown() | nb.shutdown() { out.violation("[C17,C01] event processing panicked"); }
        }
    }

    // (b) raw writer with adversarial write boundaries -> FramedTcp listener
    mark_scenario(&out, "net_framed (b) raw writer with adversarial write boundaries -> FramedTcp listener");
    {
        let na = Net::new();
        let (lid, addr) = na.ctl.listen(t, "127.0.0.1:0").unwrap();
        let msgs: Vec<Vec<u8>> = vec![payload(1, 3), payload(2, 0), payload(3, 128), payload(4, 200), payload(5, 16384), payload(6, 1), payload(7, 127), payload(8, 129), payload(9, 70000)];
        let stream: Vec<u8> = msgs.iter().flat_map(|m| { let mut f = leb128(m.len() as u64); f.extend_from_slice(m); f }).collect();
        // cut sets: every single cut inside the first 700 bytes (covers every prefix split), pairs around the multi-byte prefixes, random
        let mut cutsets: Vec<Vec<usize>> = vec![vec![]];
        for p in 1..stream.len().min(700) { cutsets.push(vec![p]); }
        let mut offs = vec![]; let mut o = 0; for m in &msgs { offs.push(o); o += leb128(m.len() as u64).len() + m.len(); }
        for &o in &offs { for d1 in 0..4usize { for d2 in (d1 + 1)..5 { if o + d2 < stream.len() && o + d1 > 0 { cutsets.push(vec![o + d1, o + d2]); } } } }
        for _ in 0..(if a.thorough { 300 } else { 30 }) {
            let mut c: Vec<usize> = (0..r.range(2, 12)).map(|_| r.range(1, stream.len() as u64 - 1) as usize).collect();
            c.sort(); c.dedup(); cutsets.push(c);
        }
        let step = if a.thorough { 1 } else { 5 };
        for (ci, cuts) in cutsets.iter().enumerate() {
            if ci % step != 0 && cuts.len() == 1 { continue; }
            // events of THIS connection only: the kernel may hand out the local port of an earlier,
            // closed connection again, so the peer address alone does not identify it
            let before = na.snapshot().len();
            let mut s = TcpStream::connect(addr).unwrap();
            s.set_nodelay(true).unwrap();
            if !na.wait(3000, |ev| ev.iter().filter(|e| matches!(e, Ev::Accepted(_, l) if *l == lid)).count() > ci_count(&na)) { }
            let mut last = 0;
            for &c in cuts.iter().chain(std::iter::once(&stream.len())) {
                s.write_all(&stream[last..c]).unwrap();
                s.flush().unwrap();
                if c - last < 2000 { std::thread::sleep(Duration::from_micros(300)); }
                last = c;
            }
            // which accepted endpoint is ours: the one whose peer address is our local address
            let me = s.local_addr().unwrap();
            let ok = na.wait(5000, |ev| ev[before.min(ev.len())..].iter().filter(|e| matches!(e, Ev::Message(ep, _) if ep.addr() == me)).count() >= msgs.len());
            let got: Vec<Vec<u8>> = na.snapshot().into_iter().skip(before).filter_map(|e| match e { Ev::Message(ep, d) if ep.addr() == me => Some(d), _ => None }).collect();
            if !ok || got != msgs {
                out.violation(&format!("[C01,C02] raw TCP writer with write boundaries {:?} into a FramedTcp listener: {} of {} messages delivered, equal={} ", &cuts[..cuts.len().min(8)], got.len(), msgs.len(), got == msgs));
            }
            out.count("framed_raw_writer_cut_sets");
            out.case(&format!("framed rawwriter cuts {:?}", &cuts[..cuts.len().min(12)]), &format!("{} {}", got.len(), got == msgs));
            drop(s);
        }
        if na.shutdown() { out.violation("[C17,C01] event processing panicked"); }
    }

    // (c) FramedTcp sender -> raw reader: the bytes on the wire are exactly the canonical frames
    mark_scenario(&out, "net_framed (c) FramedTcp sender -> raw reader: the bytes on the wire are exactly the canonical frames");
    {
        let listener = TcpListener::bind("127.0.0.1:0").unwrap();
        let addr = listener.local_addr().unwrap();
        let nb = Net::new();
        let (ep, _) = nb.ctl.connect(t, addr).unwrap();
        let (mut peer, _) = listener.accept().unwrap();
        nb.wait(3000, |ev| ev.iter().any(|e| matches!(e, Ev::Connected(e2, true) if *e2 == ep)));
        let sizes: Vec<usize> = (0..=300).chain([16383, 16384, 16385, 65535, 65536, (1 << 21) - 1, 1 << 21]).collect();
        let msgs: Vec<Vec<u8>> = sizes.iter().enumerate().map(|(i, l)| payload(i as u64 + 100, *l)).collect();
        let expected: Vec<u8> = msgs.iter().flat_map(|m| { let mut f = leb128(m.len() as u64); f.extend_from_slice(m); f }).collect();
        let reader = std::thread::spawn(move || {
            let mut buf = vec![0u8; expected.len()];
            peer.set_read_timeout(Some(Duration::from_secs(8))).unwrap();
            let mut got = 0;
            while got < buf.len() {
                match peer.read(&mut buf[got..]) { Ok(0) => break, Ok(n) => got += n, Err(_) => break }
            }
            buf.truncate(got);
            (buf, expected)
        });
        let st = send_all(&nb.ctl, ep, &msgs);
        if st.iter().any(|s| *s != SendStatus::Sent) { out.violation("[C01,C13] FramedTcp send() to a raw reader did not answer Sent"); }
        let (got, expected) = reader.join().unwrap();
        if got != expected {
            let pos = got.iter().zip(expected.iter()).position(|(x, y)| x != y).unwrap_or(got.len().min(expected.len()));
            // which message does that offset fall into
            let mut o = 0; let mut which = 0;
            for (i, m) in msgs.iter().enumerate() { let l = leb128(m.len() as u64).len() + m.len(); if pos < o + l { which = i; break; } o += l; }
            out.violation(&format!("[C02,C01] bytes written by FramedTcp send() differ from the canonical frames at offset {} (message #{} of {} bytes): the length prefix on the wire is not the canonical varint or the payload is altered", pos, which, msgs[which].len()));
        }
        out.count("framed_wire_bytes_checked");
        out.case("framed wirebytes sizes 0..=300 + boundaries", &format!("{}", got == expected));
        if nb.shutdown() { out.violation("[C17,C01] event processing panicked"); }
    }
    // (d) back-pressure: tens of thousands of small frames against a reader that starts late and
    mark_scenario(&out, "net_framed (d) back-pressure: tens of thousands of small frames against a reader that starts late and");
    //     reads slowly, so that write() accepts only part of a frame now and then
    {
        let listener = TcpListener::bind("127.0.0.1:0").unwrap();
        let addr = listener.local_addr().unwrap();
        let nb = Net::new();
        let (ep, _) = nb.ctl.connect(t, addr).unwrap();
        let (mut peer, _) = listener.accept().unwrap();
        nb.wait(3000, |ev| ev.iter().any(|e| matches!(e, Ev::Connected(e2, true) if *e2 == ep)));
        let n = if a.thorough { 120_000 } else { 40_000 };
        let sizes: Vec<usize> = (0..n).map(|i| (i * 37 + 11) % 900).collect();
        let reader = std::thread::spawn(move || {
            std::thread::sleep(Duration::from_millis(250));
            let mut got = vec![];
            let mut buf = vec![0u8; 7000];
            peer.set_read_timeout(Some(Duration::from_secs(5))).unwrap();
            loop {
                match peer.read(&mut buf) { Ok(0) => break, Ok(k) => { got.extend_from_slice(&buf[..k]); if got.len() % 5 == 0 { std::thread::sleep(Duration::from_micros(50)); } } Err(_) => break }
            }
            got
        });
        let mut expected: Vec<u8> = vec![];
        let mut not_sent = 0;
        for (i, l) in sizes.iter().enumerate() {
            let m = payload(i as u64 + 7000, *l);
            if nb.ctl.send(ep, &m) != SendStatus::Sent { not_sent += 1; }
            expected.extend(leb128(m.len() as u64)); expected.extend(&m);
        }
        nb.ctl.remove(ep.resource_id());
        let got = reader.join().unwrap();
        if got != expected || not_sent > 0 {
            let pos = got.iter().zip(expected.iter()).position(|(x, y)| x != y).unwrap_or(got.len().min(expected.len()));
            out.violation(&format!("[C01] {} small FramedTcp frames sent faster than the peer reads them (write() under back-pressure): the wire carries {} bytes instead of {}, first difference at offset {} although every send() answered Sent ({} did not)", n, got.len(), expected.len(), pos, not_sent));
        }
        out.count("framed_backpressure_small_frames");
        out.case(&format!("framed backpressure n={}", n), &format!("{}", got == expected));
        if nb.shutdown() { out.violation("[C17,C01] event processing panicked"); }
    }
    framed_stalled_reader(&mut out);
    // a backlog of tens of thousands of tiny frames piles up while the node does not poll; then silence
    {
        mark_scenario(&out, "net_framed: 40000 one-byte frames are queued in the socket before the node polls; then the peer stays silent");
        let (ctl, mut processor) = network::split();
        let (_lid, addr) = ctl.listen(t, "127.0.0.1:0").unwrap();
        let mut c = TcpStream::connect(addr).unwrap();
        let n = 40_000usize;
        let wire: Vec<u8> = (0..n).flat_map(|i| [1u8, (i % 251) as u8]).collect();
        c.write_all(&wire).unwrap();
        std::thread::sleep(Duration::from_millis(80));
        let mut got: Vec<u8> = Vec::with_capacity(n);
        let end = Instant::now() + Duration::from_millis(2500);
        while Instant::now() < end && got.len() < n {
            processor.process_poll_event(Some(Duration::from_millis(50)), |e| if let NetEvent::Message(_, d) = e { if d.len() == 1 { got.push(d[0]); } else { got.push(255); } });
        }
        let expected: Vec<u8> = (0..n).map(|i| (i % 251) as u8).collect();
        if got != expected { out.violation(&format!("[C01] {} one-byte FramedTcp messages were queued before the node polled, then the peer went silent: {} delivered within 2.5 s, in order and intact: {}", n, got.len(), got == expected[..got.len().min(n)])); }
        out.count("framed_backlog_of_tiny_frames");
        out.case("framed backlog 40000 tiny frames", &format!("{}", got.len()));
        drop(c);
    }
    server_speaks_first(t, &mut out);
    slow_consumer(t, &mut out);
    long_send_then_other_connection(t, &mut out);
    blocked_send_with_new_connection(t, &mut out);
    out.finish();
}

fn ci_count(_n: &Net) -> usize { 0 }

// ---------------------------------------------------------------------------------------------------
// C11 raw Tcp
// ---------------------------------------------------------------------------------------------------
pub fn run_tcp(a: &Args) {
    let mut out = Out::new(&a.out);
    let mut r = Rng::new(a.seed);
    let t = Transport::Tcp;
    const INPUT_BUFFER_SIZE: usize = 65535; // the documented input buffer size
    let mut lists: Vec<Vec<usize>> = vec![vec![0, 1, 0, 65534, 65535, 65536, 65537, 0, 131070, 131071, 3], vec![1; 200], vec![4 << 20, 1, 2 << 20], vec![0, 0, 0, 5]];
    for _ in 0..(if a.thorough { 60 } else { 5 }) {
        lists.push((0..r.range(1, 30)).map(|_| *r.pick(&[0usize, 1, 100, 65535, 65536, 100_000, 1 << 20])).collect());
    }
    for dir in 0..2 {
        for sizes in &lists {
            let Some((na, nb, _lid, ep_a, ep_b)) = connect_pair(t) else { out.violation("[C11,C03] could not establish a Tcp connection"); continue };
            let (sender, receiver, ep_s, rid) = if dir == 0 { (&nb, &na, ep_b, ep_a.resource_id()) } else { (&na, &nb, ep_a, ep_b.resource_id()) };
            let bufs: Vec<Vec<u8>> = sizes.iter().enumerate().map(|(i, l)| payload(i as u64, *l)).collect();
            let all: Vec<u8> = bufs.concat();
            let st = send_all(&sender.ctl, ep_s, &bufs);
            if st.iter().any(|s| *s != SendStatus::Sent) { out.violation(&format!("[C11,C13] Tcp send() answered {:?}", st.iter().find(|s| **s != SendStatus::Sent))); }
            let total = all.len();
            let ok = receiver.wait(8000, |_| receiver.messages_of(rid).iter().map(|c| c.len()).sum::<usize>() >= total);
            std::thread::sleep(Duration::from_millis(20));
            let chunks = receiver.messages_of(rid);
            let got: Vec<u8> = chunks.concat();
            if !ok || got != all {
                out.violation(&format!("[C11] Tcp byte stream not preserved ({}): sent {} bytes in {} buffers, received {} bytes; equal prefix {} (all bytes delivered within 8 s without further traffic: {})",
                    if dir == 0 { "connector->acceptor" } else { "acceptor->connector" }, total, bufs.len(), got.len(), got.iter().zip(all.iter()).take_while(|(x, y)| x == y).count(), ok));
            }
            if let Some(c) = chunks.iter().find(|c| c.is_empty() || c.len() > INPUT_BUFFER_SIZE) {
                out.violation(&format!("[C11] Tcp Message chunk of {} bytes (must be 1..={})", c.len(), INPUT_BUFFER_SIZE));
            }
            out.count("tcp_mio_to_mio_lists");
            out.add("tcp_bytes", total as u64);
            out.add("tcp_chunks", chunks.len() as u64);
            out.case(&format!("tcp mio dir{} sizes {:?}", dir, &sizes[..sizes.len().min(16)]), &format!("{} {}", got.len(), got == all));
            if na.shutdown() | nb.shutdown() { out.violation("[C17,C11] event processing panicked"); }
        }
    }
    // slow raw reader: partial writes and WouldBlock inside send()
    {
        let listener = TcpListener::bind("127.0.0.1:0").unwrap();
        let addr = listener.local_addr().unwrap();
        let nb = Net::new();
        let (ep, _) = nb.ctl.connect(t, addr).unwrap();
        let (mut peer, _) = listener.accept().unwrap();
        nb.wait(3000, |ev| ev.iter().any(|e| matches!(e, Ev::Connected(e2, true) if *e2 == ep)));
        let bufs: Vec<Vec<u8>> = vec![payload(1, 6 << 20), payload(2, 0), payload(3, 1), payload(4, 3 << 20)];
        let all = bufs.concat();
        let total = all.len();
        let reader = std::thread::spawn(move || {
            let mut got = vec![];
            let mut buf = vec![0u8; 30000];
            peer.set_read_timeout(Some(Duration::from_secs(10))).unwrap();
            while got.len() < total {
                match peer.read(&mut buf) { Ok(0) => break, Ok(n) => { got.extend_from_slice(&buf[..n]); if got.len() % 7 == 0 { std::thread::sleep(Duration::from_micros(200)); } } Err(_) => break }
            }
            got
        });
        let st = send_all(&nb.ctl, ep, &bufs);
        let got = reader.join().unwrap();
        if st.iter().any(|s| *s != SendStatus::Sent) || got != all {
            out.violation(&format!("[C11] Tcp send() against a slow raw reader: statuses {:?}, {} of {} bytes arrived, equal={}", st, got.len(), total, got == all));
        }
        out.count("tcp_slow_raw_reader");
        out.case("tcp slowreader 6MiB,0,1,3MiB", &format!("{}", got == all));
        if nb.shutdown() { out.violation("[C17,C11] event processing panicked"); }
    }
    // raw writer -> Tcp listener
    {
        let na = Net::new();
        let (_lid, addr) = na.ctl.listen(t, "127.0.0.1:0").unwrap();
        let mut s = TcpStream::connect(addr).unwrap();
        let me = s.local_addr().unwrap();
        let data = payload(9, 300_000);
        for c in data.chunks(70_001) { s.write_all(c).unwrap(); }
        let ok = na.wait(5000, |ev| ev.iter().filter_map(|e| match e { Ev::Message(ep, d) if ep.addr() == me => Some(d.len()), _ => None }).sum::<usize>() >= data.len());
        let chunks: Vec<Vec<u8>> = na.snapshot().into_iter().filter_map(|e| match e { Ev::Message(ep, d) if ep.addr() == me => Some(d), _ => None }).collect();
        if !ok || chunks.concat() != data || chunks.iter().any(|c| c.is_empty() || c.len() > INPUT_BUFFER_SIZE) {
            out.violation("[C11] bytes of a raw TCP writer were not delivered unchanged in chunks of 1..=65535 bytes");
        }
        out.count("tcp_raw_writer");
        out.case("tcp rawwriter 300000", &format!("{}", chunks.concat() == data));
        if na.shutdown() { out.violation("[C17,C11] event processing panicked"); }
    }
    // a reader that stalls for seconds in the middle of a large buffer, then goes on: the stream
    // is exactly the concatenation of the buffers whose send() answered Sent
    {
        mark_scenario(&out, "net_tcp: a raw reader that reads nothing for 2.6 s while a 6 MiB buffer is being sent, then reads everything; two more buffers follow");
        let listener = TcpListener::bind("127.0.0.1:0").unwrap();
        let addr = listener.local_addr().unwrap();
        let nb = Net::new();
        let (ep, _) = nb.ctl.connect(t, addr).unwrap();
        let (mut peer, _) = listener.accept().unwrap();
        nb.wait(3000, |ev| ev.iter().any(|e| matches!(e, Ev::Connected(e2, true) if *e2 == ep)));
        let bufs: Vec<Vec<u8>> = vec![payload(11, 6 << 20), payload(12, 1000), payload(13, 70_000)];
        let reader = std::thread::spawn(move || {
            std::thread::sleep(Duration::from_millis(2600));
            let mut got = vec![];
            let mut buf = vec![0u8; 1 << 16];
            peer.set_read_timeout(Some(Duration::from_millis(1500))).unwrap();
            loop { match peer.read(&mut buf) { Ok(0) => break, Ok(n) => got.extend_from_slice(&buf[..n]), Err(_) => break } }
            got
        });
        let st = send_all(&nb.ctl, ep, &bufs);
        let got = reader.join().unwrap();
        let sent: Vec<u8> = bufs.iter().zip(st.iter()).filter(|(_, s)| **s == SendStatus::Sent).flat_map(|(b, _)| b.clone()).collect();
        if got != sent {
            let pos = got.iter().zip(sent.iter()).position(|(x, y)| x != y).unwrap_or(got.len().min(sent.len()));
            out.violation(&format!("[C11,C13] Tcp, reader stalled 2.6 s inside a 6 MiB buffer: send() answered {:?}; the peer received {} bytes, the buffers reported Sent are {} bytes, first difference at offset {} (the byte stream must be exactly the concatenation of the buffers reported Sent)", st, got.len(), sent.len(), pos));
        }
        out.count("tcp_stalled_reader");
        out.case("tcp stalledreader 6MiB,1000,70000", &format!("{}", got == sent));
        if nb.shutdown() { out.violation("[C17,C11] event processing panicked"); }
    }
    server_speaks_first(t, &mut out);
    slow_consumer(t, &mut out);
    long_send_then_other_connection(t, &mut out);
    tcp_burst_before_listener_call(&mut out);
    blocked_send_with_new_connection(t, &mut out);
    out.finish();
}

/// FramedTcp: a raw reader that reads nothing for 2.6 s while a 6 MiB message is being sent, then
/// reads everything: the wire carries exactly the canonical frames of the messages reported Sent
pub fn framed_stalled_reader(out: &mut Out) {
    mark_scenario(out, "net_framed: a raw reader reads nothing for 2.6 s while a 6 MiB message is being sent, then reads everything; two more messages follow");
    let t = Transport::FramedTcp;
    let listener = TcpListener::bind("127.0.0.1:0").unwrap();
    let addr = listener.local_addr().unwrap();
    let nb = Net::new();
    let (ep, _) = nb.ctl.connect(t, addr).unwrap();
    let (mut peer, _) = listener.accept().unwrap();
    nb.wait(3000, |ev| ev.iter().any(|e| matches!(e, Ev::Connected(e2, true) if *e2 == ep)));
    let msgs: Vec<Vec<u8>> = vec![payload(21, 6 << 20), payload(22, 1000), payload(23, 70_000)];
    let reader = std::thread::spawn(move || {
        std::thread::sleep(Duration::from_millis(2600));
        let mut got = vec![];
        let mut buf = vec![0u8; 1 << 16];
        peer.set_read_timeout(Some(Duration::from_millis(1500))).unwrap();
        loop { match peer.read(&mut buf) { Ok(0) => break, Ok(n) => got.extend_from_slice(&buf[..n]), Err(_) => break } }
        got
    });
    let st = send_all(&nb.ctl, ep, &msgs);
    let got = reader.join().unwrap();
    let sent: Vec<u8> = msgs.iter().zip(st.iter()).filter(|(_, s)| **s == SendStatus::Sent).flat_map(|(m, _)| { let mut f = leb128(m.len() as u64); f.extend_from_slice(m); f }).collect();
    if got != sent || st.iter().any(|x| *x != SendStatus::Sent) {
        let pos = got.iter().zip(sent.iter()).position(|(x, y)| x != y).unwrap_or(got.len().min(sent.len()));
        out.violation(&format!("[C01,C13] FramedTcp, reader stalled 2.6 s inside a 6 MiB message: send() answered {:?}; the peer received {} bytes, the frames of the messages reported Sent are {} bytes, first difference at offset {}", st, got.len(), sent.len(), pos));
    }
    out.count("framed_stalled_reader");
    out.case("framed stalledreader 6MiB,1000,70000", &format!("{}", got == sent));
    if nb.shutdown() { out.violation("[C17,C01] event processing panicked"); }
}

/// probe: one peer streams valid tiny frames without pause; does a second, quiet connection of the
/// same node still get its messages delivered meanwhile?
pub fn probe_stream_starvation(out: &mut Out) {
    for t in [Transport::FramedTcp, Transport::Tcp] {
        let node = Net::new();
        let (_l, addr) = node.ctl.listen(t, "127.0.0.1:0").unwrap();
        let (ul, uaddr) = node.ctl.listen(Transport::Udp, "127.0.0.1:0").unwrap();
        let stop = Arc::new(AtomicBool::new(false));
        let written = Arc::new(std::sync::atomic::AtomicU64::new(0));
        let streamer = { let (stop, written) = (stop.clone(), written.clone()); std::thread::spawn(move || { let mut c = TcpStream::connect(addr).unwrap(); let _ = c.set_write_timeout(Some(Duration::from_millis(200))); let chunk: Vec<u8> = (0..4096).flat_map(|_| [1u8, 7u8]).collect(); while !stop.load(Ordering::SeqCst) { if c.write_all(&chunk).is_ok() { written.fetch_add(chunk.len() as u64, Ordering::SeqCst); } } }) };
        std::thread::sleep(Duration::from_millis(100));
        let canary = UdpSocket::bind("127.0.0.1:0").unwrap();
        let t0 = Instant::now();
        let mut lat = vec![];
        for i in 0..10u64 {
            let before = node.messages_of(ul).len();
            canary.send_to(&i.to_le_bytes(), uaddr).unwrap();
            let s0 = Instant::now();
            let ok = { let end = Instant::now() + Duration::from_millis(1500); loop { if node.messages_of(ul).len() > before { break true; } if Instant::now() > end { break false; } std::thread::sleep(Duration::from_millis(1)); } };
            lat.push(if ok { s0.elapsed().as_millis() as i64 } else { -1 });
            std::thread::sleep(Duration::from_millis(50));
        }
        stop.store(true, Ordering::SeqCst);
        let _ = streamer.join();
        out.violation(&format!("PROBE {:?}: streamed {} MiB in {:?}; canary datagram latencies (ms, -1 = not within 1.5 s): {:?}; events recorded {}", t, written.load(Ordering::SeqCst) >> 20, t0.elapsed(), lat, node.snapshot().len()));
        node.shutdown();
    }
}

/// WebSocket flavour of "the peer speaks first": a stock server sends a message right after its
/// side of the handshake and goes silent; also in ONE write together with the 101 response
pub fn ws_server_speaks_first(out: &mut Out) {
    for (variant, late_ms) in [("after the handshake", 0u64), ("after the handshake", 60), ("in the same segment as the 101 response", 0), ("in the same segment as the 101 response", 60)] {
        mark_scenario(out, &format!("Ws: the server sends a message {} and goes silent; the connecting node first polls {} ms later", variant, late_ms));
        let l = TcpListener::bind("127.0.0.1:0").unwrap();
        let (ctl, mut processor) = network::split();
        let (ep, _) = ctl.connect(Transport::Ws, l.local_addr().unwrap()).unwrap();
        let greeting = payload(late_ms + 9, 300);
        let g2 = greeting.clone();
        let same_segment = variant.starts_with("in the same");
        let (done_tx, done_rx) = std::sync::mpsc::channel::<()>();
        let server = std::thread::spawn(move || {
            let (mut s, _) = l.accept().unwrap();
            s.set_read_timeout(Some(Duration::from_secs(3))).unwrap();
            if same_segment {
                let mut reqb = vec![]; let mut b = [0u8; 1024];
                while !reqb.windows(4).any(|w| w == b"\r\n\r\n") { match s.read(&mut b) { Ok(0) | Err(_) => return None, Ok(k) => reqb.extend_from_slice(&b[..k]) } }
                let reqs = String::from_utf8_lossy(&reqb).to_string();
                let key = reqs.lines().find_map(|l| { let (k, v) = l.split_once(':')?; if k.eq_ignore_ascii_case("sec-websocket-key") { Some(v.trim().to_string()) } else { None } }).unwrap_or_default();
                let mut out = format!("HTTP/1.1 101 Switching Protocols\r\nUpgrade: websocket\r\nConnection: Upgrade\r\nSec-WebSocket-Accept: {}\r\n\r\n", tungstenite::handshake::derive_accept_key(key.as_bytes())).into_bytes();
                out.extend([0x82u8, 126, (g2.len() >> 8) as u8, (g2.len() & 0xff) as u8]); out.extend(&g2);
                s.write_all(&out).ok()?;
                let _ = done_rx.recv_timeout(Duration::from_millis(2500));
                Some(())
            } else {
                let mut ws = ws_accept(s).ok()?;
                ws.send(tungstenite::Message::Binary(g2.into())).ok()?;
                let _ = done_rx.recv_timeout(Duration::from_millis(2500));
                Some(())
            }
        });
        std::thread::sleep(Duration::from_millis(late_ms));
        let (mut connected, mut data) = (false, vec![]);
        let end = Instant::now() + Duration::from_millis(1500);
        while Instant::now() < end && data.is_empty() {
            processor.process_poll_event(Some(Duration::from_millis(20)), |e| match e { NetEvent::Connected(e2, true) if e2 == ep => connected = true, NetEvent::Message(e2, d) if e2 == ep => data = d.to_vec(), _ => {} });
        }
        if !connected || data != greeting {
            out.violation(&format!("[C01,C03] Ws: the server's first message ({} bytes, sent {}) while it then stays silent; the connecting node first polled {} ms after connect(): Connected(true)={}, message delivered within 1.5 s: {}", greeting.len(), variant, late_ms, connected, data == greeting));
        }
        out.count("ws_server_speaks_first");
        out.case(&format!("ws speaksfirst {} late {}", if same_segment { "same-segment" } else { "after" }, late_ms), &format!("{} {}", connected, data == greeting));
        let _ = done_tx.send(());
        let _ = server.join();
    }
}

/// the deterministic form of the above (hook): every write of the node's websocket stream lingers
/// 3 ms, so the server's 101 answer AND its first message are already there when the connector's
/// handshake step goes on to read: the step that completes the handshake is the one that was
/// started by the WRITE event of the TCP connect
pub fn ws_handshake_completed_by_write_event(out: &mut Out) {
    mark_scenario(out, "Ws: the connector's handshake completes inside the step started by the write event (3 ms hook delay after each write); the server's first message is already buffered");
    for rep in 0..4u64 {
        let l = TcpListener::bind("127.0.0.1:0").unwrap();
        let laddr = l.local_addr().unwrap();
        let greeting = payload(rep + 77, 150);
        let g2 = greeting.clone();
        let (done_tx, done_rx) = std::sync::mpsc::channel::<()>();
        let server = std::thread::spawn(move || { let (s, _) = l.accept().ok()?; let mut ws = ws_accept(s).ok()?; ws.send(tungstenite::Message::Binary(g2.into())).ok()?; let _ = done_rx.recv_timeout(Duration::from_millis(2500)); Some(()) });
        message_io::verif::set_ws_write_delay_us(3000);
        let (ctl, mut processor) = network::split();
        let (ep, _) = ctl.connect(Transport::Ws, laddr).unwrap();
        let (mut connected, mut data) = (false, vec![]);
        let end = Instant::now() + Duration::from_millis(1500);
        while Instant::now() < end && data.is_empty() {
            processor.process_poll_event(Some(Duration::from_millis(20)), |e| match e { NetEvent::Connected(e2, true) if e2 == ep => connected = true, NetEvent::Message(e2, d) if e2 == ep => data = d.to_vec(), _ => {} });
        }
        message_io::verif::set_ws_write_delay_us(0);
        if !connected || data != greeting {
            out.violation(&format!("[C01,C03] Ws connector: the server answered the handshake and sent its first message while the connector was still inside the handshake step started by the write event of the TCP connect; then silence: Connected(true)={}, the message was delivered within 1.5 s: {}", connected, data == greeting));
        }
        out.count("ws_handshake_completed_by_write_event");
        out.case(&format!("ws handshake-in-write-step rep {}", rep), &format!("{} {}", connected, data == greeting));
        let _ = done_tx.send(());
        let _ = server.join();
    }
}

/// the same against a node whose processor thread is already polling when the handshake answer and
/// the server's first message arrive a few microseconds apart
pub fn ws_server_speaks_first_threaded(out: &mut Out, reps: usize) {
    mark_scenario(out, "Ws: a stock server sends a message right after its handshake and goes silent; the connecting node's processor thread is running");
    for rep in 0..reps {
        let l = TcpListener::bind("127.0.0.1:0").unwrap();
        let node = Net::new();
        let (ep, _) = node.ctl.connect(Transport::Ws, l.local_addr().unwrap()).unwrap();
        let greeting = payload(rep as u64 + 31, 200 + rep % 50);
        let g2 = greeting.clone();
        let (done_tx, done_rx) = std::sync::mpsc::channel::<()>();
        let close_frame = rep % 3 == 2;
        let server = std::thread::spawn(move || {
            let (s, _) = l.accept().ok()?; let mut ws = ws_accept(s).ok()?; ws.send(tungstenite::Message::Binary(g2.into())).ok()?;
            let mut peer_closed_tcp = true;
            if close_frame {
                // a close frame, then the server KEEPS its TCP connection open: the node must release its socket
                let _ = ws.close(None); let _ = ws.flush();
                let _ = ws.get_mut().set_read_timeout(Some(Duration::from_millis(2000)));
                peer_closed_tcp = false;
                for _ in 0..20 { match ws.read() { Err(tungstenite::Error::ConnectionClosed) | Err(tungstenite::Error::AlreadyClosed) => { peer_closed_tcp = true; break; } Err(tungstenite::Error::Io(e)) if e.kind() == std::io::ErrorKind::WouldBlock || e.kind() == std::io::ErrorKind::TimedOut => break, Err(_) => { peer_closed_tcp = true; break; } Ok(_) => {} } }
            }
            let _ = done_rx.recv_timeout(Duration::from_millis(2500));
            Some(peer_closed_tcp)
        });
        let ok = node.wait(500, |ev| ev.iter().any(|e| matches!(e, Ev::Message(e2, d) if *e2 == ep && *d == greeting)));
        let okd = !close_frame || node.wait(500, |ev| ev.iter().any(|e| matches!(e, Ev::Disconnected(e2) if *e2 == ep)));
        let _ = done_tx.send(());
        let server_saw_close = server.join().ok().flatten().unwrap_or(false);
        if close_frame && !server_saw_close { out.violation("[C18,C04] Ws connector: the server sent a close frame and kept its TCP connection open; 2 s later the node still had not closed its socket"); }
        if !ok || !okd { out.violation(&format!("[C01,C03,C04,C18] Ws connector, running processor: the stock server's first message right after the handshake{} then silence: message delivered within 2 s: {}, Disconnected after the close frame: {} (events: {:?}; greeting {} bytes)", if close_frame { " followed by a close frame" } else { "" }, ok, okd, node.snapshot().iter().map(|e| match e { Ev::Connected(_, b) => format!("Connected({})", b), Ev::Accepted(..) => "Accepted".to_string(), Ev::Message(_, d) => format!("Message({} bytes, equal {})", d.len(), *d == greeting), Ev::Disconnected(_) => "Disconnected".to_string() }).collect::<Vec<_>>(), greeting.len())); }
        out.count("ws_server_speaks_first_threaded");
        if node.shutdown() { out.violation("[C17,C01] event processing panicked"); }
    }
    out.case("ws speaksfirst threaded", "ok");
}

/// a slow consumer: the callback takes 120 ms per Message while the peer has already sent everything
/// and then stays silent; every byte / message still arrives, in order, without further traffic
pub fn slow_consumer(t: Transport, out: &mut Out) {
    mark_scenario(out, &format!("{:?}: a raw peer sends everything at once and goes silent; the node's callback takes 120 ms per Message", t));
    let node = Net::with_opts(None, 120);
    let (_lid, addr) = node.ctl.listen(t, "127.0.0.1:0").unwrap();
    let (wire, expect_msgs, expect_bytes): (Vec<u8>, Vec<Vec<u8>>, Vec<u8>) = match t {
        Transport::Tcp => { let d = payload(61, 640 << 10); (d.clone(), vec![], d) }
        _ => { let ms: Vec<Vec<u8>> = (0..10).map(|i| payload(70 + i, 3000 + 60_000 * (i as usize % 2))).collect();
               (ms.iter().flat_map(|m| { let mut f = leb128(m.len() as u64); f.extend_from_slice(m); f }).collect(), ms, vec![]) }
    };
    let mut s = TcpStream::connect(addr).unwrap();
    s.write_all(&wire).unwrap();
    let total: usize = if t == Transport::Tcp { expect_bytes.len() } else { expect_msgs.len() };
    let done = |ev: &[Ev]| -> bool { if t == Transport::Tcp { ev.iter().filter_map(|e| if let Ev::Message(_, d) = e { Some(d.len()) } else { None }).sum::<usize>() >= total } else { ev.iter().filter(|e| matches!(e, Ev::Message(..))).count() >= total } };
    let ok = node.wait(4000, done);
    let got: Vec<Vec<u8>> = node.snapshot().into_iter().filter_map(|e| if let Ev::Message(_, d) = e { Some(d) } else { None }).collect();
    let intact = if t == Transport::Tcp { got.concat() == expect_bytes } else { got == expect_msgs };
    if !ok || !intact {
        out.violation(&format!("[C11,C01] {:?}, slow consumer (120 ms per Message), peer silent after sending {} bytes: {} Message events with {} bytes delivered within 16 s, complete and unchanged: {}", t, wire.len(), got.len(), got.iter().map(|d| d.len()).sum::<usize>(), intact));
    }
    out.count("slow_consumer");
    out.case(&format!("slowconsumer {:?}", t), &format!("{}", intact));
    drop(s);
    if node.shutdown() { out.violation("[C17] event processing panicked"); }
}

/// a long send() from another thread to a peer that reads late, inbound data on the same
/// connection meanwhile, and afterwards a message on ANOTHER connection of the same node: the node
/// keeps serving all of them
pub fn long_send_then_other_connection(t: Transport, out: &mut Out) {
    mark_scenario(out, &format!("{:?}: 8 MiB sent to a peer that reads late and talks back meanwhile; afterwards another connection sends a short message", t));
    let node = Net::new();
    let (_lid, addr) = node.ctl.listen(t, "127.0.0.1:0").unwrap();
    let l = TcpListener::bind("127.0.0.1:0").unwrap();
    let (ep, _) = node.ctl.connect(t, l.local_addr().unwrap()).unwrap();
    let (mut p, _) = l.accept().unwrap();
    node.wait(3000, |ev| ev.iter().any(|e| matches!(e, Ev::Connected(e2, true) if *e2 == ep)));
    let big = payload(88, 8 << 20);
    let expect_wire: Vec<u8> = if t == Transport::FramedTcp { let mut f = leb128(big.len() as u64); f.extend_from_slice(&big); f } else { big.clone() };
    let sender = { let (ctl, big) = (node.ctl.clone(), big.clone()); std::thread::spawn(move || ctl.send(ep, &big)) };
    std::thread::sleep(Duration::from_millis(300));
    let back: Vec<u8> = if t == Transport::FramedTcp { vec![2, b'h', b'i'] } else { b"hi".to_vec() };
    p.write_all(&back).unwrap();
    std::thread::sleep(Duration::from_millis(100));
    let mut got = vec![0u8; expect_wire.len()];
    p.set_read_timeout(Some(Duration::from_secs(10))).unwrap();
    let mut n = 0; while n < got.len() { match p.read(&mut got[n..]) { Ok(0) | Err(_) => break, Ok(k) => n += k } }
    let st = sender.join().unwrap();
    if st != SendStatus::Sent || n != expect_wire.len() || got != expect_wire { out.violation(&format!("[C11,C01] {:?}: an 8 MiB send to a late reader answered {:?}; the peer received {} of {} bytes, unchanged: {}", t, st, n, expect_wire.len(), got == expect_wire)); }
    // now everything is idle; another peer of the same node speaks
    let mut c = TcpStream::connect(addr).unwrap();
    let me = c.local_addr().unwrap();
    let hello: Vec<u8> = if t == Transport::FramedTcp { let mut v = vec![12u8]; v.extend(b"are you here"); v } else { b"are you here".to_vec() };
    c.write_all(&hello).unwrap();
    let ok = node.wait(2500, |ev| ev.iter().any(|e| matches!(e, Ev::Message(e2, d) if e2.addr() == me && d == b"are you here")));
    let okb = node.wait(500, |ev| ev.iter().any(|e| matches!(e, Ev::Message(e2, d) if *e2 == ep && d == b"hi")));
    if !ok || !okb { out.violation(&format!("[C11,C01,C17] {:?}: after a long send to a late reader (who talked back meanwhile) the node stopped delivering: the reader's 'hi' delivered: {}, a message on ANOTHER connection delivered within 10 s: {}", t, okb, ok)); }
    out.count("long_send_then_other_connection");
    out.case(&format!("longsend-other {:?}", t), &format!("{} {}", ok, okb));
    drop(p); drop(c);
    if node.shutdown() { out.violation("[C17] event processing panicked or wedged"); }
}


/// a send() from a user thread is blocked by a peer that does not read yet; MEANWHILE a new peer connects
/// to the same node and sends a short message: it is delivered while the send is still blocked
pub fn blocked_send_with_new_connection(t: Transport, out: &mut Out) {
    mark_scenario(out, &format!("{:?}: while an 8 MiB send is blocked by a peer that reads 1.5 s later, a NEW peer connects to the node and sends a short message", t));
    let node = Net::new();
    let (_lid, addr) = node.ctl.listen(t, "127.0.0.1:0").unwrap();
    let l = TcpListener::bind("127.0.0.1:0").unwrap();
    let (ep, _) = node.ctl.connect(t, l.local_addr().unwrap()).unwrap();
    let (mut p, _) = l.accept().unwrap();
    node.wait(3000, |ev| ev.iter().any(|e| matches!(e, Ev::Connected(e2, true) if *e2 == ep)));
    let big = payload(89, 8 << 20);
    let wire_len = big.len() + if t == Transport::FramedTcp { leb128(big.len() as u64).len() } else { 0 };
    let t_send = Instant::now();
    let sender = { let (ctl, big) = (node.ctl.clone(), big.clone()); std::thread::spawn(move || { let st = ctl.send(ep, &big); (st, Instant::now()) }) };
    std::thread::sleep(Duration::from_millis(250));
    let mut c = TcpStream::connect(addr).unwrap();
    let me = c.local_addr().unwrap();
    let hello: Vec<u8> = if t == Transport::FramedTcp { let mut v = vec![12u8]; v.extend(b"are you here"); v } else { b"are you here".to_vec() };
    let t_hello = Instant::now();
    c.write_all(&hello).unwrap();
    let ok = node.wait(250, |ev| ev.iter().any(|e| matches!(e, Ev::Message(e2, d) if e2.addr() == me && d == b"are you here")));
    let waited = t_hello.elapsed();
    // the late reader starts reading 1.5 s after the send began
    let rest = Duration::from_millis(1500).saturating_sub(t_send.elapsed());
    std::thread::sleep(rest);
    let mut got = vec![0u8; 1 << 16];
    p.set_read_timeout(Some(Duration::from_secs(10))).unwrap();
    let mut n = 0; while n < wire_len { match p.read(&mut got) { Ok(0) | Err(_) => break, Ok(k) => n += k } }
    let (st, t_done) = sender.join().unwrap();
    let blocked_long_enough = t_done.duration_since(t_send) > Duration::from_millis(1400);
    if !ok && blocked_long_enough {
        let later = node.wait(3000, |ev| ev.iter().any(|e| matches!(e, Ev::Message(e2, d) if e2.addr() == me && d == b"are you here")));
        out.violation(&format!("[C11,C01,C17] {:?}: a user thread is blocked in send() of 8 MiB (the peer starts reading 1.5 s later); 250 ms into it a NEW peer connected to the node's listener and sent 12 bytes: not delivered after {} ms (delivered once the blocked send had finished: {}); bytes sent on one connection must arrive within bounded time whatever another connection's reader does", t, waited.as_millis(), later));
    }
    if st != SendStatus::Sent || n != wire_len { out.violation(&format!("[C11,C01] {:?}: the 8 MiB send to a late reader answered {:?}; the peer received {} of {} bytes", t, st, n, wire_len)); }
    out.count("blocked_send_with_new_connection");
    out.case(&format!("blockedsend-newconn {:?}", t), &format!("{}", ok || !blocked_long_enough));
    drop(p); drop(c);
    if node.shutdown() { out.violation("[C17] event processing panicked or wedged"); }
}

/// a Tcp peer writes 300000 bytes between node::split() and the listener call: the replayed Message
/// chunks are non-empty, at most the documented input buffer size, and concatenate to what was written
pub fn tcp_burst_before_listener_call(out: &mut Out) {
    use message_io::node::{self, NodeEvent};
    for enq in [false, true] {
        mark_scenario(out, &format!("Tcp: 300000 bytes arrive between node::split() and {}", if enq { "enqueue()" } else { "for_each_async()" }));
        let (handler, listener) = node::split::<()>();
        let (_lid, addr) = handler.network().listen(Transport::Tcp, "127.0.0.1:0").unwrap();
        let mut c = TcpStream::connect(addr).unwrap();
        let data = payload(90, 300_000);
        c.write_all(&data).unwrap();
        std::thread::sleep(Duration::from_millis(200));
        let chunks: Arc<Mutex<Vec<Vec<u8>>>> = Arc::new(Mutex::new(vec![]));
        let total = |ch: &Arc<Mutex<Vec<Vec<u8>>>>| ch.lock().unwrap().iter().map(|c| c.len()).sum::<usize>();
        let end = Instant::now() + Duration::from_secs(4);
        if enq {
            let (mut task, mut receiver) = listener.enqueue();
            while total(&chunks) < data.len() && Instant::now() < end {
                if let Some(node::StoredNodeEvent::Network(node::StoredNetEvent::Message(_, d))) = receiver.receive_timeout(Duration::from_millis(20)) { chunks.lock().unwrap().push(d); }
            }
            handler.stop();
            task.wait();
        } else {
            let ch = chunks.clone();
            let mut task = listener.for_each_async(move |ev| if let NodeEvent::Network(NetEvent::Message(_, d)) = ev { ch.lock().unwrap().push(d.to_vec()); });
            while total(&chunks) < data.len() && Instant::now() < end { std::thread::sleep(Duration::from_millis(5)); }
            handler.stop();
            task.wait();
        }
        let _ = message_io::verif::take();
        let ch = chunks.lock().unwrap().clone();
        let sizes: Vec<usize> = ch.iter().map(|c| c.len()).collect();
        if ch.concat() != data || sizes.iter().any(|l| *l == 0 || *l > 65535) {
            out.violation(&format!("[C11,C15] a Tcp peer wrote 300000 bytes between node::split() and {}: Message chunk sizes {:?} (each must be 1..=65535, the documented input buffer size); concatenation equals what was written: {}", if enq { "enqueue()" } else { "for_each_async()" }, &sizes[..sizes.len().min(12)], ch.concat() == data));
        }
        out.count("tcp_burst_before_listener_call");
        drop(c);
    }
}

/// the peer sends its greeting right after accepting and then stays silent, and the connecting
/// node is late to look at its poll (the "connect finished" and the "readable" notifications arrive
/// merged): Connected must be followed by the greeting without any further traffic
pub fn server_speaks_first(t: Transport, out: &mut Out) {
    for late_ms in [0u64, 40, 120] {
        mark_scenario(out, &format!("{:?}: the peer greets right after accept and goes silent; the connecting node first polls {} ms later", t, late_ms));
        let l = TcpListener::bind("127.0.0.1:0").unwrap();
        let (ctl, mut processor) = network::split();
        let (ep, _) = ctl.connect(t, l.local_addr().unwrap()).unwrap();
        let (mut peer, _) = l.accept().unwrap();
        let greeting = payload(late_ms + 1, 100);
        let mut wire = vec![]; if t == Transport::FramedTcp { wire.extend(leb128(greeting.len() as u64)); } wire.extend(&greeting);
        peer.write_all(&wire).unwrap();
        std::thread::sleep(Duration::from_millis(late_ms));
        let mut connected = false;
        let mut data: Vec<u8> = vec![];
        let end = Instant::now() + Duration::from_millis(1500);
        while Instant::now() < end && data.len() < greeting.len() {
            processor.process_poll_event(Some(Duration::from_millis(20)), |e| match e {
                NetEvent::Connected(e2, true) if e2 == ep => connected = true,
                NetEvent::Message(e2, d) if e2 == ep => data.extend_from_slice(d),
                _ => {}
            });
        }
        if !connected || data != greeting {
            out.violation(&format!("[C03,C11,C01] {:?}: the peer sent {} bytes right after accepting and went silent; the connecting node polled {} ms later: Connected(true)={}, {} bytes of the greeting delivered within 1.5 s", t, greeting.len(), late_ms, connected, data.len()));
        }
        out.count("server_speaks_first");
        out.case(&format!("speaksfirst {:?} late {}", t, late_ms), &format!("{} {}", connected, data == greeting));
        drop(peer);
    }
}

// ---------------------------------------------------------------------------------------------------
// C12 UDP
// ---------------------------------------------------------------------------------------------------
pub fn run_udp(a: &Args) {
    let mut out = Out::new(&a.out);
    let t = Transport::Udp;
    let max = Transport::Udp.max_message_size();
    let sizes: Vec<usize> = if a.thorough { (0..=max).step_by(1).collect() } else {
        let mut v: Vec<usize> = vec![0, 1, 2, 127, 128, 1471, 1472, 1473, 8191, 8192, 9216, 16384, 32768, 65000, max - 2, max - 1, max];
        v.extend((0..40).map(|i| i * 1637 + 11)); v
    };
    // listener with several raw senders; replies through the reported endpoint and through from_listener
    // (batches of 300 sizes, each on a fresh listener: the event log of one node stays small)
    let mut last: Option<(Net, ResourceId, Vec<UdpSocket>, SocketAddr)> = None;
    let mut base = 0usize;
    for batch in sizes.chunks(300) {
        if let Some((old, _, _, _)) = last.take() { if old.shutdown() { out.violation("[C17,C12] event processing panicked"); } }
        let na = Net::new();
        let (lid, addr) = na.ctl.listen(t, "127.0.0.1:0").unwrap();
        let socks: Vec<UdpSocket> = (0..3).map(|_| { let s = UdpSocket::bind("127.0.0.1:0").unwrap(); s.set_read_timeout(Some(Duration::from_millis(1500))).unwrap(); s }).collect();
        let mut sent: Vec<(SocketAddr, Vec<u8>)> = vec![];
        for (i0, &l) in batch.iter().enumerate() {
            let i = base + i0;
            let s = &socks[i % socks.len()];
            let p = payload(i as u64, l);
            s.send_to(&p, addr).unwrap();
            sent.push((s.local_addr().unwrap(), p));
            if i % 8 == 7 || l > 20000 {
                // paced: wait for delivery so that nothing is dropped by a full socket buffer
                let n = sent.len();
                na.wait(2000, |ev| ev.len() >= n);
            }
        }
        base += batch.len();
        let n = sent.len();
        let ok = na.wait(3000, |ev| ev.len() >= n);
        let got: Vec<(ResourceId, SocketAddr, Vec<u8>)> = na.snapshot().into_iter().filter_map(|e| match e { Ev::Message(ep, d) => Some((ep.resource_id(), ep.addr(), d)), _ => None }).collect();
        if !ok || got.len() != n {
            out.violation(&format!("[C12] {} paced datagrams (sizes {}..={}) sent to an idle loopback listener, {} delivered", n, batch[0], batch[batch.len() - 1], got.len()));
        }
        // every delivered datagram is byte-identical to exactly one sent one, with the listener id and the sender's address
        let mut remaining = sent.clone();
        for (id, from, d) in &got {
            if *id != lid { out.violation(&format!("[C12] datagram reported with resource id {} instead of the listener id {}", id, lid)); }
            match remaining.iter().position(|(a2, p)| a2 == from && p == d) {
                Some(i) => { remaining.remove(i); }
                None => {
                    let same_payload = sent.iter().any(|(_, p)| p == d);
                    out.violation(&format!("[C12] delivered datagram of {} bytes from {} matches no datagram sent from that address (payload exists from another sender: {}; truncated/merged/duplicated otherwise)", d.len(), from, same_payload));
                }
            }
        }
        out.add("udp_datagrams", n as u64);
        out.case(&format!("udp listener sizes {}..={} n={}", batch[0], batch[batch.len() - 1], n), &format!("{} {}", got.len(), remaining.len()));
        last = Some((na, lid, socks, addr));
    }
    let (na, lid, socks, addr) = last.unwrap();
    // replies: through the reported endpoint and through from_listener
    for (k, s) in socks.iter().enumerate() {
        let me = s.local_addr().unwrap();
        let reported = na.snapshot().into_iter().find_map(|e| match e { Ev::Message(ep, _) if ep.addr() == me => Some(ep), _ => None });
        for (which, ep) in [("reported", reported), ("from_listener", Some(Endpoint::from_listener(lid, me)))] {
            let Some(ep) = ep else { continue };
            let p = payload(1000 + k as u64, 100 + k);
            let st = na.ctl.send(ep, &p);
            let mut buf = vec![0u8; 70000];
            match s.recv_from(&mut buf) {
                Ok((len, from)) if buf[..len] == p[..] && from == addr && st == SendStatus::Sent => {}
                other => out.violation(&format!("[C12] reply through the {} endpoint did not reach the datagram's sender: status {:?}, received {:?}", which, st, other.map(|x| x.0))),
            }
            out.count("udp_replies");
        }
    }
    if na.shutdown() { out.violation("[C17,C12] event processing panicked"); }
    // connected sockets in both directions (message-io <-> message-io)
    if let Some((na, nb, lid2, _ep_a, ep_b)) = connect_pair(t) {
        let ms: Vec<Vec<u8>> = [0usize, 1, 1472, 9000, 40000, max].iter().enumerate().map(|(i, l)| payload(i as u64 + 50, *l)).collect();
        for m in &ms { let st = nb.ctl.send(ep_b, m); if st != SendStatus::Sent { out.violation(&format!("[C12,C13] Udp send of {} bytes answered {:?}", m.len(), st)); } na.wait(1000, |_| na.messages_of(lid2).len() >= 1); std::thread::sleep(Duration::from_millis(2)); }
        let okk = na.wait(3000, |_| na.messages_of(lid2).len() >= ms.len());
        let g = na.messages_of(lid2);
        if !okk || g != ms { out.violation(&format!("[C12] connected Udp socket -> listener: {} of {} datagrams delivered, identical={}", g.len(), ms.len(), g == ms)); }
        // reply from the listener to the connected socket through the reported endpoint
        if let Some(rep) = na.snapshot().into_iter().find_map(|e| match e { Ev::Message(ep, _) => Some(ep), _ => None }) {
            for (k, len) in [0usize, 333, 1472, 1473, 9000, 40000, max].iter().enumerate() {
                let p = payload(77 + k as u64, *len);
                let before = nb.messages_of(ep_b.resource_id()).len();
                let st = na.ctl.send(rep, &p);
                let ok = nb.wait(2000, |_| nb.messages_of(ep_b.resource_id()).len() > before);
                let last = nb.messages_of(ep_b.resource_id()).last().cloned();
                if st != SendStatus::Sent || !ok || last.as_ref() != Some(&p) { out.violation(&format!("[C12] reply of {} bytes from the listener to a connected Udp socket (through the reported endpoint): send {:?}, delivered {}, {} bytes arrived, identical: {}", len, st, ok, last.as_ref().map(|d| d.len()).unwrap_or(0), last.as_ref() == Some(&p))); }
                out.count("udp_replies_to_connected_socket");
            }
        }
        out.count("udp_connected_both_directions");
        out.case("udp connected", &format!("{}", g == ms));
        if na.shutdown() | nb.shutdown() { out.violation("[C17,C12] event processing panicked"); }
    }
    // endpoints of different peers of ONE listener are different values (Eq and Hash), and a
    // connected socket (default or broadcast-enabled) reports only its peer's datagrams
    {
        use std::collections::HashSet;
        mark_scenario(&out, "net_udp: two peers of one listener; a stranger sends to the local port of a connected socket (default and with_broadcast)");
        let na = Net::new();
        let (lid, addr) = na.ctl.listen(t, "127.0.0.1:0").unwrap();
        let (p1, p2) = (UdpSocket::bind("127.0.0.1:0").unwrap(), UdpSocket::bind("127.0.0.1:0").unwrap());
        p1.send_to(b"one", addr).unwrap(); p2.send_to(b"two", addr).unwrap();
        na.wait(2000, |ev| ev.len() >= 2);
        let eps: Vec<Endpoint> = na.snapshot().into_iter().filter_map(|e| if let Ev::Message(ep, _) = e { Some(ep) } else { None }).collect();
        let set: HashSet<Endpoint> = eps.iter().cloned().collect();
        if eps.len() != 2 || eps[0] == eps[1] || set.len() != 2 || eps.iter().any(|e| e.resource_id() != lid) {
            out.violation(&format!("[C14,C12] two different peers ({}, {}) sent to one Udp listener: reported endpoints {:?}; equal as values: {}, distinct hash keys: {} (an endpoint identifies ONE peer)", p1.local_addr().unwrap(), p2.local_addr().unwrap(), eps.iter().map(|e| e.to_string()).collect::<Vec<_>>(), eps.len() == 2 && eps[0] == eps[1], set.len()));
        }
        // answers through the two endpoints reach the two peers respectively
        for (i, ep) in eps.iter().enumerate() { na.ctl.send(*ep, format!("answer-{}", i).as_bytes()); }
        for (i, p) in [&p1, &p2].iter().enumerate() {
            p.set_read_timeout(Some(Duration::from_millis(1500))).unwrap();
            let mut b = [0u8; 32];
            let got = p.recv_from(&mut b).ok().map(|(n, _)| String::from_utf8_lossy(&b[..n]).to_string());
            let want = eps.iter().position(|e| e.addr() == p.local_addr().unwrap()).map(|k| format!("answer-{}", k));
            if got != want { out.violation(&format!("[C14,C12] peer {} of a Udp listener received {:?}, the answer sent through ITS endpoint was {:?}", i + 1, got, want)); }
        }
        out.count("udp_two_peers_one_listener");
        if na.shutdown() { out.violation("[C17,C12] event processing panicked"); }
        for broadcast in [false, true] {
            use message_io::network::TransportConnect;
            use message_io::adapters::udp::UdpConnectConfig;
            let node = Net::new();
            let peer = UdpSocket::bind("127.0.0.1:0").unwrap();
            let cfg = if broadcast { UdpConnectConfig::default().with_broadcast() } else { UdpConnectConfig::default() };
            let (ep, local) = node.ctl.connect_with(TransportConnect::Udp(cfg), peer.local_addr().unwrap()).unwrap();
            node.wait(2000, |ev| ev.iter().any(|e| matches!(e, Ev::Connected(e2, true) if *e2 == ep)));
            let stranger = UdpSocket::bind("127.0.0.1:0").unwrap();
            stranger.send_to(b"from a stranger", local).unwrap();
            std::thread::sleep(Duration::from_millis(60));
            peer.send_to(b"from the peer", local).unwrap();
            node.wait(1500, |ev| ev.iter().any(|e| matches!(e, Ev::Message(_, d) if d == b"from the peer")));
            let msgs: Vec<(Endpoint, Vec<u8>)> = node.snapshot().into_iter().filter_map(|e| if let Ev::Message(e2, d) = e { Some((e2, d)) } else { None }).collect();
            if msgs.iter().any(|(_, d)| d == b"from a stranger") || !msgs.iter().any(|(e2, d)| *e2 == ep && d == b"from the peer") {
                out.violation(&format!("[C14,C12] Udp connect{} to {}: a datagram sent by the stranger {} to the connection's local port was reported as {:?} (every event carries the endpoint of the connection it occurred on; the peer's own datagram delivered: {})", if broadcast { "_with(with_broadcast)" } else { "" }, peer.local_addr().unwrap(), stranger.local_addr().unwrap(), msgs.iter().find(|(_, d)| d == b"from a stranger").map(|(e2, _)| e2.to_string()), msgs.iter().any(|(e2, d)| *e2 == ep && d == b"from the peer")));
            }
            out.count("udp_stranger_to_connected_socket");
            if node.shutdown() { out.violation("[C17,C12] event processing panicked"); }
        }
    }
    // rarely used listener configurations: broadcast-filtered listener, dual-stack wildcard, multicast group
    {
        use message_io::network::TransportListen;
        use message_io::adapters::udp::UdpListenConfig;
        // (i) a listener that filters its input by destination address: a stray datagram (to 127.0.0.2) queued
        //     IN FRONT of a valid one (to 127.0.0.1) while the node does not poll; then silence
        mark_scenario(&out, "net_udp: listener with_receive_broadcasts; a datagram to another local address queued in front of a valid one; then silence");
        let (ctl, mut processor) = network::split();
        match ctl.listen_with(TransportListen::Udp(UdpListenConfig::default().with_receive_broadcasts()), "127.0.0.1:0") {
            Ok((_lid, addr)) => {
                let peer = UdpSocket::bind("127.0.0.1:0").unwrap();
                let stray_to = SocketAddr::from(([127, 0, 0, 2], addr.port()));
                let _ = peer.send_to(b"stray", stray_to);
                peer.send_to(b"first", addr).unwrap();
                let _ = peer.send_to(b"stray", stray_to);
                peer.send_to(b"second", addr).unwrap();
                std::thread::sleep(Duration::from_millis(60));
                let mut got: Vec<Vec<u8>> = vec![];
                let end = Instant::now() + Duration::from_millis(1000);
                while Instant::now() < end && got.len() < 2 { processor.process_poll_event(Some(Duration::from_millis(30)), |e| if let NetEvent::Message(_, d) = e { got.push(d.to_vec()); }); }
                if got != vec![b"first".to_vec(), b"second".to_vec()] { out.violation(&format!("[C12] Udp listener with_receive_broadcasts on {}: 'first' and 'second' were sent to it with datagrams for another local address in between, all queued before the node polled, then silence: delivered {:?}", addr, got.iter().map(|d| String::from_utf8_lossy(d).to_string()).collect::<Vec<_>>())); }
                out.count("udp_filtered_listener_with_strays");
            }
            Err(_) => out.count("udp_filtered_listener_unavailable"),
        }
        // (ii) a wildcard IPv6 listener is dual-stack: an IPv4 sender is served and answered
        mark_scenario(&out, "net_udp: listener on [::]:0 with an IPv4 sender");
        let na = Net::new();
        if let Ok((lid6, a6)) = na.ctl.listen(t, "[::]:0") {
            let s4 = UdpSocket::bind("127.0.0.1:0").unwrap();
            s4.set_read_timeout(Some(Duration::from_millis(1500))).unwrap();
            if s4.send_to(b"from ipv4", SocketAddr::from(([127, 0, 0, 1], a6.port()))).is_ok() {
                let ok = na.wait(1500, |ev| ev.iter().any(|e| matches!(e, Ev::Message(_, d) if d == b"from ipv4")));
                let rep = na.snapshot().into_iter().find_map(|e| match e { Ev::Message(ep, d) if d == b"from ipv4" => Some(ep), _ => None });
                let mut back = None;
                if let Some(ep) = rep { if ep.resource_id() == lid6 { na.ctl.send(ep, b"to ipv4"); let mut b = [0u8; 32]; back = s4.recv_from(&mut b).ok().map(|(n, _)| b[..n].to_vec()); } }
                if !ok || back.as_deref() != Some(&b"to ipv4"[..]) { out.violation(&format!("[C12] Udp listener on [::]:{} (dual stack): a datagram from the IPv4 sender {} delivered: {}, the answer through the reported endpoint reached it: {}", a6.port(), s4.local_addr().unwrap(), ok, back.is_some())); }
                out.count("udp_dual_stack_listener_ipv4_sender");
            }
        } else { out.count("udp_ipv6_wildcard_unavailable"); }
        if na.shutdown() { out.violation("[C17,C12] event processing panicked"); }
        // (iii) a multicast listener sends to its own group through from_listener: another member on this host gets it
        mark_scenario(&out, "net_udp: multicast listener sends to the group through Endpoint::from_listener; a second member on the same host");
        let nm = Net::new();
        let group: SocketAddr = "239.255.0.77:0".parse().unwrap();
        let port = { let p = UdpSocket::bind("0.0.0.0:0").unwrap(); p.local_addr().unwrap().port() };
        let gaddr = SocketAddr::new(group.ip(), port);
        match nm.ctl.listen(t, gaddr) {
            Ok((mlid, _)) => {
                // a member of a group is still reachable at its own host:port (a peer answers to the address its
                // datagram came from): a unicast datagram to 127.0.0.1:<group port> is delivered, attributed to its sender
                {
                    let direct = UdpSocket::bind("127.0.0.1:0").unwrap();
                    let me = direct.local_addr().unwrap();
                    let before = nm.snapshot().len();
                    let sent = direct.send_to(b"direct to the member", SocketAddr::from(([127, 0, 0, 1], port))).is_ok();
                    let ok = nm.wait(1000, |ev| ev[before.min(ev.len())..].iter().any(|e| matches!(e, Ev::Message(ep, d) if ep.addr() == me && ep.resource_id() == mlid && d == b"direct to the member")));
                    if sent && !ok { out.violation(&format!("[C12] Udp multicast listener on {}: a unicast datagram sent to 127.0.0.1:{} (the member's own host:port, where a peer's reply goes) was not delivered", gaddr, port)); }
                    out.count("udp_multicast_member_unicast");
                }
                let member = socket2::Socket::new(socket2::Domain::IPV4, socket2::Type::DGRAM, Some(socket2::Protocol::UDP)).unwrap();
                let _ = member.set_reuse_address(true); let _ = member.set_reuse_port(true);
                let joined = member.bind(&SocketAddr::from(([0, 0, 0, 0], port)).into()).is_ok() && member.join_multicast_v4(&"239.255.0.77".parse().unwrap(), &std::net::Ipv4Addr::UNSPECIFIED).is_ok();
                if joined {
                    let member: UdpSocket = member.into();
                    member.set_read_timeout(Some(Duration::from_millis(1500))).unwrap();
                    let st = nm.ctl.send(Endpoint::from_listener(mlid, gaddr), b"announcement");
                    let mut b = [0u8; 64];
                    let got = member.recv_from(&mut b).ok().map(|(n, _)| b[..n].to_vec());
                    if st != SendStatus::Sent || got.as_deref() != Some(&b"announcement"[..]) { out.violation(&format!("[C12] Udp multicast listener on {}: send to the group through Endpoint::from_listener answered {:?}; another member of the group on this host received it: {}", gaddr, st, got.is_some())); }
                    out.count("udp_multicast_from_listener");
                } else { out.count("udp_multicast_member_unavailable"); }
            }
            Err(_) => out.count("udp_multicast_unavailable"),
        }
        if nm.shutdown() { out.violation("[C17,C12] event processing panicked"); }
    }
    // the peer of a connected socket speaks first: its datagram is already queued when the node first
    // looks at the new socket (connect() called from inside a callback, a late poll thread)
    for late_ms in [0u64, 30] {
        mark_scenario(&out, &format!("net_udp: the peer sends to a freshly connected Udp socket before the node polls it ({} ms late), then stays silent", late_ms));
        let (ctl, mut processor) = network::split();
        let peer = UdpSocket::bind("127.0.0.1:0").unwrap();
        let (ep, local) = ctl.connect(t, peer.local_addr().unwrap()).unwrap();
        let hello = payload(late_ms + 5, 200);
        peer.send_to(&hello, local).unwrap();
        std::thread::sleep(Duration::from_millis(late_ms));
        let (mut connected, mut got) = (false, vec![]);
        let end = Instant::now() + Duration::from_millis(1200);
        while Instant::now() < end && got.is_empty() {
            processor.process_poll_event(Some(Duration::from_millis(20)), |e| match e { NetEvent::Connected(e2, true) if e2 == ep => connected = true, NetEvent::Message(e2, d) if e2 == ep => got = d.to_vec(), _ => {} });
        }
        if !connected || got != hello { out.violation(&format!("[C12,C03] Udp: the peer's datagram was queued before the node first polled its freshly connected socket ({} ms late): Connected(true)={}, datagram delivered within 1.2 s without further traffic: {}", late_ms, connected, got == hello)); }
        out.count("udp_peer_speaks_first");
        out.case(&format!("udp speaksfirst late {}", late_ms), &format!("{} {}", connected, got == hello));
    }
    // the peer of a connected socket is absent for a while: whatever send() reports as Sent once the
    // peer is back does arrive
    {
        mark_scenario(&out, "net_udp: connected socket, the peer is absent for one datagram and comes back: every datagram reported Sent afterwards arrives");
        let node = Net::new();
        let peer = UdpSocket::bind("127.0.0.1:0").unwrap();
        let paddr = peer.local_addr().unwrap();
        let (ep, _local) = node.ctl.connect(t, paddr).unwrap();
        node.wait(2000, |ev| ev.iter().any(|e| matches!(e, Ev::Connected(e2, true) if *e2 == ep)));
        drop(peer);
        let st0 = node.ctl.send(ep, &0u64.to_le_bytes());
        std::thread::sleep(Duration::from_millis(40));
        let peer = UdpSocket::bind(paddr).unwrap();
        peer.set_read_timeout(Some(Duration::from_millis(400))).unwrap();
        let mut reported_sent = vec![];
        for i in 1u64..=5 { if node.ctl.send(ep, &i.to_le_bytes()) == SendStatus::Sent { reported_sent.push(i); } std::thread::sleep(Duration::from_millis(5)); }
        let mut arrived = vec![];
        let mut buf = [0u8; 16];
        while let Ok((n, _)) = peer.recv_from(&mut buf) { if n == 8 { arrived.push(u64::from_le_bytes(buf[..8].try_into().unwrap())); } }
        if reported_sent.iter().any(|i| !arrived.contains(i)) { out.violation(&format!("[C12,C13] Udp connected socket, peer absent for one datagram (status {:?}) and back: datagrams reported Sent {:?}, arrived {:?}", st0, reported_sent, arrived)); }
        out.count("udp_absent_peer_then_sends");
        out.case("udp absent-then-back", &format!("{:?} {:?}", reported_sent, arrived));
        if node.shutdown() { out.violation("[C17,C12] event processing panicked"); }
    }
    // a backlog: datagrams pile up in the socket while the node does not look at its poll (a slow
    // callback, a descheduled thread), then the link goes idle: every one of them is delivered
    for connected in [false, true] {
        mark_scenario(&out, &format!("net_udp: 250 paced 8-byte datagrams arrive while the node is not polling, then silence (receiver is a {})", if connected { "connected socket" } else { "listener" }));
        let (ctl, mut processor) = network::split();
        let peer = UdpSocket::bind("127.0.0.1:0").unwrap();
        let target: SocketAddr = if connected {
            let (ep, local) = ctl.connect(t, peer.local_addr().unwrap()).unwrap();
            let mut ok = false;
            for _ in 0..50 { processor.process_poll_event(Some(Duration::from_millis(10)), |e| if let NetEvent::Connected(e2, true) = e { if e2 == ep { ok = true; } }); if ok { break; } }
            local
        } else { ctl.listen(t, "127.0.0.1:0").unwrap().1 };
        let n = 250u64;
        for i in 0..n { peer.send_to(&i.to_le_bytes(), target).unwrap(); if i % 16 == 15 { std::thread::sleep(Duration::from_micros(200)); } }
        std::thread::sleep(Duration::from_millis(30));
        let mut got: Vec<u64> = vec![];
        let end = Instant::now() + Duration::from_millis(1200);
        while Instant::now() < end && (got.len() as u64) < n {
            processor.process_poll_event(Some(Duration::from_millis(50)), |e| if let NetEvent::Message(_, d) = e { if d.len() == 8 { got.push(u64::from_le_bytes(d.try_into().unwrap())); } });
        }
        let expected: Vec<u64> = (0..n).collect();
        if got != expected {
            out.violation(&format!("[C12] {} datagrams were queued in a Udp {} while the node was not polling, then the link went idle: {} delivered within 1.2 s (in order: {}) - on an idle loopback every datagram is delivered", n, if connected { "connected socket" } else { "listener" }, got.len(), got.windows(2).all(|w| w[0] < w[1])));
        }
        out.count("udp_backlog_then_idle");
        out.case(&format!("udp backlog connected={}", connected), &format!("{}", got.len()));
    }
    // IPv6 link-local peers (fe80::/10 carry a scope id that is part of the sender's address)
    {
        use std::net::{Ipv6Addr, SocketAddrV6};
        let ll: Option<(Ipv6Addr, u32)> = std::fs::read_to_string("/proc/net/if_inet6").ok().and_then(|txt| txt.lines().find_map(|l| {
            let f: Vec<&str> = l.split_whitespace().collect();
            if f.len() >= 6 && f[0].starts_with("fe80") && f[5] != "lo" { let v = u128::from_str_radix(f[0], 16).ok()?; Some((Ipv6Addr::from(v), u32::from_str_radix(f[1], 16).ok()?)) } else { None }
        }));
        // the pure part: an endpoint built for an address IS for that address
        let scoped = SocketAddr::V6(SocketAddrV6::new("fe80::1234".parse().unwrap(), 4000, 0, 7));
        let fl = ResourceId::verif_new(Transport::Udp.id(), message_io::network::ResourceType::Local, 3);
        if Endpoint::from_listener(fl, scoped).addr() != scoped { out.violation(&format!("[C12] Endpoint::from_listener(id, {}) addresses {} (the interface scope of a link-local address is part of the address)", scoped, Endpoint::from_listener(fl, scoped).addr())); }
        out.count("udp_from_listener_scoped_address");
        if let Some((ip, scope)) = ll {
            mark_scenario(&out, &format!("net_udp: a link-local IPv6 sender {}%{} to a listener on [::]", ip, scope));
            let na = Net::new();
            if let Ok((lid6, laddr)) = na.ctl.listen(t, "[::]:0") {
                if let Ok(s) = UdpSocket::bind(SocketAddr::V6(SocketAddrV6::new(ip, 0, 0, scope))) {
                    s.set_read_timeout(Some(Duration::from_millis(1500))).unwrap();
                    let me = s.local_addr().unwrap();
                    let dest = SocketAddr::V6(SocketAddrV6::new(ip, laddr.port(), 0, scope));
                    if s.send_to(b"from a link-local sender", dest).is_ok() {
                        let ok = na.wait(2000, |ev| ev.iter().any(|e| matches!(e, Ev::Message(..))));
                        let rep = na.snapshot().into_iter().find_map(|e| match e { Ev::Message(ep, _) => Some(ep), _ => None });
                        match rep {
                            Some(ep) if ok => {
                                if ep.addr() != me || ep.resource_id() != lid6 { out.violation(&format!("[C12] a datagram from {} was reported with the sender address {} (listener {} / {})", me, ep.addr(), ep.resource_id(), lid6)); }
                                let st = na.ctl.send(ep, b"reply");
                                let mut buf = [0u8; 64];
                                let back = s.recv_from(&mut buf).ok().map(|(n, _)| buf[..n].to_vec());
                                if st != SendStatus::Sent || back.as_deref() != Some(&b"reply"[..]) { out.violation(&format!("[C12] the reply through the endpoint reported for the link-local sender {} did not reach it: send {:?}, received {:?}", me, st, back.map(|b| b.len()))); }
                            }
                            _ => out.violation(&format!("[C12] a datagram from the link-local sender {} to a listener on [::] was not delivered", me)),
                        }
                        out.count("udp_ipv6_link_local_sender");
                        out.case("udp linklocal", "ok");
                    }
                }
            }
            if na.shutdown() { out.violation("[C17,C12] event processing panicked"); }
        } else { out.count("udp_ipv6_link_local_not_available"); }
    }
    // C14: resources created from several threads at once (connect + remove in a loop) all get different ids,
    // and each thread can remove exactly what it has just created
    {
        mark_scenario(&out, "Udp: 8 threads connect and remove in a loop on one node; ids handed out must all differ");
        let node = Net::new();
        let sink = UdpSocket::bind("127.0.0.1:0").unwrap();
        let to = sink.local_addr().unwrap();
        let per = if a.thorough { 20_000 } else { 2_500 };
        let hs: Vec<_> = (0..8).map(|_| { let ctl = node.ctl.clone(); std::thread::spawn(move || {
            let mut ids = Vec::with_capacity(per); let mut not_mine = 0u64;
            for _ in 0..per { if let Ok((ep, _)) = ctl.connect(Transport::Udp, to) { ids.push(ep.resource_id().raw()); if !ctl.remove(ep.resource_id()) { not_mine += 1; } } }
            (ids, not_mine)
        }) }).collect();
        let mut all: Vec<usize> = vec![]; let mut not_mine = 0u64;
        for h in hs { if let Ok((ids, n)) = h.join() { all.extend(ids); not_mine += n; } }
        let total = all.len();
        all.sort_unstable();
        let dups: Vec<usize> = all.windows(2).filter(|w| w[0] == w[1]).map(|w| w[0]).collect();
        if !dups.is_empty() || not_mine > 0 {
            out.violation(&format!("[C14] 8 threads each connected (Udp) and removed {} resources on one node: {} of the {} ids were handed out twice (e.g. raw id {:?}), and remove() of a resource a thread had just created answered false {} times", per, dups.len(), total, dups.first(), not_mine));
        }
        out.add("concurrent_connect_ids", total as u64);
        if node.shutdown() { out.violation("[C17,C12] event processing panicked"); }
    }
    out.finish();
}

// ---------------------------------------------------------------------------------------------------
// C01 WebSocket
// ---------------------------------------------------------------------------------------------------
use tungstenite::protocol::frame::coding::{Data, OpCode};
use tungstenite::protocol::frame::Frame;
use tungstenite::Message as WsMessage;

pub fn run_ws(a: &Args) {
    let mut out = Out::new(&a.out);
    let mut r = Rng::new(a.seed);
    let t = Transport::Ws;
    // (a) message-io <-> message-io: bursts, both directions, then idleness
    mark_scenario(&out, "net_ws (a) message-io <-> message-io: bursts, both directions, then idleness");
    for dir in 0..2 {
        let mut lists: Vec<Vec<usize>> = vec![vec![0, 1, 125, 126, 127, 128, 65535, 65536, 65537, 131072, 131073], vec![10; 50], vec![0; 20], vec![3, 3, 3], vec![1 << 21, 1, 1 << 20]];
        for _ in 0..(if a.thorough { 30 } else { 3 }) {
            lists.push((0..r.range(3, 40)).map(|_| *r.pick(&[0usize, 1, 125, 126, 200, 65535, 65536, 140000])).collect());
        }
        for sizes in lists {
            let Some((na, nb, _lid, ep_a, ep_b)) = connect_pair(t) else { out.violation("[C01,C03] could not establish a Ws connection on loopback"); continue };
            let (sender, receiver, ep_s, rid) = if dir == 0 { (&nb, &na, ep_b, ep_a.resource_id()) } else { (&na, &nb, ep_a, ep_b.resource_id()) };
            let msgs: Vec<Vec<u8>> = sizes.iter().enumerate().map(|(i, l)| payload(i as u64, *l)).collect();
            let st = send_all(&sender.ctl, ep_s, &msgs);
            if st.iter().any(|s| *s != SendStatus::Sent) { out.violation(&format!("[C01,C13] Ws send() on an established connection answered {:?}", st.iter().find(|s| **s != SendStatus::Sent))); }
            let n = msgs.len();
            let ok = receiver.wait(6000, |_| receiver.messages_of(rid).len() >= n);
            std::thread::sleep(Duration::from_millis(30));
            let got = receiver.messages_of(rid);
            if !ok || got != msgs {
                out.violation(&format!("[C01] Ws {}: a burst of {} messages (sizes {:?}...) followed by silence: {} delivered within 6 s, identical={}", if dir == 0 { "connector->acceptor" } else { "acceptor->connector" }, n, &sizes[..sizes.len().min(10)], got.len(), got == msgs));
            }
            out.count("ws_mio_to_mio_lists");
            out.add("ws_messages", n as u64);
            out.case(&format!("ws mio dir{} sizes {:?}", dir, &sizes[..sizes.len().min(20)]), &format!("{} {}", got.len(), got == msgs));
            if na.shutdown() | nb.shutdown() { out.violation("[C17,C01] event processing panicked"); }
        }
    }
    // (b) stock tungstenite client -> Ws listener: several messages in ONE tcp write, fragmented messages; and back
    mark_scenario(&out, "net_ws (b) stock tungstenite client -> Ws listener: several messages in ONE tcp write, fragmented messages; and back");
    {
        let na = Net::new();
        let (lid, addr) = na.ctl.listen(t, "127.0.0.1:0").unwrap();
        for burst in [1usize, 2, 3, 5, 17, 64] {
            let before = na.snapshot().len();
            let stream = TcpStream::connect(addr).unwrap();
            stream.set_nodelay(true).unwrap();
            let me = stream.local_addr().unwrap();
            let (mut ws, _) = tungstenite::client(format!("ws://{}/x", addr), stream).expect("stock client handshake");
            let msgs: Vec<Vec<u8>> = (0..burst).map(|i| payload(i as u64 + 7, [0usize, 1, 125, 126, 300, 70000][i % 6])).collect();
            // (control frames between the data frames of one burst: a ping after the first message, a pong later)
            for (mi, m) in msgs.iter().enumerate() {
                ws.write(WsMessage::Binary(m.clone().into())).unwrap();
                if mi == 0 && burst >= 3 { ws.write(WsMessage::Ping(vec![1, 2, 3].into())).unwrap(); }
                if mi == 2 { ws.write(WsMessage::Pong(vec![9].into())).unwrap(); }
            }
            ws.flush().unwrap(); // everything leaves in as few segments as possible
            let ok = na.wait(5000, |ev| ev[before.min(ev.len())..].iter().filter(|e| matches!(e, Ev::Message(ep, _) if ep.addr() == me)).count() >= burst);
            let got: Vec<Vec<u8>> = na.snapshot().into_iter().skip(before).filter_map(|e| match e { Ev::Message(ep, d) if ep.addr() == me => Some(d), _ => None }).collect();
            if !ok || got != msgs {
                out.violation(&format!("[C01] stock WebSocket client wrote {} messages back-to-back and went silent: {} delivered within 5 s (no further traffic)", burst, got.len()));
            }
            // fragmented message: one logical message in three frames
            let whole = payload(99, 1000);
            ws.write(WsMessage::Frame(Frame::message(whole[..100].to_vec(), OpCode::Data(Data::Binary), false))).unwrap();
            ws.write(WsMessage::Frame(Frame::message(whole[100..600].to_vec(), OpCode::Data(Data::Continue), false))).unwrap();
            ws.write(WsMessage::Frame(Frame::message(whole[600..].to_vec(), OpCode::Data(Data::Continue), true))).unwrap();
            ws.flush().unwrap();
            let okf = na.wait(3000, |ev| ev[before.min(ev.len())..].iter().any(|e| matches!(e, Ev::Message(ep, d) if ep.addr() == me && *d == whole)));
            if !okf { out.violation("[C01] a WebSocket message sent in three fragments by a stock client was not delivered as one message"); }
            // back: node -> stock client, a burst
            if let Some(ep) = na.snapshot().into_iter().skip(before).find_map(|e| match e { Ev::Accepted(ep, l) if l == lid && ep.addr() == me => Some(ep), _ => None }) {
                let back: Vec<Vec<u8>> = (0..burst).map(|i| payload(i as u64 + 500, 10 + i * 1000)).collect();
                let st = send_all(&na.ctl, ep, &back);
                ws.get_mut().set_read_timeout(Some(Duration::from_secs(3))).unwrap();
                let mut gotb = vec![];
                while gotb.len() < back.len() {
                    match ws.read() { Ok(WsMessage::Binary(d)) => gotb.push(d.to_vec()), Ok(_) => {}, Err(_) => break }
                }
                if gotb != back || st.iter().any(|s| *s != SendStatus::Sent) { out.violation(&format!("[C01] Ws node -> stock client: {} of {} messages arrived intact (statuses Sent: {})", gotb.len(), back.len(), st.iter().all(|s| *s == SendStatus::Sent))); }
            } else { out.violation("[C03,C01] no Accepted event for a stock WebSocket client"); }
            out.count("ws_stock_client_bursts");
            out.case(&format!("ws stockclient burst {}", burst), &format!("{} {}", got.len(), got == msgs));
        }
        if na.shutdown() { out.violation("[C17,C01] event processing panicked"); }
    }
    // (b2) stop-and-wait from a plain thread against an echoing node: every send happens while the
    //      sender's own network thread may be busy with (or queued for) the same connection
    for (t2, rounds) in [(Transport::Ws, if a.thorough { 2000 } else { 300 }), (Transport::FramedTcp, if a.thorough { 2000 } else { 300 })] {
        let echo = Net::with_echo(Some(4096));
        let (_lid, addr) = echo.ctl.listen(t2, "127.0.0.1:0").unwrap();
        let na = Net::new();
        let (ep, _) = na.ctl.connect(t2, addr).unwrap();
        na.wait(3000, |ev| ev.iter().any(|e| matches!(e, Ev::Connected(e2, true) if *e2 == ep)));
        let mut lost = None;
        for i in 0..rounds {
            let m = payload(i as u64, 1 + (i % 200) as usize);
            let st = na.ctl.send(ep, &m);
            let ok = na.wait(2000, |_| na.messages_of(ep.resource_id()).len() > i as usize);
            if st != SendStatus::Sent || !ok { lost = Some((i, st)); break; }
        }
        if let Some((i, st)) = lost {
            out.violation(&format!("[C01,C10] {:?} stop-and-wait with an echoing peer: message #{} (send() answered {:?}) was not echoed within 2 s although the connection is up and idle", t2, i, st));
        }
        out.count("stop_and_wait_rounds");
        out.case(&format!("stopandwait {:?} {}", t2, rounds), &format!("{:?}", lost.is_none()));
        if na.shutdown() | echo.shutdown() { out.violation("[C17,C01] event processing panicked"); }
    }
    // (b3) a user thread is inside a long send() on the connection while the answer to its previous
    //      small message arrives; then silence: the answer must still be delivered
    for round in 0..(if a.thorough { 12 } else { 4 }) {
        let echo = Net::with_echo(Some(4096));
        let (_lid, addr) = echo.ctl.listen(t, "127.0.0.1:0").unwrap();
        let na = Net::new();
        let (ep, _) = na.ctl.connect(t, addr).unwrap();
        na.wait(3000, |ev| ev.iter().any(|e| matches!(e, Ev::Connected(e2, true) if *e2 == ep)));
        let small = payload(round, 100);
        let big = payload(round + 50, 12 << 20);
        na.ctl.send(ep, &small);
        let st = na.ctl.send(ep, &big); // the echo of `small` arrives while this call holds the connection
        let ok = na.wait(4000, |_| na.messages_of(ep.resource_id()).iter().any(|d| *d == small));
        if !ok || st != SendStatus::Sent {
            out.violation(&format!("[C01] Ws: the answer to a small message arrived while a user thread was inside a 12 MiB send() on the same connection and was never delivered afterwards (no further traffic); send status {:?}", st));
        }
        out.count("ws_receive_during_long_send");
        out.case(&format!("ws recvduringsend {}", round), &format!("{}", ok));
        if na.shutdown() | echo.shutdown() { out.violation("[C17,C01] event processing panicked"); }
    }
    // (c) Ws connector -> stock tungstenite server
    mark_scenario(&out, "net_ws (c) Ws connector -> stock tungstenite server");
    {
        let listener = TcpListener::bind("127.0.0.1:0").unwrap();
        let addr = listener.local_addr().unwrap();
        let server = std::thread::spawn(move || {
            let (s, _) = listener.accept().unwrap();
            let mut ws = ws_accept(s).expect("stock server handshake");
            // burst to the node, then read what it sends
            let burst: Vec<Vec<u8>> = (0..9).map(|i| payload(i + 900, (i as usize) * 4000)).collect();
            for m in &burst { ws.write(WsMessage::Binary(m.clone().into())).unwrap(); }
            ws.flush().unwrap();
            ws.get_mut().set_read_timeout(Some(Duration::from_secs(3))).unwrap();
            let mut got = vec![];
            while got.len() < 5 { match ws.read() { Ok(WsMessage::Binary(d)) => got.push(d.to_vec()), Ok(_) => {}, Err(_) => break } }
            (burst, got)
        });
        let nb = Net::new();
        let (ep, _) = nb.ctl.connect(t, addr).unwrap();
        if !nb.wait(3000, |ev| ev.iter().any(|e| matches!(e, Ev::Connected(e2, true) if *e2 == ep))) { out.violation("[C03,C01] Ws connect to a stock server was not reported as Connected(true)"); }
        let mine: Vec<Vec<u8>> = (0..5).map(|i| payload(i + 40, 50 * i as usize)).collect();
        send_all(&nb.ctl, ep, &mine);
        nb.wait(4000, |_| nb.messages_of(ep.resource_id()).len() >= 9);
        let (burst, got_by_server) = server.join().unwrap();
        if nb.messages_of(ep.resource_id()) != burst { out.violation(&format!("[C01] stock WebSocket server wrote 9 messages back-to-back: {} delivered to the connector", nb.messages_of(ep.resource_id()).len())); }
        if got_by_server != mine { out.violation("[C01] messages of the Ws connector did not reach a stock server intact"); }
        out.count("ws_stock_server");
        out.case("ws stockserver", &format!("{}", got_by_server == mine));
        if nb.shutdown() { out.violation("[C17,C01] event processing panicked"); }
    }
    ws_server_speaks_first(&mut out);
    ws_handshake_completed_by_write_event(&mut out);
    ws_server_speaks_first_threaded(&mut out, if a.thorough { 300 } else { 30 });
    out.finish();
}

// ---------------------------------------------------------------------------------------------------
// C10 concurrent send() on one endpoint
// ---------------------------------------------------------------------------------------------------
fn tagged(thread: u64, seq: u64, len: usize) -> Vec<u8> {
    // [thread:8][seq:8][len:8][body...][checksum:8]
    let mut v = Vec::with_capacity(len + 32);
    v.extend_from_slice(&thread.to_le_bytes());
    v.extend_from_slice(&seq.to_le_bytes());
    v.extend_from_slice(&(len as u64).to_le_bytes());
    let mut r = Rng::new(thread * 1_000_003 + seq);
    let mut sum = 0u64;
    for _ in 0..len { let b = r.next() as u8; sum = sum.wrapping_mul(31).wrapping_add(b as u64); v.push(b); }
    v.extend_from_slice(&sum.to_le_bytes());
    v
}
fn untag(m: &[u8]) -> Option<(u64, u64)> {
    if m.len() < 32 { return None; }
    let g = |o: usize| u64::from_le_bytes(m[o..o + 8].try_into().unwrap());
    let (t, s, l) = (g(0), g(8), g(16) as usize);
    if m.len() != l + 32 { return None; }
    let mut sum = 0u64;
    let mut r = Rng::new(t * 1_000_003 + s);
    for i in 0..l { let b = r.next() as u8; if m[24 + i] != b { return None; } sum = sum.wrapping_mul(31).wrapping_add(b as u64); }
    if g(24 + l) != sum { return None; }
    Some((t, s))
}

pub fn run_conc(a: &Args) {
    let mut out = Out::new(&a.out);
    for (t, nthreads, per, sizes, complete) in [
        (Transport::FramedTcp, 4u64, if a.thorough { 4000u64 } else { 600 }, vec![8usize, 100, 3000], true),
        (Transport::FramedTcp, 6, if a.thorough { 60 } else { 12 }, vec![300_000, 700_000], true), // several socket buffers: partial writes, WouldBlock
        (Transport::Ws, 4, if a.thorough { 3000 } else { 400 }, vec![8, 100, 3000], true),
        (Transport::Ws, 4, if a.thorough { 40 } else { 8 }, vec![300_000], true),
        (Transport::Ws, 3, if a.thorough { 12 } else { 4 }, vec![(1 << 20) + 5, 3 << 20, 1 << 20], true), // above any plausible fragment size
        (Transport::FramedTcp, 3, if a.thorough { 12 } else { 4 }, vec![(1 << 20) + 5, 3 << 20], true),
        (Transport::Ws, 2, if a.thorough { 4 } else { 2 }, vec![20 << 20], true), // two valid messages in flight exceed any single-message buffer
        (Transport::Udp, 4, if a.thorough { 2000 } else { 300 }, vec![8, 100, 1200], false),
    ] {
        let Some((na, nb, lid, ep_a, ep_b)) = connect_pair(t) else { out.violation("[C10,C03] could not establish a connection"); continue };
        let rid = if t.is_connection_oriented() { ep_a.resource_id() } else { lid };
        // also send from inside the callback thread of the sender's own node? here: a second group of
        // senders uses the acceptor->connector direction at the same time (both directions busy)
        let handles: Vec<_> = (0..nthreads).map(|th| {
            let ctl = nb.ctl.clone();
            let sizes = sizes.clone();
            std::thread::spawn(move || {
                let mut not_sent = 0u64;
                for s in 0..per {
                    let m = tagged(th, s, sizes[(s as usize + th as usize) % sizes.len()]);
                    if ctl.send(ep_b, &m) != SendStatus::Sent { not_sent += 1; }
                }
                not_sent
            })
        }).collect();
        let back = { let ctl = na.ctl.clone(); std::thread::spawn(move || { if t.is_connection_oriented() { for s in 0..50u64 { ctl.send(ep_a, &tagged(99, s, 1000)); } } }) };
        let not_sent: u64 = handles.into_iter().map(|h| h.join().unwrap()).sum();
        back.join().unwrap();
        let total = (nthreads * per) as usize;
        let ok = if complete { na.wait(20_000, |_| na.messages_of(rid).len() >= total - not_sent as usize) } else { std::thread::sleep(Duration::from_millis(300)); true };
        std::thread::sleep(Duration::from_millis(50));
        let got = na.messages_of(rid);
        let mut last: std::collections::HashMap<u64, i64> = std::collections::HashMap::new();
        let mut seen = std::collections::HashSet::new();
        let (mut corrupt, mut dup, mut order) = (0u64, 0u64, 0u64);
        for m in &got {
            match untag(m) {
                None => corrupt += 1,
                Some((th, s)) => {
                    if !seen.insert((th, s)) { dup += 1; }
                    let l = last.entry(th).or_insert(-1);
                    if (s as i64) <= *l { order += 1; }
                    *l = s as i64;
                }
            }
        }
        if corrupt > 0 || dup > 0 || order > 0 || (complete && (!ok || got.len() != total - not_sent as usize)) || (t.is_connection_oriented() && not_sent > 0) {
            out.violation(&format!("[C10] {} threads x {} concurrent send() calls on one {:?} endpoint (sizes {:?}): {} messages delivered of {} ({} not Sent), {} corrupted/interleaved, {} duplicated, {} out of their sender's order",
                nthreads, per, t, sizes, got.len(), total, not_sent, corrupt, dup, order));
        }
        out.count(&format!("conc_{:?}", t));
        out.add("conc_messages_sent", total as u64);
        out.case(&format!("conc {:?} threads {} per {} sizes {:?}", t, nthreads, per, sizes), &format!("{} {} {} {}", got.len(), corrupt, dup, order));
        if na.shutdown() | nb.shutdown() { out.violation("[C17,C10] event processing panicked"); }
    }
    // sends on a live, ready endpoint while OTHER connections of the same transport come and go
    for t in [Transport::Tcp, Transport::FramedTcp, Transport::Udp] {
        mark_scenario(&out, &format!("net_conc {:?}: two threads send on one endpoint while a third thread connects and removes other endpoints of the same transport", t));
        let Some((na, nb, lid, ep_a, ep_b)) = connect_pair(t) else { out.violation("[C10,C03] could not establish a connection"); continue };
        let rid = if t.is_connection_oriented() { ep_a.resource_id() } else { lid };
        let stop = Arc::new(AtomicBool::new(false));
        let churn = { let (ctl, stop) = (nb.ctl.clone(), stop.clone()); let target = { let l = TcpListener::bind("127.0.0.1:0").unwrap(); l }; let taddr = target.local_addr().unwrap();
            std::thread::spawn(move || { let _keep = target; let mut n = 0u64; while !stop.load(Ordering::SeqCst) { if let Ok((ep, _)) = ctl.connect(if t == Transport::Udp { Transport::Udp } else { t }, taddr) { ctl.remove(ep.resource_id()); n += 1; } } n }) };
        let per = if a.thorough { 20_000u64 } else { 3_000 };
        let senders: Vec<_> = (0..2u64).map(|th| { let ctl = nb.ctl.clone(); std::thread::spawn(move || { let mut bad = vec![]; for sq in 0..per { let st = ctl.send(ep_b, &tagged(th, sq, 40)); if st != SendStatus::Sent && bad.len() < 3 { bad.push((sq, st)); } if sq % 64 == 0 { std::thread::sleep(Duration::from_micros(100)); } } bad }) }).collect();
        let bad: Vec<(u64, SendStatus)> = senders.into_iter().flat_map(|h| h.join().unwrap()).collect();
        stop.store(true, Ordering::SeqCst);
        let cycles = churn.join().unwrap();
        let total = 2 * per as usize;
        // (Tcp is a byte stream: count bytes; Udp may drop under load: statuses only)
        let ok = match t {
            Transport::Tcp => na.wait(5000, |_| na.messages_of(rid).iter().map(|d| d.len()).sum::<usize>() >= (total - bad.len()) * 72),
            Transport::Udp => true,
            _ => na.wait(5000, |_| na.messages_of(rid).len() >= total - bad.len()),
        };
        if !bad.is_empty() || !ok {
            out.violation(&format!("[C10,C13] {:?}: two threads sent {} messages on one live endpoint while another thread did {} connect()/remove() cycles on other endpoints of the same transport: send() answered {:?} (first cases), all delivered: {}", t, total, cycles, bad, ok));
        }
        out.count("conc_sends_during_connection_churn");
        out.add("churn_cycles", cycles);
        out.case(&format!("conc churn {:?}", t), &format!("{}", bad.len()));
        if na.shutdown() | nb.shutdown() { out.violation("[C17,C10] event processing panicked"); }
    }
    // (deep search / thorough) a slow but live consumer: sends that queue for many seconds behind each other
    if a.thorough || a.rest.iter().any(|x| x == "slow") {
        for t in [Transport::FramedTcp, Transport::Ws] {
            mark_scenario(&out, &format!("net_conc {:?}: 10 threads x 3 messages of 2 MiB to a consumer that takes 600 ms per message", t));
            let na = Net::with_opts(None, 600);
            let nb = Net::new();
            let (_lid, addr) = na.ctl.listen(t, "127.0.0.1:0").unwrap();
            let (ep_b, _) = nb.ctl.connect(t, addr).unwrap();
            if !nb.wait(3000, |ev| ev.iter().any(|e| matches!(e, Ev::Connected(e2, true) if *e2 == ep_b))) { out.violation("[C10,C03] no connection"); continue; }
            let handles: Vec<_> = (0..10u64).map(|th| { let ctl = nb.ctl.clone(); std::thread::spawn(move || { let mut st = vec![]; for s in 0..3u64 { st.push(ctl.send(ep_b, &tagged(th, s, 2 << 20))); } st }) }).collect();
            let statuses: Vec<Vec<SendStatus>> = handles.into_iter().map(|h| h.join().unwrap()).collect();
            let sent: usize = statuses.iter().flatten().filter(|s| **s == SendStatus::Sent).count();
            let ok = na.wait(15_000, |ev| ev.iter().filter(|e| matches!(e, Ev::Message(..))).count() >= sent);
            let got: Vec<Vec<u8>> = na.snapshot().into_iter().filter_map(|e| if let Ev::Message(_, d) = e { Some(d) } else { None }).collect();
            let corrupt = got.iter().filter(|m| untag(m).is_none() || m.len() != (2 << 20) + 32).count();
            if sent != 30 || !ok || got.len() != sent || corrupt > 0 || na.snapshot().iter().any(|e| matches!(e, Ev::Disconnected(_))) {
                out.violation(&format!("[C10,C13] {:?}: 10 threads x 3 messages of 2 MiB to a consumer that takes 600 ms per message: {} of 30 send() calls answered Sent, {} messages delivered, {} of them corrupted or of a wrong size, connection dropped: {}", t, sent, got.len(), corrupt, na.snapshot().iter().any(|e| matches!(e, Ev::Disconnected(_)))));
            }
            out.count("conc_slow_consumer_big_messages");
            out.case(&format!("conc slowconsumer {:?}", t), &format!("{} {}", got.len(), corrupt));
            if na.shutdown() | nb.shutdown() { out.violation("[C17,C10] event processing panicked"); }
        }
    }
    // the peer floods the connection with noise (so the sender's own network thread is busy with,
    // or queued for, that connection all the time) while a plain thread sends stop-and-wait:
    // a message whose send() answered Sent must arrive although nothing is sent after it
    for t in [Transport::Ws, Transport::FramedTcp] {
        let Some((na, nb, _lid, ep_a, ep_b)) = connect_pair(t) else { continue };
        let stop = Arc::new(AtomicBool::new(false));
        let noise = { let (ctl, stop) = (na.ctl.clone(), stop.clone()); std::thread::spawn(move || { while !stop.load(Ordering::SeqCst) { ctl.send(ep_a, &[b'N'; 32]); } }) };
        let rounds = if a.thorough { 1500 } else { 300 };
        let mut lost = None;
        for i in 0..rounds {
            let m = tagged(7, i, 100);
            let st = nb.ctl.send(ep_b, &m);
            let want = i as usize + 1;
            let ok = na.wait(2000, |_| na.messages_of(ep_a.resource_id()).len() >= want);
            if st != SendStatus::Sent || !ok { lost = Some((i, st)); break; }
        }
        stop.store(true, Ordering::SeqCst);
        noise.join().unwrap();
        if let Some((i, st)) = lost {
            out.violation(&format!("[C10] {:?}: while the peer floods the connection, message #{} sent from a plain thread (send() answered {:?}) was not delivered within 2 s and nothing was sent after it", t, i, st));
        }
        out.count("conc_stop_and_wait_under_noise");
        out.case(&format!("conc stopandwait noise {:?}", t), &format!("{}", lost.is_none()));
        if na.shutdown() | nb.shutdown() { out.violation("[C17,C10] event processing panicked"); }
    }
    // simultaneous sends followed by SILENCE: several threads, released together, each send one message on the same
    // endpoint; then nothing is sent until every one of them has arrived (a frame that is only written by the
    // next send() would wait forever). The peer is a raw socket that parses the frames itself.
    {
        let rounds = if a.thorough { 3000u64 } else { 250 };
        let nthreads = 4u64;
        mark_scenario(&out, &format!("FramedTcp: {} threads released together send one 48 KiB message each on one endpoint, then silence until all have arrived; {} rounds", nthreads, rounds));
        let node = Net::new();
        let l = TcpListener::bind("127.0.0.1:0").unwrap();
        let (ep, _) = node.ctl.connect(Transport::FramedTcp, l.local_addr().unwrap()).unwrap();
        let (mut peer, _) = l.accept().unwrap();
        node.wait(3000, |ev| ev.iter().any(|e| matches!(e, Ev::Connected(e2, true) if *e2 == ep)));
        let seen: Arc<Mutex<std::collections::HashSet<(u64, u64)>>> = Arc::new(Mutex::new(Default::default()));
        let bad = Arc::new(std::sync::atomic::AtomicU64::new(0));
        let reader = { let (seen, bad) = (seen.clone(), bad.clone()); std::thread::spawn(move || {
            let _ = peer.set_read_timeout(Some(Duration::from_millis(200)));
            let mut buf: Vec<u8> = vec![]; let mut chunk = vec![0u8; 1 << 16]; let mut idle = 0;
            loop {
                match peer.read(&mut chunk) { Ok(0) => break, Ok(n) => { idle = 0; buf.extend_from_slice(&chunk[..n]); } Err(_) => { idle += 1; if idle > 50 { break; } } }
                loop {
                    // varint length prefix
                    let (mut len, mut shift, mut used, mut ok) = (0usize, 0u32, 0usize, false);
                    for b in buf.iter() { used += 1; len |= ((*b & 0x7f) as usize) << shift; if *b & 0x80 == 0 { ok = true; break; } shift += 7; if shift > 56 { break; } }
                    if !ok || buf.len() < used + len { break; }
                    match untag(&buf[used..used + len]) { Some(k) => { if !seen.lock().unwrap().insert(k) { bad.fetch_add(1, Ordering::SeqCst); } } None => { bad.fetch_add(1, Ordering::SeqCst); } }
                    buf.drain(..used + len);
                }
            }
        }) };
        let barrier = Arc::new(std::sync::Barrier::new(nthreads as usize + 1));
        let statuses: Arc<Mutex<Vec<SendStatus>>> = Arc::new(Mutex::new(vec![]));
        let go_on = Arc::new(AtomicBool::new(true));
        let hs: Vec<_> = (0..nthreads).map(|th| { let (ctl, barrier, statuses, go_on) = (node.ctl.clone(), barrier.clone(), statuses.clone(), go_on.clone()); std::thread::spawn(move || {
            let mut round = 0u64;
            loop {
                let m = tagged(th, round, 48 * 1024 + (th as usize) * 7);
                barrier.wait();
                if !go_on.load(Ordering::SeqCst) { break; }
                let st = ctl.send(ep, &m);
                statuses.lock().unwrap().push(st);
                barrier.wait();
                round += 1;
            }
        }) }).collect();
        let mut failed: Option<String> = None;
        for round in 0..rounds {
            barrier.wait();   // release the senders
            barrier.wait();   // all send() calls have returned
            let sts: Vec<SendStatus> = statuses.lock().unwrap().drain(..).collect();
            let end = Instant::now() + Duration::from_millis(2500);
            let all = |seen: &Arc<Mutex<std::collections::HashSet<(u64, u64)>>>| { let s = seen.lock().unwrap(); (0..nthreads).all(|th| s.contains(&(th, round))) };
            while !all(&seen) && Instant::now() < end { std::thread::sleep(Duration::from_micros(200)); }
            if !all(&seen) || sts.iter().any(|s| *s != SendStatus::Sent) || bad.load(Ordering::SeqCst) > 0 {
                let arrived: Vec<bool> = { let s = seen.lock().unwrap(); (0..nthreads).map(|th| s.contains(&(th, round))).collect() };
                failed = Some(format!("round {}: send() answered {:?}; arrived within 2.5 s of silence, per thread: {:?}; corrupted or duplicated frames so far: {}", round, sts, arrived, bad.load(Ordering::SeqCst)));
                break;
            }
        }
        go_on.store(false, Ordering::SeqCst);
        barrier.wait();
        for h in hs { let _ = h.join(); }
        if let Some(f) = failed { out.violation(&format!("[C10] FramedTcp: {} threads, released together, each send one ~48 KiB message on the same endpoint and then nobody sends until all have arrived: {}", nthreads, f)); }
        out.add("conc_simultaneous_then_silence_rounds", rounds);
        out.case("conc simultaneous-then-silence FramedTcp", "ok");
        if node.shutdown() { out.violation("[C17,C10] event processing panicked"); }
        let _ = reader.join();
    }
    out.finish();
}

// ---------------------------------------------------------------------------------------------------
// C13 send() status and size limits
// ---------------------------------------------------------------------------------------------------
pub fn run_limits(a: &Args) {
    let mut out = Out::new(&a.out);
    // ---- Udp: limit-1, limit, limit+1, far above ----
    for connected in [true, false] {
        let na = Net::new();
        let nb = Net::new();
        let (lid, addr) = na.ctl.listen(Transport::Udp, "127.0.0.1:0").unwrap();
        let ep = if connected { nb.ctl.connect(Transport::Udp, addr).unwrap().0 } else {
            let (sid, _) = nb.ctl.listen(Transport::Udp, "127.0.0.1:0").unwrap();
            Endpoint::from_listener(sid, addr)
        };
        // send() answers ResourceNotAvailable until the Connected event of the socket was processed
        if connected && !nb.wait(5000, |ev| ev.iter().any(|e| matches!(e, Ev::Connected(e2, true) if *e2 == ep))) { out.violation("[C03,C13] Udp: connect() never produced Connected(_, true)"); }
        let max = Transport::Udp.max_message_size();
        let mut delivered_expected = 0;
        for (len, want) in [(max - 1, SendStatus::Sent), (max, SendStatus::Sent), (max + 1, SendStatus::MaxPacketSizeExceeded), (max + 4493, SendStatus::MaxPacketSizeExceeded), (100, SendStatus::Sent)] {
            let st = nb.ctl.send(ep, &payload(len as u64, len));
            if st != want { out.violation(&format!("[C13] Udp ({}) send of {} bytes (max_message_size {}) answered {:?}, expected {:?}", if connected { "connected socket" } else { "listener + from_listener endpoint" }, len, max, st, want)); }
            if want == SendStatus::Sent { delivered_expected += 1; na.wait(1500, |_| na.messages_of(lid).len() >= delivered_expected); }
            out.count("limits_udp_sizes");
        }
        std::thread::sleep(Duration::from_millis(50));
        let got = na.messages_of(lid);
        if got.len() != delivered_expected || got.iter().any(|d| d.len() > max) {
            out.violation(&format!("[C13] Udp: {} datagrams delivered, expected exactly the {} accepted ones (a rejected payload must transmit nothing; the socket must stay usable)", got.len(), delivered_expected));
        }
        out.case(&format!("limits udp connected={}", connected), &format!("{}", got.len()));
        if na.shutdown() | nb.shutdown() { out.violation("[C17,C13] event processing panicked"); }
    }
    // ---- Udp over IPv6 (::1, source address given): the same declared limit ----
    {
        use message_io::network::TransportConnect;
        use message_io::adapters::udp::UdpConnectConfig;
        mark_scenario(&out, "net_limits Udp over ::1: payloads just below the declared maximum");
        let na = Net::new();
        let nb = Net::new();
        if let Ok((lid, addr)) = na.ctl.listen(Transport::Udp, "[::1]:0") {
            let cfg = UdpConnectConfig::default().with_source_address("[::1]:0".parse().unwrap());
            if let Ok((ep, _)) = nb.ctl.connect_with(TransportConnect::Udp(cfg), addr) {
                nb.wait(3000, |ev| ev.iter().any(|e| matches!(e, Ev::Connected(e2, true) if *e2 == ep)));
                let max = Transport::Udp.max_message_size();
                let mut n = 0;
                for len in [max - 40, max - 20, max - 19, max - 1, max] {
                    let st = nb.ctl.send(ep, &payload(len as u64 + 1, len));
                    n += 1;
                    let ok = na.wait(1500, |_| na.messages_of(lid).len() >= n);
                    if st != SendStatus::Sent || !ok || na.messages_of(lid).last().map(|d| d.len()) != Some(len) { out.violation(&format!("[C13,C12] Udp over ::1: send of {} bytes (max_message_size {}) answered {:?}, delivered intact: {}", len, max, st, ok)); n = na.messages_of(lid).len(); }
                    out.count("limits_udp_ipv6_sizes");
                }
                let st = nb.ctl.send(ep, &payload(3, max + 1));
                if st != SendStatus::MaxPacketSizeExceeded { out.violation(&format!("[C13] Udp over ::1: send of {} bytes answered {:?}", max + 1, st)); }
            } else { out.count("limits_udp_ipv6_connect_unavailable"); }
        } else { out.count("limits_udp_ipv6_unavailable"); }
        out.case("limits udp ipv6", "ok");
        if na.shutdown() | nb.shutdown() { out.violation("[C17,C13] event processing panicked"); }
    }
    // ---- Ws: the declared limit ----
    {
        let Some((na, nb, _lid, ep_a, ep_b)) = connect_pair(Transport::Ws) else { out.violation("[C13,C03] no Ws connection"); out.finish(); return };
        let max = Transport::Ws.max_message_size();
        let mut sizes: Vec<(usize, SendStatus)> = vec![(max, SendStatus::Sent), (max + 1, SendStatus::MaxPacketSizeExceeded), (1000, SendStatus::Sent)];
        if a.thorough { sizes = vec![((16 << 20) - 100, SendStatus::Sent), ((16 << 20) + 1, SendStatus::Sent), (max - 14, SendStatus::Sent), (max - 1, SendStatus::Sent), (max, SendStatus::Sent), (max + 1, SendStatus::MaxPacketSizeExceeded), (1000, SendStatus::Sent)]; }
        let mut expected: Vec<Vec<u8>> = vec![];
        for (len, want) in sizes {
            let p = payload(len as u64, len);
            let st = nb.ctl.send(ep_b, &p);
            if st != want { out.violation(&format!("[C13] Ws send of {} bytes (max_message_size {}) answered {:?}, expected {:?}", len, max, st, want)); }
            if want == SendStatus::Sent { expected.push(p); let n = expected.len(); na.wait(30_000, |_| na.messages_of(ep_a.resource_id()).len() >= n); }
            out.count("limits_ws_sizes");
        }
        // the accepting side sends at the limit too (its frames carry a shorter header)
        for len in if a.thorough { vec![max - 9, max] } else { vec![max] } {
            let p = payload(len as u64 + 3, len);
            let before = nb.messages_of(ep_b.resource_id()).len();
            let st = na.ctl.send(ep_a, &p);
            let ok = nb.wait(30_000, |_| nb.messages_of(ep_b.resource_id()).len() > before);
            if st != SendStatus::Sent || !ok || nb.messages_of(ep_b.resource_id()).last() != Some(&p) { out.violation(&format!("[C13] Ws, accepting side -> connecting side: send of {} bytes (max_message_size {}) answered {:?}, delivered intact: {}", len, max, st, ok && nb.messages_of(ep_b.resource_id()).last() == Some(&p))); }
            out.count("limits_ws_sizes_from_acceptor");
        }
        let got = na.messages_of(ep_a.resource_id());
        if got != expected { out.violation(&format!("[C13,C01] Ws: {} of {} accepted messages arrived intact (the connection must survive a rejected payload and carry every payload up to max_message_size)", got.iter().zip(expected.iter()).filter(|(x, y)| x == y).count(), expected.len())); }
        if na.snapshot().iter().any(|e| matches!(e, Ev::Disconnected(_))) || nb.snapshot().iter().any(|e| matches!(e, Ev::Disconnected(_))) { out.violation("[C13] the Ws connection was dropped by a payload around the size limit"); }
        out.case("limits ws", &format!("{}", got == expected));
        if na.shutdown() | nb.shutdown() { out.violation("[C17,C13] event processing panicked"); }
    }
    // ---- FramedTcp / Tcp declare no limit (max_message_size() = usize::MAX): large payloads are carried ----
    {
        mark_scenario(&out, "net_limits FramedTcp: a 40 MiB message (max_message_size() is usize::MAX) in both directions, then a small one");
        if let Some((na, nb, _lid, ep_a, ep_b)) = connect_pair(Transport::FramedTcp) {
            let big = payload(40, 40 << 20);
            for (from, to, ep_s, rid) in [(&nb, &na, ep_b, ep_a.resource_id()), (&na, &nb, ep_a, ep_b.resource_id())] {
                let before = to.messages_of(rid).len();
                let st = from.ctl.send(ep_s, &big);
                let st2 = from.ctl.send(ep_s, b"after");
                let ok = to.wait(20_000, |_| to.messages_of(rid).len() >= before + 2);
                let got = to.messages_of(rid);
                let intact = got.len() >= before + 2 && got[before] == big && got[before + 1] == b"after";
                if st != SendStatus::Sent || st2 != SendStatus::Sent || !ok || !intact {
                    out.violation(&format!("[C13,C01] FramedTcp (max_message_size() = {}): a {} byte message answered {:?} (the next one {:?}); delivered intact and followed by the next message: {}; connection dropped: {}", Transport::FramedTcp.max_message_size(), big.len(), st, st2, intact, to.snapshot().iter().any(|e| matches!(e, Ev::Disconnected(_)))));
                }
                out.count("limits_framed_40MiB");
                if !a.thorough { break; }
            }
            out.case("limits framed 40MiB", "ok");
            if na.shutdown() | nb.shutdown() { out.violation("[C17,C13] event processing panicked"); }
        } else { out.violation("[C13,C03] no FramedTcp connection"); }
    }
    // ---- resource states: pending / ready / removed / never existed / fabricated, all transports ----
    for t in [Transport::Tcp, Transport::FramedTcp, Transport::Ws, Transport::Udp] {
        let na = Net::new();
        let (lid, addr) = na.ctl.listen(t, "127.0.0.1:0").unwrap();
        // a network whose processor is not pumped: a connection stays pending
        let (ctl, mut processor) = network::split();
        let (ep, _) = ctl.connect(t, addr).unwrap();
        let st_pending = ctl.send(ep, &[1, 2, 3]);
        if st_pending != SendStatus::ResourceNotAvailable { out.violation(&format!("[C13] {:?}: send() on a connection whose Connected event has not been processed yet answered {:?} instead of ResourceNotAvailable", t, st_pending)); }
        if ctl.is_ready(ep.resource_id()) != Some(false) { out.violation(&format!("[C13,C03] {:?}: is_ready() of a pending connection is {:?}", t, ctl.is_ready(ep.resource_id()))); }
        // nothing may have been transmitted
        std::thread::sleep(Duration::from_millis(40));
        let leaked = na.snapshot().iter().any(|e| matches!(e, Ev::Message(..)));
        if leaked { out.violation(&format!("[C13] {:?}: data was transmitted by a send() that answered ResourceNotAvailable", t)); }
        // now process: becomes ready
        let mut connected = false;
        let end = Instant::now() + Duration::from_secs(3);
        while !connected && Instant::now() < end {
            processor.process_poll_event(Some(Duration::from_millis(10)), |e| if let NetEvent::Connected(e2, true) = e { if e2 == ep { connected = true; } });
        }
        let st_ready = ctl.send(ep, &[4, 5, 6]);
        if !connected || st_ready != SendStatus::Sent { out.violation(&format!("[C13] {:?}: send() right after Connected(true) answered {:?}", t, st_ready)); }
        let rid = if t.is_connection_oriented() { None } else { Some(lid) };
        let okd = na.wait(2000, |ev| ev.iter().any(|e| matches!(e, Ev::Message(ep2, d) if d[..] == [4, 5, 6] && rid.map(|l| ep2.resource_id() == l).unwrap_or(true))));
        if !okd { out.violation(&format!("[C13] {:?}: a message whose send() answered Sent never arrived", t)); }
        // removed
        let removed = ctl.remove(ep.resource_id());
        let st_removed = ctl.send(ep, &[7]);
        if !removed || st_removed != SendStatus::ResourceNotFound { out.violation(&format!("[C13,C04] {:?}: after remove() -> {}, send() answered {:?} instead of ResourceNotFound", t, removed, st_removed)); }
        // never existed / fabricated ids (remote and local kinds)
        for base in [77usize, 100_000] {
            for kind in [message_io::network::ResourceType::Remote, message_io::network::ResourceType::Local] {
                let fid = ResourceId::verif_new(t.id(), kind, base);
                let st = ctl.send(network::verif_endpoint(fid, addr), &[9]);
                if st != SendStatus::ResourceNotFound { out.violation(&format!("[C13,C14] {:?}: send() to the fabricated id {} answered {:?}", t, fid, st)); }
            }
        }
        out.count("limits_resource_states");
        out.case(&format!("limits states {:?}", t), &format!("{:?} {:?} {:?}", st_pending, st_ready, st_removed));
        drop(processor);
        if na.shutdown() { out.violation("[C17,C13] event processing panicked"); }
    }
    out.finish();
}

// ---------------------------------------------------------------------------------------------------
// C03 / C04 / C17 / C18 on real sockets: scripted raw peers
// ---------------------------------------------------------------------------------------------------
fn open_fds() -> usize {
    std::fs::read_dir("/proc/self/fd").map(|d| d.count()).unwrap_or(0)
}
fn threads() -> usize {
    std::fs::read_dir("/proc/self/task").map(|d| d.count()).unwrap_or(0)
}

/// the lifecycle automaton of C03 on one node's event log, per endpoint
fn lifecycle_check(name: &str, events: &[Ev], connects: &[Endpoint], listeners: &[ResourceId], out: &mut Out) {
    use std::collections::HashMap;
    #[derive(PartialEq, Clone, Copy, Debug)]
    enum Ph { Pending, Est, Dead }
    let mut ph: HashMap<Endpoint, Ph> = connects.iter().map(|e| (*e, Ph::Pending)).collect();
    for e in events {
        match e {
            Ev::Connected(ep, ok) => {
                if ph.get(ep) != Some(&Ph::Pending) { out.violation(&format!("[C03] {}: Connected({}, {}) for an endpoint connect() did not return, or a second time, or after its end", name, ep, ok)); }
                ph.insert(*ep, if *ok { Ph::Est } else { Ph::Dead });
            }
            Ev::Accepted(ep, l) => {
                if ph.contains_key(ep) { out.violation(&format!("[C03] {}: Accepted({}) for an endpoint that already has a history", name, ep)); }
                if !listeners.contains(l) { out.violation(&format!("[C03] {}: Accepted names listener {} that was not returned by listen()", name, l)); }
                ph.insert(*ep, Ph::Est);
            }
            Ev::Message(ep, _) => {
                if ep.resource_id().is_local() { if !listeners.contains(&ep.resource_id()) { out.violation(&format!("[C03,C12] {}: Message on unknown listener {}", name, ep)); } }
                else if ph.get(ep) != Some(&Ph::Est) { out.violation(&format!("[C03,C17] {}: Message for endpoint {} that is not established ({:?})", name, ep, ph.get(ep))); }
            }
            Ev::Disconnected(ep) => {
                if ph.get(ep) != Some(&Ph::Est) { out.violation(&format!("[C03,C04,C17] {}: Disconnected for endpoint {} that is not established ({:?}): never announced, failed handshake, or a second Disconnected", name, ep, ph.get(ep))); }
                ph.insert(*ep, Ph::Dead);
            }
        }
    }
}

pub fn run_life(a: &Args) {
    let mut out = Out::new(&a.out);
    mark_scenario(&out, "net_life: start"); // (opens the marker file before the descriptor base line is taken)
    let fd0 = open_fds();
    let th0 = threads();
    let reps = if a.thorough { 12 } else { 2 };
    for rep in 0..reps {
        for t in [Transport::Tcp, Transport::FramedTcp, Transport::Ws] {
            let node = Net::new();
            let (lid, addr) = node.ctl.listen(t, "127.0.0.1:0").unwrap();
            let mut connects: Vec<Endpoint> = vec![];
            let fd_base = open_fds();
            // 1. failed connect: nobody listens there
            mark_scenario(&out, &format!("net_life {:?}: connect to a closed port", t));
            let dead_addr = { let l = TcpListener::bind("127.0.0.1:0").unwrap(); l.local_addr().unwrap() };
            let (ep_fail, _) = node.ctl.connect(t, dead_addr).unwrap();
            connects.push(ep_fail);
            if !node.wait(5000, |ev| ev.iter().any(|e| matches!(e, Ev::Connected(ep, false) if *ep == ep_fail))) { out.violation(&format!("[C03] {:?}: connect to a closed port never produced Connected(_, false)", t)); }
            if node.ctl.is_ready(ep_fail.resource_id()).is_some() { out.violation(&format!("[C03,C18] {:?}: a failed connection is still registered", t)); }
            // 2. the peer accepts and closes at once (FIN) / resets (RST)
            mark_scenario(&out, &format!("net_life {:?}: raw peer accepts and closes / resets at once", t));
            for rst in [false, true] {
                let l = TcpListener::bind("127.0.0.1:0").unwrap();
                let la = l.local_addr().unwrap();
                let (ep, _) = node.ctl.connect(t, la).unwrap();
                connects.push(ep);
                let (s, _) = l.accept().unwrap();
                if t == Transport::Ws {
                    // a websocket needs its handshake: answer it with a stock server, then end the connection
                    match ws_accept(s) { Ok(ws) => { std::thread::sleep(Duration::from_millis(20)); let s2 = ws.get_ref().try_clone().unwrap(); if rst { socket2::SockRef::from(&s2).set_linger(Some(Duration::ZERO)).ok(); } drop(ws); drop(s2); } Err(_) => {} }
                } else {
                    std::thread::sleep(Duration::from_millis(10));
                    if rst { socket2::SockRef::from(&s).set_linger(Some(Duration::ZERO)).ok(); }
                    drop(s);
                }
                if !node.wait(5000, |ev| ev.iter().any(|e| matches!(e, Ev::Disconnected(e2) if *e2 == ep))) {
                    out.violation(&format!("[C04,C03] {:?}: the peer {} an established connection and no Disconnected was delivered", t, if rst { "reset" } else { "closed" }));
                }
                let n = node.snapshot().iter().filter(|e| matches!(e, Ev::Disconnected(e2) if *e2 == ep)).count();
                if n > 1 { out.violation(&format!("[C04] {:?}: {} Disconnected events for one connection", t, n)); }
                if node.ctl.send(ep, &[1]) != SendStatus::ResourceNotFound || node.ctl.is_ready(ep.resource_id()).is_some() || node.ctl.remove(ep.resource_id()) {
                    out.violation(&format!("[C04] {:?}: after Disconnected, send/is_ready/remove do not answer ResourceNotFound/None/false", t));
                }
                out.count("life_peer_close");
            }
            // 3. a raw client of the listener: data then FIN in ONE write burst (data must come before Disconnected)
            mark_scenario(&out, &format!("net_life {:?}: raw client writes one message and closes at once", t));
            if t != Transport::Ws {
                let mut s = TcpStream::connect(addr).unwrap();
                let me = s.local_addr().unwrap();
                let body = payload(rep as u64, 300);
                let mut bytes = vec![];
                if t == Transport::FramedTcp { bytes.extend(leb128(body.len() as u64)); }
                bytes.extend(&body);
                s.write_all(&bytes).unwrap();
                drop(s); // the FIN is queued right behind the data
                let ok = node.wait(5000, |ev| ev.iter().any(|e| matches!(e, Ev::Disconnected(ep) if ep.addr() == me)));
                let evs: Vec<Ev> = node.snapshot().into_iter().filter(|e| match e { Ev::Accepted(ep, _) | Ev::Message(ep, _) | Ev::Disconnected(ep) | Ev::Connected(ep, _) => ep.addr() == me }).collect();
                let data: Vec<u8> = evs.iter().filter_map(|e| if let Ev::Message(_, d) = e { Some(d.clone()) } else { None }).flatten().collect();
                let shape_ok = matches!(evs.first(), Some(Ev::Accepted(_, l)) if *l == lid) && matches!(evs.last(), Some(Ev::Disconnected(_)));
                if !ok || !shape_ok || data != body {
                    out.violation(&format!("[C04,C03] {:?} listener, peer sends its last data and closes at once: Disconnected delivered={}, sequence Accepted..Message..Disconnected={}, data intact before the close={}", t, ok, shape_ok, data == body));
                }
                out.count("life_data_then_fin");
            }
            // 4. local remove(): true once, no Disconnected for it, the peer sees the close
            mark_scenario(&out, &format!("net_life {:?}: remove() of an established connection", t));
            {
                let l = TcpListener::bind("127.0.0.1:0").unwrap();
                let la = l.local_addr().unwrap();
                let (ep, _) = node.ctl.connect(t, la).unwrap();
                connects.push(ep);
                let (mut s, _) = l.accept().unwrap();
                // (for Ws the handshake is answered by a stock server on a clone of the socket, kept
                // alive until the end of this scenario)
                let _ws_keep = if t == Transport::Ws { Some(ws_accept(s.try_clone().unwrap())) } else { None };
                node.wait(3000, |ev| ev.iter().any(|e| matches!(e, Ev::Connected(e2, true) if *e2 == ep)));
                let r1 = node.ctl.remove(ep.resource_id());
                let r2 = node.ctl.remove(ep.resource_id());
                if !r1 || r2 { out.violation(&format!("[C04] {:?}: remove() of an established connection returned {} then {}", t, r1, r2)); }
                s.set_read_timeout(Some(Duration::from_secs(3))).unwrap();
                let mut buf = [0u8; 4096];
                let mut eof = false;
                for _ in 0..50 { match s.read(&mut buf) { Ok(0) => { eof = true; break; } Ok(_) => {}, Err(e) if e.kind() == std::io::ErrorKind::ConnectionReset => { eof = true; break; } Err(_) => break } }
                if !eof { out.violation(&format!("[C04,C18] {:?}: after a successful remove() the peer does not see the connection closed (the socket is still open)", t)); }
                std::thread::sleep(Duration::from_millis(30));
                if node.snapshot().iter().any(|e| matches!(e, Ev::Disconnected(e2) if *e2 == ep)) { out.violation(&format!("[C04] {:?}: Disconnected delivered for a connection that was removed locally", t)); }
                out.count("life_local_remove");
            }
            // 5. hostile / half-open peers of the listener, next to a healthy canary connection
            mark_scenario(&out, &format!("net_life {:?}: garbage / half-open handshakes next to a healthy connection", t));
            {
                let canary = Net::new();
                let (cep, _) = canary.ctl.connect(t, addr).unwrap();
                canary.wait(3000, |ev| ev.iter().any(|e| matches!(e, Ev::Connected(e2, true) if *e2 == cep)));
                let before = node.snapshot().len();
                let garbage: Vec<Vec<u8>> = vec![
                    b"GET / HTTP/1.1\r\nHost: x\r\n\r\n".to_vec(), b"\x16\x03\x01\x02\x00\x01\x00\x01\xfc\x03\x03".to_vec(), vec![0xff; 64], vec![0x80; 64],
                    b"GET /chat HTTP/1.1\r\nHost: a\r\nUpgrade: websocket\r\nConnection: Upgrade\r\nSec-WebSocket-Key: x\r\n".to_vec(),
                    vec![0xff, 0xff, 0xff, 0xff, 0xff, 0xff, 0xff, 0xff, 0x7f, 1, 2], vec![],
                ];
                let mut hostile_addrs = vec![];
                for (gi, g) in garbage.iter().enumerate() {
                    if let Ok(mut s) = TcpStream::connect(addr) {
                        hostile_addrs.push(s.local_addr().unwrap());
                        let half = g.len() / 2;
                        let _ = s.write_all(&g[..half]);
                        std::thread::sleep(Duration::from_millis(if gi % 2 == 0 { 0 } else { 30 }));
                        let _ = s.write_all(&g[half..]);
                        if gi % 3 == 1 { socket2::SockRef::from(&s).set_linger(Some(Duration::ZERO)).ok(); }
                        std::thread::sleep(Duration::from_millis(10));
                        drop(s);
                    }
                }
                if t == Transport::Ws {
                    // after a VALID handshake: frame headers announcing more than the limits, a
                    // reserved opcode, an unmasked client frame, a truncated header then close
                    let frames: Vec<Vec<u8>> = vec![
                        vec![0x82, 0xFF, 0, 0, 1, 0, 0, 0, 0, 0, 1, 2, 3, 4],          // binary, masked, 2^40 bytes announced
                        vec![0x82, 0xFF, 0x7f, 0xff, 0xff, 0xff, 0xff, 0xff, 0xff, 0xff, 1, 2, 3, 4], // 2^63-1 bytes announced
                        vec![0x8B, 0x80, 1, 2, 3, 4],                                  // reserved opcode
                        vec![0x82, 0x03, b'a', b'b', b'c'],                            // unmasked frame from a client
                        vec![0x82, 0xFE, 0x01],                                        // truncated extended length, then close
                        vec![0x01, 0x83, 1, 2, 3, 4, 9, 9, 9, 0x82, 0x81, 1, 2, 3, 4, 7], // a new data frame inside a fragmented message
                        vec![0x88, 0x80, 1, 2, 3, 4],                                  // a well-formed Close frame, as any standard client sends
                        vec![0x88, 0x82, 1, 2, 3, 4, 0x03 ^ 1, 0xe8 ^ 2],              // Close with status 1000
                    ];
                    for (fi, f) in frames.iter().enumerate() {
                        if let Ok(stream) = TcpStream::connect(addr) {
                            // (a node that no longer answers handshakes must not hang the harness)
                            let _ = stream.set_read_timeout(Some(Duration::from_secs(2)));
                            let _ = stream.set_write_timeout(Some(Duration::from_secs(2)));
                            if let Ok((mut ws, _)) = tungstenite::client(format!("ws://{}/x", addr), stream) {
                                let raw = ws.get_mut();
                                let _ = raw.write_all(f);
                                let _ = raw.flush();
                                std::thread::sleep(Duration::from_millis(if fi % 2 == 0 { 40 } else { 5 }));
                            }
                        }
                    }
                }
                // the canary keeps working
                let ping = payload(4242, 64);
                let st = canary.ctl.send(cep, &ping);
                let okc = node.wait(3000, |ev| ev[before.min(ev.len())..].iter().any(|e| matches!(e, Ev::Message(_, d) if *d == ping)) || (t == Transport::Tcp && ev[before.min(ev.len())..].iter().any(|e| matches!(e, Ev::Message(_, d) if d.ends_with(&ping)))));
                if st != SendStatus::Sent || !okc { out.violation(&format!("[C17] {:?}: after hostile peers connected to the same listener, a healthy connection stopped exchanging messages (send {:?}, delivered {})", t, st, okc)); }
                if node.panicked() { out.violation(&format!("[C17] {:?}: event processing panicked while serving hostile peers", t)); }
                if t == Transport::Ws {
                    // a failed inbound handshake yields no event at all
                    std::thread::sleep(Duration::from_millis(100));
                    for e in node.snapshot() {
                        let who = match &e { Ev::Accepted(ep, _) | Ev::Message(ep, _) | Ev::Disconnected(ep) | Ev::Connected(ep, _) => ep.addr() };
                        if hostile_addrs.contains(&who) { out.violation(&format!("[C03,C17] Ws: an event ({:?}) was produced for a peer that never completed the handshake", std::mem::discriminant(&e))); break; }
                    }
                }
                out.count("life_hostile_peers_with_canary");
                if canary.shutdown() { out.violation("[C17] canary event processing panicked"); }
            }
            // lifecycle automaton over everything this node saw
            std::thread::sleep(Duration::from_millis(60));
            lifecycle_check(&format!("{:?}", t), &node.snapshot(), &connects, &[lid], &mut out);
            // C18: all connections are gone: only the listener (+ poll) may remain above the base line
            node.wait(2000, |_| open_fds() <= fd_base);
            let fd_now = open_fds();
            if fd_now > fd_base { out.violation(&format!("[C18] {:?}: {} descriptors are still open after every connection of the history was removed, disconnected or failed (base line {})", t, fd_now - fd_base, fd_base)); }
            node.ctl.remove(lid);
            out.case(&format!("life {:?} rep {}", t, rep), &format!("fds {}", fd_now as i64 - fd_base as i64));
            if node.shutdown() { out.violation(&format!("[C17] {:?}: event processing panicked or never came back from a poll (wedged: {}) after serving hostile peers", t, Net::any_wedged())); }
        }
        // 5b. many inbound connections queued before the node looks at its listener: one Accepted each
        for t in [Transport::Tcp, Transport::FramedTcp] {
            mark_scenario(&out, &format!("net_life {:?}: 300 clients connect and send a greeting before the node polls its listener for the first time", t));
            let (ctl, mut processor) = network::split();
            let (lid, addr) = ctl.listen(t, "127.0.0.1:0").unwrap();
            let n = 300usize;
            let clients: Vec<TcpStream> = (0..n).filter_map(|i| { let mut c = TcpStream::connect(addr).ok()?; let mut w = vec![]; if t == Transport::FramedTcp { w.push(5u8); } w.extend(format!("hi{:03}", i).as_bytes()); c.write_all(&w).ok()?; Some(c) }).collect();
            std::thread::sleep(Duration::from_millis(50));
            let (mut accepted, mut greeted) = (0usize, 0usize);
            let end = Instant::now() + Duration::from_millis(3000);
            while Instant::now() < end && (accepted < clients.len() || greeted < clients.len()) {
                processor.process_poll_event(Some(Duration::from_millis(30)), |e| match e { NetEvent::Accepted(_, l) if l == lid => accepted += 1, NetEvent::Message(_, d) if d.len() == 5 => greeted += 1, _ => {} });
            }
            if accepted != clients.len() || greeted != clients.len() { out.violation(&format!("[C03,C01,C17] {:?}: {} clients connected and greeted before the listener was polled, then nobody else connected: {} Accepted events, {} greetings delivered", t, clients.len(), accepted, greeted)); }
            out.count("life_accept_backlog");
            out.case(&format!("life backlog {:?} rep {}", t, rep), &format!("{} {}", accepted, greeted));
            drop(clients);
            ctl.remove(lid);
            for _ in 0..20 { processor.process_poll_event(Some(Duration::from_millis(5)), |_| ()); }
        }
        // 5b'. connect() from one thread while another thread polls the processor without pause: every
        //      connect gets its Connected (the registration and the first poll event cannot miss each other)
        {
            mark_scenario(&out, "net_life Udp: 400 connect() calls from one thread while another thread polls with a zero timeout");
            let (ctl, mut processor) = network::split();
            let ctl = Arc::new(ctl);
            let peer = UdpSocket::bind("127.0.0.1:0").unwrap();
            let connected: Arc<Mutex<Vec<Endpoint>>> = Arc::new(Mutex::new(vec![]));
            let stop = Arc::new(AtomicBool::new(false));
            let pump = { let (connected, stop) = (connected.clone(), stop.clone()); std::thread::spawn(move || { while !stop.load(Ordering::SeqCst) { processor.process_poll_event(Some(Duration::ZERO), |e| if let NetEvent::Connected(ep, true) = e { connected.lock().unwrap().push(ep); }); } }) };
            let eps: Vec<Endpoint> = (0..400).filter_map(|_| ctl.connect(Transport::Udp, peer.local_addr().unwrap()).ok().map(|x| x.0)).collect();
            let end = Instant::now() + Duration::from_millis(2000);
            while Instant::now() < end && connected.lock().unwrap().len() < eps.len() { std::thread::sleep(Duration::from_millis(5)); }
            stop.store(true, Ordering::SeqCst);
            let _ = pump.join();
            let got = connected.lock().unwrap().clone();
            let missing = eps.iter().filter(|e| !got.contains(e)).count();
            let pending = eps.iter().filter(|e| ctl.is_ready(e.resource_id()) == Some(false)).count();
            if missing > 0 || got.len() != eps.len() { out.violation(&format!("[C03] {} Udp connect() calls from one thread while another thread was polling: {} of them never got their Connected event ({} still answer is_ready() = Some(false) 2 s later), {} Connected events in total", eps.len(), missing, pending, got.len())); }
            out.count("life_connects_vs_busy_poller");
            out.case(&format!("life connects-vs-poller rep {}", rep), &format!("{}", missing));
            for e in &eps { ctl.remove(e.resource_id()); }
        }
        // 5c. slow but correct WebSocket handshakes: the upgrade request / the 101 response arrive in
        //     two TCP segments with the node running in between
        {
            mark_scenario(&out, "net_life Ws: the upgrade request of a hand-written client arrives in two halves 60 ms apart; then a masked frame");
            let node = Net::new();
            let (lid, addr) = node.ctl.listen(Transport::Ws, "127.0.0.1:0").unwrap();
            let mut c = TcpStream::connect(addr).unwrap();
            c.set_read_timeout(Some(Duration::from_secs(3))).unwrap();
            let me = c.local_addr().unwrap();
            let req = format!("GET /x HTTP/1.1\r\nHost: {}\r\nUpgrade: websocket\r\nConnection: Upgrade\r\nSec-WebSocket-Key: dGhlIHNhbXBsZSBub25jZQ==\r\nSec-WebSocket-Version: 13\r\n\r\n", addr);
            let half = req.len() / 2;
            c.write_all(&req.as_bytes()[..half]).unwrap();
            std::thread::sleep(Duration::from_millis(60));
            let early = node.snapshot().len();
            c.write_all(&req.as_bytes()[half..]).unwrap();
            let mut resp = vec![]; let mut b = [0u8; 512];
            while !resp.windows(4).any(|w| w == b"\r\n\r\n") { match c.read(&mut b) { Ok(0) | Err(_) => break, Ok(k) => resp.extend_from_slice(&b[..k]) } }
            let switched = resp.starts_with(b"HTTP/1.1 101");
            let mask = [1u8, 2, 3, 4];
            let mut frame = vec![0x82, 0x85]; frame.extend(mask); frame.extend(b"hello".iter().enumerate().map(|(i, x)| x ^ mask[i % 4]));
            c.write_all(&frame).unwrap();
            let okm = node.wait(3000, |ev| ev.iter().any(|e| matches!(e, Ev::Message(ep, d) if ep.addr() == me && d == b"hello")));
            drop(c);
            let okd = node.wait(3000, |ev| ev.iter().any(|e| matches!(e, Ev::Disconnected(ep) if ep.addr() == me)));
            let evs: Vec<Ev> = node.snapshot();
            let shape = matches!(evs.first(), Some(Ev::Accepted(ep, l)) if ep.addr() == me && *l == lid);
            if node.panicked() || early != 0 || !switched || !okm || !okd || !shape {
                out.violation(&format!("[C03,C17] Ws listener, upgrade request in two segments: processing panicked: {}, events before the request was complete: {}, 101 answered: {}, Accepted first: {}, the client's frame delivered: {}, Disconnected after its close: {}", node.panicked(), early, switched, shape, okm, okd));
            }
            lifecycle_check("Ws split request", &evs, &[], &[lid], &mut out);
            out.count("life_ws_split_request");
            out.case(&format!("life ws split request rep {}", rep), "ok");
            if node.shutdown() { out.violation("[C17,C03] Ws: event processing panicked or wedged on a handshake that arrived in two segments"); }
        }
        {
            mark_scenario(&out, "net_life Ws: the 101 response of a hand-written server arrives in two halves 60 ms apart; then an unmasked frame");
            let l = TcpListener::bind("127.0.0.1:0").unwrap();
            let node = Net::new();
            let (ep, _) = node.ctl.connect(Transport::Ws, l.local_addr().unwrap()).unwrap();
            let (mut sconn, _) = l.accept().unwrap();
            sconn.set_read_timeout(Some(Duration::from_secs(3))).unwrap();
            let mut reqb = vec![]; let mut b = [0u8; 1024];
            while !reqb.windows(4).any(|w| w == b"\r\n\r\n") { match sconn.read(&mut b) { Ok(0) | Err(_) => break, Ok(k) => reqb.extend_from_slice(&b[..k]) } }
            let reqs = String::from_utf8_lossy(&reqb).to_string();
            let key = reqs.lines().find_map(|l| { let (k, v) = l.split_once(':')?; if k.eq_ignore_ascii_case("sec-websocket-key") { Some(v.trim().to_string()) } else { None } }).unwrap_or_default();
            let resp = format!("HTTP/1.1 101 Switching Protocols\r\nUpgrade: websocket\r\nConnection: Upgrade\r\nSec-WebSocket-Accept: {}\r\n\r\n", tungstenite::handshake::derive_accept_key(key.as_bytes()));
            let half = resp.len() / 2;
            let _ = sconn.write_all(&resp.as_bytes()[..half]);
            std::thread::sleep(Duration::from_millis(60));
            let early = node.snapshot().len();
            let _ = sconn.write_all(&resp.as_bytes()[half..]);
            let okc = node.wait(3000, |ev| ev.iter().any(|e| matches!(e, Ev::Connected(e2, true) if *e2 == ep)));
            let _ = sconn.write_all(&[0x82, 0x02, b'h', b'i']);
            let okm = node.wait(3000, |ev| ev.iter().any(|e| matches!(e, Ev::Message(e2, d) if *e2 == ep && d == b"hi")));
            drop(sconn);
            let okd = node.wait(3000, |ev| ev.iter().any(|e| matches!(e, Ev::Disconnected(e2) if *e2 == ep)));
            if node.panicked() || early != 0 || !okc || !okm || !okd {
                out.violation(&format!("[C03,C17] Ws connect, 101 response in two segments: processing panicked: {}, events before the response was complete: {}, Connected(true): {}, the server's frame delivered: {}, Disconnected after its close: {}", node.panicked(), early, okc, okm, okd));
            }
            lifecycle_check("Ws split response", &node.snapshot(), &[ep], &[], &mut out);
            out.count("life_ws_split_response");
            out.case(&format!("life ws split response rep {}", rep), "ok");
            if node.shutdown() { out.violation("[C17,C03] Ws: event processing panicked or wedged on a handshake response that arrived in two segments"); }
        }
        // 6. socket options: a keepalive the OS accepts (60 s) and one it rejects (12 h: Linux takes
        //    TCP_KEEPIDLE only up to 32767 s; documented as "just a warning").  Either way the
        //    connection must be announced, carry data both ways and end with Disconnected.
        for t in [Transport::Tcp, Transport::FramedTcp] {
            use message_io::network::{TransportConnect, TransportListen};
            use message_io::adapters::tcp::{TcpConnectConfig, TcpListenConfig};
            use message_io::adapters::framed_tcp::{FramedTcpConnectConfig, FramedTcpListenConfig};
            for secs in [60u64, 12 * 3600] {
                let ka = socket2::TcpKeepalive::new().with_time(Duration::from_secs(secs));
                mark_scenario(&out, &format!("net_life {:?}: connect_with / listen_with a TCP keepalive of {} s (12 h is rejected by the OS: documented as a warning only), one message each way, then the peer closes", t, secs));
                let fd_base = open_fds();
                // connect side, against a raw peer
                {
                    let node = Net::new();
                    let l = TcpListener::bind("127.0.0.1:0").unwrap();
                    let cfg = if t == Transport::Tcp { TransportConnect::Tcp(TcpConnectConfig::default().with_keepalive(ka.clone())) } else { TransportConnect::FramedTcp(FramedTcpConnectConfig::default().with_keepalive(ka.clone())) };
                    let (ep, _) = node.ctl.connect_with(cfg, l.local_addr().unwrap()).unwrap();
                    let (mut peer, _) = l.accept().unwrap();
                    let okc = node.wait(3000, |ev| ev.iter().any(|e| matches!(e, Ev::Connected(e2, true) if *e2 == ep)));
                    let st = node.ctl.send(ep, b"ping");
                    peer.set_read_timeout(Some(Duration::from_secs(3))).unwrap();
                    let mut buf = [0u8; 16];
                    let n = peer.read(&mut buf).unwrap_or(0);
                    let mut reply = vec![]; if t == Transport::FramedTcp { reply.push(4u8); } reply.extend(b"pong");
                    peer.write_all(&reply).unwrap();
                    let okm = node.wait(3000, |ev| ev.iter().any(|e| matches!(e, Ev::Message(e2, d) if *e2 == ep && d == b"pong")));
                    drop(peer);
                    let okd = node.wait(3000, |ev| ev.iter().any(|e| matches!(e, Ev::Disconnected(e2) if *e2 == ep)));
                    if !okc || st != SendStatus::Sent || n == 0 || !okm || !okd {
                        out.violation(&format!("[C03,C18] {:?} connect_with(keepalive {} s): Connected(true) delivered={}, send answered {:?}, the peer received {} bytes, the peer's reply was delivered={}, Disconnected after the peer closed={} (a connection announced as established must be usable and must end with Disconnected)", t, secs, okc, st, n, okm, okd));
                    }
                    lifecycle_check(&format!("{:?} keepalive connect", t), &node.snapshot(), &[ep], &[], &mut out);
                    // and a second connection with the same options, ended by a local remove(): the peer sees the close
                    let cfg2 = if t == Transport::Tcp { TransportConnect::Tcp(TcpConnectConfig::default().with_keepalive(ka.clone())) } else { TransportConnect::FramedTcp(FramedTcpConnectConfig::default().with_keepalive(ka.clone())) };
                    let (ep2, _) = node.ctl.connect_with(cfg2, l.local_addr().unwrap()).unwrap();
                    let (mut peer2, _) = l.accept().unwrap();
                    node.wait(3000, |ev| ev.iter().any(|e| matches!(e, Ev::Connected(e2, true) if *e2 == ep2)));
                    let removed = node.ctl.remove(ep2.resource_id());
                    peer2.set_read_timeout(Some(Duration::from_secs(3))).unwrap();
                    let mut b2 = [0u8; 64];
                    let eof = loop { match peer2.read(&mut b2) { Ok(0) => break true, Ok(_) => continue, Err(e) if e.kind() == std::io::ErrorKind::ConnectionReset => break true, Err(_) => break false } };
                    if !removed || !eof { out.violation(&format!("[C04,C18] {:?} connect_with(keepalive {} s): remove() answered {}, and the peer saw the connection closed within 3 s: {} (a removed connection must release its socket)", t, secs, removed, eof)); }
                    if node.shutdown() { out.violation("[C17] event processing panicked"); }
                }
                // listen side, a raw client
                {
                    let node = Net::new();
                    let cfg = if t == Transport::Tcp { TransportListen::Tcp(TcpListenConfig::default().with_keepalive(ka.clone())) } else { TransportListen::FramedTcp(FramedTcpListenConfig::default().with_keepalive(ka.clone())) };
                    let (lid, addr) = node.ctl.listen_with(cfg, "127.0.0.1:0").unwrap();
                    let mut c = TcpStream::connect(addr).unwrap();
                    let me = c.local_addr().unwrap();
                    let mut hello = vec![]; if t == Transport::FramedTcp { hello.push(5u8); } hello.extend(b"hello");
                    c.write_all(&hello).unwrap();
                    let okm = node.wait(3000, |ev| ev.iter().any(|e| matches!(e, Ev::Message(e2, d) if e2.addr() == me && d == b"hello")));
                    let acc = node.snapshot().into_iter().find_map(|e| match e { Ev::Accepted(e2, l2) if l2 == lid && e2.addr() == me => Some(e2), _ => None });
                    let st = acc.map(|e2| node.ctl.send(e2, b"back"));
                    c.set_read_timeout(Some(Duration::from_secs(3))).unwrap();
                    let mut buf = [0u8; 16];
                    let n = c.read(&mut buf).unwrap_or(0);
                    drop(c);
                    let okd = node.wait(3000, |ev| ev.iter().any(|e| matches!(e, Ev::Disconnected(e2) if e2.addr() == me)));
                    if acc.is_none() || !okm || st != Some(SendStatus::Sent) || n == 0 || !okd {
                        out.violation(&format!("[C03,C18] {:?} listen_with(keepalive {} s): Accepted delivered={}, the client's message delivered={}, send to it answered {:?}, it received {} bytes, Disconnected after it closed={}", t, secs, acc.is_some(), okm, st, n, okd));
                    }
                    lifecycle_check(&format!("{:?} keepalive listen", t), &node.snapshot(), &[], &[lid], &mut out);
                    node.ctl.remove(lid);
                    if node.shutdown() { out.violation("[C17] event processing panicked"); }
                }
                std::thread::sleep(Duration::from_millis(30));
                let fd_now = open_fds();
                if fd_now != fd_base { out.violation(&format!("[C18] {:?} with keepalive {} s: {} descriptors open after both nodes were shut down, {} before (a descriptor was leaked or closed twice)", t, secs, fd_now, fd_base)); }
                out.count("life_keepalive_options");
                out.case(&format!("life keepalive {:?} {}s rep {}", t, secs, rep), "ok");
            }
        }
        // Udp: Connected(true) once, never Accepted / Disconnected, also when the peer is absent and comes back
        {
            mark_scenario(&out, "net_life Udp: the peer of a connected socket disappears, one datagram is sent into the void, the peer comes back");
            let node = Net::new();
            let sock = UdpSocket::bind("127.0.0.1:0").unwrap();
            let paddr = sock.local_addr().unwrap();
            let (ep, local) = node.ctl.connect(Transport::Udp, paddr).unwrap();
            node.wait(2000, |ev| ev.iter().any(|e| matches!(e, Ev::Connected(e2, true) if *e2 == ep)));
            // the peer goes away; ONE datagram is sent into the void: the ICMP port-unreachable leaves
            // ECONNREFUSED pending on the connected socket, and the next recv() reports it
            drop(sock);
            node.ctl.send(ep, b"anyone?");
            std::thread::sleep(Duration::from_millis(60));
            // the peer comes back on the same port and talks to the node
            let sock = UdpSocket::bind(paddr).unwrap();
            sock.send_to(b"pong-1", local).unwrap();
            std::thread::sleep(Duration::from_millis(30));
            sock.send_to(b"pong-2", local).unwrap();
            sock.send_to(b"pong-3", local).unwrap();
            let ok = node.wait(2000, |_| node.messages_of(ep.resource_id()).len() >= 3);
            if !ok { out.violation(&format!("[C03,C12] Udp: datagrams of a peer that was briefly absent are not delivered any more ({} of 3 arrived)", node.messages_of(ep.resource_id()).len())); }
            // and the node can still talk to it
            let st = node.ctl.send(ep, b"hello again");
            sock.set_read_timeout(Some(Duration::from_secs(2))).unwrap();
            let mut buf = [0u8; 100];
            let back = sock.recv_from(&mut buf).map(|(n, _)| buf[..n].to_vec()).ok();
            if st != SendStatus::Sent || back.as_deref() != Some(&b"hello again"[..]) { out.violation(&format!("[C03,C12] Udp: after the peer was briefly absent, send() answers {:?} and the peer received {:?}", st, back.map(|b| b.len()))); }
            let evs = node.snapshot();
            let nconn = evs.iter().filter(|e| matches!(e, Ev::Connected(..))).count();
            if nconn != 1 || evs.iter().any(|e| matches!(e, Ev::Accepted(..) | Ev::Disconnected(..))) {
                out.violation(&format!("[C03] Udp: {} Connected events and Accepted/Disconnected present={} (must be exactly one Connected(true) and never the others)", nconn, evs.iter().any(|e| matches!(e, Ev::Accepted(..) | Ev::Disconnected(..)))));
            }
            if node.ctl.is_ready(ep.resource_id()) != Some(true) { out.violation("[C03] Udp: the resource disappeared although UDP has no disconnection"); }
            out.count("life_udp");
            out.case(&format!("life udp rep {}", rep), &format!("{}", nconn));
            if node.shutdown() { out.violation("[C17] Udp event processing panicked"); }
        }
    }
    // a listener is removed while a connection it accepted stays alive: the listening socket is released
    for t in [Transport::Tcp, Transport::FramedTcp] {
        mark_scenario(&out, &format!("net_life {:?}: remove(listener) while a connection it accepted stays open", t));
        let node = Net::new();
        let (lid, addr) = node.ctl.listen(t, "127.0.0.1:0").unwrap();
        let mut c = TcpStream::connect(addr).unwrap();
        node.wait(3000, |ev| ev.iter().any(|e| matches!(e, Ev::Accepted(..))));
        let fd_before = open_fds();
        let removed = node.ctl.remove(lid);
        std::thread::sleep(Duration::from_millis(50));
        let fd_after = open_fds();
        let refused = match TcpStream::connect_timeout(&addr, Duration::from_millis(500)) { Err(_) => true, Ok(s2) => { drop(s2); false } };
        // the accepted connection itself keeps working
        let mut w = vec![]; if t == Transport::FramedTcp { w.push(2u8); } w.extend(b"ok");
        c.write_all(&w).unwrap();
        let alive = node.wait(2000, |ev| ev.iter().any(|e| matches!(e, Ev::Message(_, d) if d == b"ok")));
        if !removed || fd_after + 1 != fd_before || !refused || !alive {
            out.violation(&format!("[C18,C04] {:?}: remove(listener) answered {} while a connection it had accepted was alive: descriptors {} -> {} (the listening socket must be closed), a new connect to its address was refused: {}, the accepted connection still delivers: {}", t, removed, fd_before, fd_after, refused, alive));
        }
        out.count("life_listener_removed_connection_alive");
        out.case(&format!("life listener-removed-conn-alive {:?}", t), "ok");
        drop(c);
        if node.shutdown() { out.violation("[C17,C18] event processing panicked"); }
    }
    // K2: one peer streams valid data without pause; a second, quiet connection of the same node
    for t in [Transport::FramedTcp] {
        mark_scenario(&out, &format!("net_life {:?}: a peer streams tiny frames without pause for 1.3 s; 100 ms into it another peer sends one datagram to the same node", t));
        let node = Net::new();
        let (_l, addr) = node.ctl.listen(t, "127.0.0.1:0").unwrap();
        let (ul, uaddr) = node.ctl.listen(Transport::Udp, "127.0.0.1:0").unwrap();
        let stop = Arc::new(AtomicBool::new(false));
        // the application spends 20 us on each message; the streaming peer has a small send buffer, so
        // that what is in flight when it stops is drained within a second or two
        FILLER_SPIN_US.store(20, Ordering::SeqCst);
        let streamer = { let stop = stop.clone(); std::thread::spawn(move || { if let Ok(mut c) = TcpStream::connect(addr) { let _ = socket2::SockRef::from(&c).set_send_buffer_size(16 * 1024); let _ = c.set_write_timeout(Some(Duration::from_millis(200))); let chunk: Vec<u8> = (0..2048).flat_map(|_| [1u8, 7u8]).collect(); while !stop.load(Ordering::SeqCst) { let _ = c.write_all(&chunk); } } }) };
        std::thread::sleep(Duration::from_millis(100));
        let canary = UdpSocket::bind("127.0.0.1:0").unwrap();
        canary.send_to(b"still there?", uaddr).unwrap();
        let t0 = Instant::now();
        let served = loop { if !node.messages_of(ul).is_empty() { break true; } if t0.elapsed() > Duration::from_millis(1200) { break false; } std::thread::sleep(Duration::from_millis(2)); };
        stop.store(true, Ordering::SeqCst);
        let _ = streamer.join();
        // once the stream ends the node recovers: the datagram arrives
        let recovered = node.wait(10_000, |_| !node.messages_of(ul).is_empty());
        FILLER_SPIN_US.store(0, Ordering::SeqCst);
        if !served {
            out.violation(&format!("[C17] K2 {:?}: while one peer streamed valid frames without pause (the application spends 20 us per message), a datagram of another peer to the same node was not delivered for 1.2 s (delivered after the stream ended: {}): the receive() call of the streaming connection does not return as long as its socket never runs empty, and it runs on the node's only network thread", t, recovered));
        }
        if !recovered { out.violation(&format!("[C17] {:?}: after a peer stopped streaming, a datagram of another peer that had arrived meanwhile was still not delivered 10 s later", t)); }
        out.count("life_streaming_peer_vs_quiet_peer");
        out.case(&format!("life streaming-peer {:?}", t), &format!("{} {}", served, recovered));
        node.shutdown();
    }
    // a Ws server that sends a close frame and keeps its TCP connection open (the node is the client)
    ws_server_speaks_first_threaded(&mut out, if a.thorough { 30 } else { 6 });
    // the listener is removed while a connection it accepted is still in its handshake: the connection
    // either gets announced and lives on, or is dropped; it never stays behind unannounced and open
    for rep in 0..(if a.thorough { 10 } else { 3 }) {
        mark_scenario(&out, "net_life Ws: remove(listener) while an accepted connection has not finished its handshake; the client then completes it and later closes");
        let node = Net::new();
        let (lid, addr) = node.ctl.listen(Transport::Ws, "127.0.0.1:0").unwrap();
        let fd_base = open_fds();
        let stream = TcpStream::connect(addr).unwrap();
        let _ = stream.set_read_timeout(Some(Duration::from_secs(2)));
        let _ = stream.set_write_timeout(Some(Duration::from_secs(2)));
        std::thread::sleep(Duration::from_millis(40)); // the node has accepted the TCP connection; its handshake is pending
        let removed = node.ctl.remove(lid);
        let hs = tungstenite::client(format!("ws://{}/x", addr), stream);
        let announced_after = node.wait(300, |ev| ev.iter().any(|e| matches!(e, Ev::Accepted(..))));
        match hs {
            Ok((mut ws, _)) => {
                let _ = ws.send(tungstenite::Message::Binary(vec![1, 2, 3].into()));
                std::thread::sleep(Duration::from_millis(50));
                drop(ws);
            }
            Err(_) => {}
        }
        // whatever happened: once the client is gone, the node holds no descriptor for it any more
        // (fd_base counts the listener's descriptor, which remove(lid) has closed)
        let released = { let end = Instant::now() + Duration::from_secs(3); loop { if open_fds() + 1 <= fd_base { break true; } if Instant::now() > end { break false; } std::thread::sleep(Duration::from_millis(10)); } };
        let accepted = node.snapshot().iter().any(|e| matches!(e, Ev::Accepted(..)));
        // (the descriptor is closed a moment before the Disconnected callback runs: wait for the event)
        let disconnected = accepted && node.wait(1000, |ev| ev.iter().any(|e| matches!(e, Ev::Disconnected(..))));
        let evs = node.snapshot();
        if !removed || !released || (accepted && !disconnected) {
            out.violation(&format!("[C18,C03] Ws: the listener was removed ({}) while a connection it had accepted was still in its handshake; the client then finished the handshake, sent a message and closed: Accepted delivered: {} (within 1.2 s of the handshake: {}), Disconnected delivered: {}, the node released the connection's descriptor within 3 s of the client's close: {}", removed, accepted, announced_after, disconnected, released));
        }
        lifecycle_check("Ws listener removed during handshake", &evs, &[], &[lid], &mut out);
        out.count("life_listener_removed_during_handshake");
        out.case(&format!("life listener-removed-during-handshake rep {}", rep), &format!("{} {}", accepted, released));
        if node.shutdown() { out.violation("[C17,C18] event processing panicked"); }
    }
    // C18: everything was shut down: descriptors and threads are back to where they were
    let end = Instant::now() + Duration::from_secs(3);
    while (open_fds() > fd0 || threads() > th0) && Instant::now() < end { std::thread::sleep(Duration::from_millis(20)); }
    if open_fds() > fd0 { out.violation(&format!("[C18] {} descriptors leaked over the whole history (listens, connects, accepts, removals, disconnections, refused connects, failed handshakes)", open_fds() - fd0)); }
    if threads() > th0 { out.violation(&format!("[C18] {} threads are still alive after every node was stopped", threads() - th0)); }
    out.add("fds_before", fd0 as u64);
    out.add("fds_after", open_fds() as u64);
    out.finish();
}

// ---------------------------------------------------------------------------------------------------
// C03: connect_sync returns Ok exactly when the connection was established (and is then usable),
// ConnectionRefused otherwise.  The event log of the node tells what was delivered.
// ---------------------------------------------------------------------------------------------------
pub fn run_sync(a: &Args) {
    let mut out = Out::new(&a.out);
    let reps = if a.thorough { 40 } else { 6 };
    for t in [Transport::Tcp, Transport::FramedTcp, Transport::Ws] {
        // (a) a peer that accepts and stays: Ok, ready at once, usable at once, Connected(ep, true) delivered once
        mark_scenario(&out, "net_sync (a) a peer that accepts and stays: Ok, ready at once, usable at once, Connected(ep, true) delivered once");
        for rep in 0..reps {
            let server = Net::new();
            let (_lid, addr) = server.ctl.listen(t, "127.0.0.1:0").unwrap();
            let node = Net::new();
            let r = node.ctl.connect_sync(t, addr);
            match r {
                Ok((ep, _local)) => {
                    let ready = node.ctl.is_ready(ep.resource_id());
                    let st = node.ctl.send(ep, &payload(rep as u64, 50));
                    if ready != Some(true) || st != SendStatus::Sent || ep.addr() != addr {
                        out.violation(&format!("[C03] {:?}: connect_sync returned Ok but the connection is not immediately usable: is_ready {:?}, send {:?}, endpoint address {} (asked {})", t, ready, st, ep.addr(), addr));
                    }
                    let okc = node.wait(3000, |ev| ev.iter().any(|e| matches!(e, Ev::Connected(e2, true) if *e2 == ep)));
                    let n = node.snapshot().iter().filter(|e| matches!(e, Ev::Connected(..))).count();
                    if !okc || n != 1 { out.violation(&format!("[C03] {:?}: connect_sync returned Ok; Connected(endpoint, true) delivered: {}, Connected events in total: {} (must be exactly one, carrying the returned endpoint)", t, okc, n)); }
                }
                Err(e) => out.violation(&format!("[C03] {:?}: connect_sync to a listening, accepting peer failed: {:?}", t, e.kind())),
            }
            out.count("sync_accepting_peer");
            out.case(&format!("sync accept {:?} rep {}", t, rep), "ok");
            if node.shutdown() | server.shutdown() { out.violation("[C17,C03] event processing panicked"); }
        }
        // (b) nobody listens: ConnectionRefused, exactly one Connected(_, false), nothing else
        mark_scenario(&out, "net_sync (b) nobody listens: ConnectionRefused, exactly one Connected(_, false), nothing else");
        for rep in 0..reps.min(6) {
            let dead_addr = { let l = TcpListener::bind("127.0.0.1:0").unwrap(); l.local_addr().unwrap() };
            let node = Net::new();
            let r = node.ctl.connect_sync(t, dead_addr);
            std::thread::sleep(Duration::from_millis(30));
            let evs = node.snapshot();
            match r {
                Ok((ep, _)) => out.violation(&format!("[C03] {:?}: connect_sync to a closed port returned Ok({}) (events: {})", t, ep, evs.len())),
                Err(e) => {
                    if e.kind() != std::io::ErrorKind::ConnectionRefused { out.violation(&format!("[C03] {:?}: connect_sync to a closed port failed with {:?} instead of ConnectionRefused", t, e.kind())); }
                    let shape_ok = evs.len() == 1 && matches!(evs[0], Ev::Connected(_, false));
                    if !shape_ok { out.violation(&format!("[C03] {:?}: a failed connect must yield Connected(_, false) and nothing else; the node saw {} events", t, evs.len())); }
                }
            }
            out.count("sync_closed_port");
            out.case(&format!("sync refused {:?} rep {}", t, rep), "ok");
            if node.shutdown() { out.violation("[C17,C03] event processing panicked"); }
        }
        // (c) the peer completes the connection (for Ws: the handshake) slowly: connect_sync must
        mark_scenario(&out, "net_sync (c) the peer completes the connection (for Ws: the handshake) slowly: connect_sync must");
        //     not return before the connection is usable
        for rep in 0..reps.min(4) {
            let l = TcpListener::bind("127.0.0.1:0").unwrap();
            let la = l.local_addr().unwrap();
            let delay = 20 + 40 * rep as u64;
            let peer = std::thread::spawn(move || {
                let (s, _) = l.accept().unwrap();
                std::thread::sleep(Duration::from_millis(delay));
                let mut keep_ws = None;
                let mut s2 = s.try_clone().unwrap();
                if t == Transport::Ws { keep_ws = ws_accept(s).ok(); }
                // read whatever the node sends for a while, then close
                s2.set_read_timeout(Some(Duration::from_millis(600))).unwrap();
                let mut buf = [0u8; 4096];
                let mut total = 0;
                loop { match s2.read(&mut buf) { Ok(0) => break, Ok(n) => total += n, Err(_) => break } if total > 0 && t != Transport::Ws { break; } if total > 200 { break; } }
                drop(keep_ws);
                total
            });
            let node = Net::new();
            let t0 = Instant::now();
            let r = node.ctl.connect_sync(t, la);
            let took = t0.elapsed();
            match &r {
                Ok((ep, _)) => {
                    let ep = *ep;
                    let ready = node.ctl.is_ready(ep.resource_id());
                    let st = node.ctl.send(ep, &payload(7, 60));
                    if ready != Some(true) || st != SendStatus::Sent { out.violation(&format!("[C03] {:?}: connect_sync returned Ok after {:?} against a slow peer, but is_ready is {:?} and send answers {:?}", t, took, ready, st)); }
                    if t == Transport::Ws && took < Duration::from_millis(delay) { out.violation(&format!("[C03] Ws: connect_sync returned Ok after {:?}, before the peer answered the handshake (it waits {} ms)", took, delay)); }
                }
                Err(e) => out.violation(&format!("[C03] {:?}: connect_sync against a slow but accepting peer failed: {:?}", t, e.kind())),
            }
            let got = peer.join().unwrap();
            if r_is_ok(&r) && got == 0 { out.violation(&format!("[C03,C13] {:?}: the message sent right after connect_sync returned Ok never reached the peer", t)); }
            out.count("sync_slow_peer");
            out.case(&format!("sync slow {:?} rep {}", t, rep), "ok");
            if node.shutdown() { out.violation("[C17,C03] event processing panicked"); }
        }
        // (d) K1: the peer establishes the connection and closes it at once.  Whatever connect_sync
        mark_scenario(&out, "net_sync (d) K1: the peer establishes the connection and closes it at once.  Whatever connect_sync");
        //     answers must match what was delivered: Ok <=> Connected(_, true) was delivered.
        let mut k1_seen = false;
        for rep in 0..(if a.thorough { 60 } else { 25 }) {
            if k1_seen && rep >= 3 { break; }
            let l = TcpListener::bind("127.0.0.1:0").unwrap();
            let la = l.local_addr().unwrap();
            let peer = std::thread::spawn(move || {
                let (s, _) = l.accept().unwrap();
                if t == Transport::Ws { if let Ok(ws) = ws_accept(s) { drop(ws); } } else { drop(s); }
            });
            let node = Net::new();
            let r = node.ctl.connect_sync(t, la);
            peer.join().unwrap();
            node.wait(1500, |ev| ev.iter().any(|e| matches!(e, Ev::Disconnected(_) | Ev::Connected(_, false))));
            let evs = node.snapshot();
            let established = evs.iter().any(|e| matches!(e, Ev::Connected(_, true)));
            let disconnected = evs.iter().any(|e| matches!(e, Ev::Disconnected(_)));
            match &r {
                Ok((ep, _)) => {
                    if !evs.iter().any(|e| matches!(e, Ev::Connected(e2, true) if e2 == ep)) { out.violation(&format!("[C03] {:?}: connect_sync returned Ok({}) but no Connected(endpoint, true) was delivered", t, ep)); }
                }
                Err(e) => {
                    if e.kind() != std::io::ErrorKind::ConnectionRefused { out.violation(&format!("[C03] {:?}: connect_sync failed with {:?}", t, e.kind())); }
                    else if established && disconnected {
                        k1_seen = true;
                        out.violation(&format!("[C03] K1 {:?}: connect_sync reported ConnectionRefused for a connection that was established: the peer accepted and closed before the next is_ready() poll; Connected(_, true) and Disconnected were both delivered", t));
                    } else if established {
                        out.violation(&format!("[C03] {:?}: connect_sync reported ConnectionRefused while the connection is established and not disconnected", t));
                    }
                }
            }
            out.count("sync_accept_and_close");
            out.case(&format!("sync accept-close {:?} rep {}", t, rep), &format!("{} {} {}", r.is_ok(), established, disconnected));
            if node.shutdown() { out.violation("[C17,C03] event processing panicked"); }
        }
        out.add(if k1_seen { "k1_observed" } else { "k1_not_observed" }, 1);
    }
    // (deep search / thorough) a connection that takes 6.5 s to get established: connect_sync waits, then Ok
    if a.thorough || a.rest.iter().any(|x| x == "slow") {
        mark_scenario(&out, "net_sync: a Ws server whose processor is pumped only after 6.5 s: connect_sync must wait and then answer Ok");
        let (sctl, mut sproc) = network::split();
        let (_l, addr) = sctl.listen(Transport::Ws, "127.0.0.1:0").unwrap();
        let stop = Arc::new(AtomicBool::new(false));
        let pump = { let stop = stop.clone(); std::thread::spawn(move || { std::thread::sleep(Duration::from_millis(6500)); while !stop.load(Ordering::SeqCst) { sproc.process_poll_event(Some(Duration::from_millis(10)), |_| ()); } }) };
        let node = Net::new();
        let t0 = Instant::now();
        let r = node.ctl.connect_sync(Transport::Ws, addr);
        let took = t0.elapsed();
        std::thread::sleep(Duration::from_millis(200));
        let established = node.snapshot().iter().any(|e| matches!(e, Ev::Connected(_, true)));
        match &r {
            Ok((ep, _)) => { if node.ctl.is_ready(ep.resource_id()) != Some(true) || took < Duration::from_millis(6000) { out.violation(&format!("[C03] connect_sync answered Ok after {:?} although the peer only answers after 6.5 s (is_ready {:?})", took, node.ctl.is_ready(ep.resource_id()))); } }
            Err(e) => out.violation(&format!("[C03] connect_sync against a peer that completes the handshake after 6.5 s answered Err({:?}) after {:?}; Connected(_, true) delivered afterwards: {} (Ok exactly when the connection gets established; ConnectionRefused otherwise)", e.kind(), took, established)),
        }
        stop.store(true, Ordering::SeqCst);
        let _ = pump.join();
        out.count("sync_very_slow_peer");
        out.case("sync veryslow ws", &format!("{}", r.is_ok()));
        if node.shutdown() { out.violation("[C17,C03] event processing panicked"); }
    }
    // Udp with a processor that starts polling 300 ms late: Ok means usable
    {
        mark_scenario(&out, "net_sync Udp: connect_sync while the processor thread starts polling only 300 ms later");
        let (ctl, mut processor) = network::split();
        let ctl = Arc::new(ctl);
        let peer = UdpSocket::bind("127.0.0.1:0").unwrap();
        let stop = Arc::new(AtomicBool::new(false));
        let pump = { let stop = stop.clone(); std::thread::spawn(move || { std::thread::sleep(Duration::from_millis(300)); while !stop.load(Ordering::SeqCst) { processor.process_poll_event(Some(Duration::from_millis(5)), |_| ()); } }) };
        let t0 = Instant::now();
        let r = ctl.connect_sync(Transport::Udp, peer.local_addr().unwrap());
        match r {
            Ok((ep, _)) => { let st = ctl.send(ep, b"first"); if st != SendStatus::Sent || ctl.is_ready(ep.resource_id()) != Some(true) { out.violation(&format!("[C03] Udp: connect_sync answered Ok after {:?} (the processor starts polling after 300 ms) but send() on the returned endpoint answers {:?}: Ok means immediately usable", t0.elapsed(), st)); } }
            Err(e) => out.violation(&format!("[C03] Udp: connect_sync failed: {:?}", e.kind())),
        }
        stop.store(true, Ordering::SeqCst);
        let _ = pump.join();
        out.count("sync_udp_late_processor");
        out.case("sync udp late processor", "ok");
    }
    // Udp: always Ok, ready, exactly one Connected(true)
    for rep in 0..reps.min(6) {
        let sock = UdpSocket::bind("127.0.0.1:0").unwrap();
        let node = Net::new();
        match node.ctl.connect_sync(Transport::Udp, sock.local_addr().unwrap()) {
            Ok((ep, _)) => {
                let st = node.ctl.send(ep, b"hello");
                let okc = node.wait(2000, |ev| ev.iter().any(|e| matches!(e, Ev::Connected(e2, true) if *e2 == ep)));
                if node.ctl.is_ready(ep.resource_id()) != Some(true) || st != SendStatus::Sent || !okc { out.violation(&format!("[C03] Udp: connect_sync Ok, but is_ready {:?}, send {:?}, Connected(true) delivered {}", node.ctl.is_ready(ep.resource_id()), st, okc)); }
            }
            Err(e) => out.violation(&format!("[C03] Udp: connect_sync failed: {:?}", e.kind())),
        }
        out.count("sync_udp");
        out.case(&format!("sync udp rep {}", rep), "ok");
        if node.shutdown() { out.violation("[C17,C03] event processing panicked"); }
    }
    out.finish();
}

fn r_is_ok<T, E>(r: &Result<T, E>) -> bool { r.is_ok() }

//! C02 / C17(layer 1): function correspondence for util/encoding.rs (+ integer-encoding).
//! case lines:
//!   feed <chunk>;<chunk>;...        (hex, '-' = empty chunk)
//!        impl: per chunk "<out>,<out>,...|<stored_size>" (outs in hex, '-' empty payload, '.' none), or "PANIC@k"
//!   encsz <n>                       impl: hex of the prefix encode_size writes for a payload of n bytes
//!   decsz <hex>                     impl: "<size> <used>" or "none"
//! Well-formed cases are tagged by a second file line "# wf" carried in the counters only; the
//! implementation-level oracle (exact message list, nothing buffered) runs here.
use crate::util::*;
use integer_encoding::VarInt;
use message_io::util::encoding::{self, Decoder, MAX_ENCODED_SIZE};

fn chunks_to_line(chunks: &[Vec<u8>]) -> String {
    let mut s = String::from("feed ");
    for (i, c) in chunks.iter().enumerate() {
        if i > 0 {
            s.push(';');
        }
        s.push_str(&hex(c));
    }
    s
}

/// run the real decoder; returns the impl line, the outputs, final stored size (None = panicked)
fn run_impl(chunks: &[Vec<u8>]) -> (String, Option<(Vec<Vec<u8>>, usize)>) {
    let mut dec = Decoder::default();
    let mut line = String::new();
    let mut all = vec![];
    for (k, c) in chunks.iter().enumerate() {
        let mut outs: Vec<Vec<u8>> = vec![];
        let ok = panics(|| dec.decode(c, |d| outs.push(d.to_vec()))).is_some();
        if !ok {
            if k > 0 {
                line.push(' ');
            }
            line.push_str(&format!("PANIC@{}", k));
            return (line, None);
        }
        if k > 0 {
            line.push(' ');
        }
        if outs.is_empty() {
            line.push('.');
        } else {
            line.push_str(&outs.iter().map(|o| hex(o)).collect::<Vec<_>>().join(","));
        }
        line.push_str(&format!("|{}", dec.stored_size()));
        all.extend(outs);
    }
    (line, Some((all, dec.stored_size())))
}

fn frame(payload: &[u8]) -> Vec<u8> {
    let mut buf = [0u8; MAX_ENCODED_SIZE];
    let mut v = encoding::encode_size(payload, &mut buf).to_vec();
    v.extend_from_slice(payload);
    v
}

fn cut(stream: &[u8], mask_positions: &[usize]) -> Vec<Vec<u8>> {
    // cut before each listed position (sorted, 0 < p < len)
    let mut out = vec![];
    let mut last = 0;
    for &p in mask_positions {
        out.push(stream[last..p].to_vec());
        last = p;
    }
    out.push(stream[last..].to_vec());
    out
}

fn wf_case(out: &mut Out, msgs: &[Vec<u8>], chunks: &[Vec<u8>], kind: &str) {
    let (line, res) = run_impl(chunks);
    out.count(kind);
    out.add("chunks_total", chunks.len() as u64);
    match res {
        None => out.violation(&format!("decoder panicked on a well-formed stream: {}", chunks_to_line(chunks))),
        Some((outs, stored)) => {
            if outs != msgs {
                out.violation(&format!("well-formed stream decoded to a different message list ({} messages expected, {} delivered): {}", msgs.len(), outs.len(), short(&chunks_to_line(chunks))));
            } else if stored != 0 {
                out.violation(&format!("decoder left {} bytes buffered after the last complete frame: {}", stored, short(&chunks_to_line(chunks))));
            }
        }
    }
    out.case(&chunks_to_line(chunks), &line);
}

fn short(s: &str) -> String {
    if s.len() > 300 { format!("{}...({} chars)", &s[..300], s.len()) } else { s.to_string() }
}

thread_local! { static MARKER: std::cell::RefCell<Option<std::fs::File>> = std::cell::RefCell::new(None); }

fn mark_current(out: &Out, line: &str) {
    use std::io::{Seek, SeekFrom, Write};
    MARKER.with(|m| {
        let mut m = m.borrow_mut();
        if m.is_none() {
            *m = std::fs::File::create(out.dir.join("current_case.txt")).ok();
        }
        if let Some(f) = m.as_mut() {
            let _ = f.seek(SeekFrom::Start(0));
            let _ = f.write_all(line.as_bytes());
            let _ = f.write_all(b"\n#END#                                                                \n");
        }
    });
}

fn hostile_case(out: &mut Out, stream: &[u8], chunks: &[Vec<u8>], kind: &str) {
    // if the process dies here (abort on allocation failure, stack overflow) the check finds the
    // input in this marker file
    mark_current(out, &chunks_to_line(chunks));
    let (line, res) = run_impl(chunks);
    out.count(kind);
    match &res {
        None => out.violation(&format!("decoder panicked on peer-controlled bytes: {}", short(&chunks_to_line(chunks)))),
        Some((outs, stored)) => {
            // chunking independence on arbitrary streams: same result as one chunk
            let (_, one) = run_impl(&[stream.to_vec()]);
            match one {
                Some((o1, s1)) => {
                    if &o1 != outs || s1 != *stored {
                        out.violation(&format!("result depends on chunking for stream {}: one chunk gives {} messages / {} stored, {} gives {} / {}", hex(stream), o1.len(), s1, short(&chunks_to_line(chunks)), outs.len(), stored));
                    }
                }
                None => out.violation(&format!("decoder panicked on peer-controlled bytes (single chunk): {}", hex(stream))),
            }
            if *stored > stream.len() {
                out.violation(&format!("decoder buffers more than it received: {}", hex(stream)));
            }
        }
    }
    out.case(&chunks_to_line(chunks), &line);
}

fn all_cuts(n: usize) -> impl Iterator<Item = Vec<usize>> {
    let bits = if n == 0 { 0 } else { n - 1 };
    (0u64..(1u64 << bits)).map(move |m| (0..bits).filter(|i| m >> i & 1 == 1).map(|i| i + 1).collect())
}

fn compositions(total: usize) -> Vec<Vec<usize>> {
    // all ways to write `total` as an ordered sum of frame lengths >= 1 (frame = 1-byte prefix + payload)
    if total == 0 {
        return vec![vec![]];
    }
    let mut out = vec![];
    for first in 1..=total {
        for mut rest in compositions(total - first) {
            let mut v = vec![first];
            v.append(&mut rest);
            out.push(v);
        }
    }
    out
}

fn pattern(kind: usize, n: usize) -> Vec<u8> {
    match kind {
        0 => vec![0x00; n],
        1 => vec![0x80; n],
        2 => vec![0xff; n],
        3 => vec![0x01; n],
        _ => (0..n).map(|i| (i * 37 + 5) as u8).collect(),
    }
}

pub fn run(a: &Args) {
    let mut out = Out::new(&a.out);
    let mut r = Rng::new(a.seed);

    if let Some(p) = &a.replay {
        for l in std::fs::read_to_string(p).unwrap().lines() {
            if let Some(rest) = l.strip_prefix("feed ") {
                let chunks: Vec<Vec<u8>> = rest.split(';').map(unhex).collect();
                let stream: Vec<u8> = chunks.concat();
                hostile_case(&mut out, &stream, &chunks, "replay");
            }
        }
        out.finish();
        return;
    }

    let do_wf = a.rest.is_empty() || a.rest.iter().any(|x| x == "wf");
    let do_hostile = a.rest.is_empty() || a.rest.iter().any(|x| x == "hostile");
    if do_wf {
        well_formed(a, &mut out, &mut r);
    }
    if do_hostile {
        hostile(a, &mut out, &mut r);
    }
    out.finish();
}

fn well_formed(a: &Args, out: &mut Out, r: &mut Rng) {
    let mut out = out;
    // ---- prefixes: encode_size / decode_size --------------------------------------------------
    let mut sizes: Vec<u64> = vec![0, 1, 2, 126, 127, 128, 129, 255, 256, 16383, 16384, 16385, (1 << 21) - 1, 1 << 21, (1 << 21) + 1];
    for _ in 0..40 {
        sizes.push(r.below(1 << 21));
    }
    for &n in &sizes {
        let payload = vec![0u8; n as usize];
        let mut buf = [0u8; MAX_ENCODED_SIZE];
        let pre = encoding::encode_size(&payload, &mut buf).to_vec();
        out.case(&format!("encsz {}", n), &hex(&pre));
        out.count("encsz_real_buffers");
        match encoding::decode_size(&pre) {
            Some((sz, used)) if sz as u64 == n && used == pre.len() => {}
            other => out.violation(&format!("prefix of a {}-byte payload decodes back to {:?}", n, other)),
        }
    }
    // beyond what a buffer can be allocated for: the same code path (usize::encode_var)
    let mut big: Vec<u64> = vec![(1 << 28) - 1, 1 << 28, (1 << 28) + 1, (1 << 35) - 1, 1 << 35, 1 << 42, 1 << 49, 1 << 56, (1 << 63) - 1, 1 << 63, u64::MAX - 1, u64::MAX];
    for _ in 0..(if a.thorough { 5000 } else { 200 }) {
        big.push(r.next() >> r.below(64));
    }
    for &n in &big {
        let mut buf = [0u8; MAX_ENCODED_SIZE];
        let k = (n as usize).encode_var(&mut buf);
        out.case(&format!("encsz {}", n), &hex(&buf[..k]));
        out.count("encsz_varint_only");
        match encoding::decode_size(&buf[..k]) {
            Some((sz, used)) if sz as u64 == n && used == k => {}
            other => out.violation(&format!("varint of {} decodes back to {:?}", n, other)),
        }
    }
    // ---- (i) exhaustive small well-formed streams x all cuts ---------------------------------
    let max_total = if a.thorough { 9 } else { 7 };
    for total in 1..=max_total {
        for comp in compositions(total) {
            for pat in 0..5 {
                if pat > 0 && comp.iter().all(|&f| f == 1) {
                    continue; // only empty payloads: the pattern does not matter
                }
                let msgs: Vec<Vec<u8>> = comp.iter().map(|&f| pattern(pat, f - 1)).collect();
                let stream: Vec<u8> = msgs.iter().flat_map(|m| frame(m)).collect();
                for cuts in all_cuts(stream.len()) {
                    wf_case(&mut out, &msgs, &cut(&stream, &cuts), "wf_exhaustive_small");
                }
            }
        }
    }
    // ---- (ii) boundary lengths: every subset of cut points around the prefix and the frame end ---
    let bl: Vec<usize> = if a.thorough { vec![127, 128, 129, 16383, 16384, 16385, (1 << 21) - 1, 1 << 21, (1 << 21) + 1] } else { vec![127, 128, 129, 16383, 16384, 16385, 1 << 21] };
    for &l in &bl {
        for shape in 0..3 {
            let mut msgs: Vec<Vec<u8>> = vec![];
            if shape == 1 {
                msgs.push(vec![0x80, 0x80]);
            }
            msgs.push(pattern(if l % 2 == 0 { 1 } else { 4 }, l));
            if shape == 2 {
                msgs.push(vec![]);
                msgs.push(vec![0xff]);
            }
            let stream: Vec<u8> = msgs.iter().flat_map(|m| frame(m)).collect();
            let lead = if shape == 1 { 3 } else { 0 };
            // candidate cut points: inside/around the long frame's prefix, and around its end
            let mut cand: Vec<usize> = (lead.max(1)..lead + 6).collect();
            let end = lead + frame(&msgs[if shape == 1 { 1 } else { 0 }]).len();
            for p in [end - 1, end, end + 1] {
                if p > 0 && p < stream.len() && !cand.contains(&p) {
                    cand.push(p);
                }
            }
            cand.retain(|&p| p > 0 && p < stream.len());
            cand.sort();
            let big = l > 100_000;
            let nsub = 1u64 << cand.len();
            for m in 0..nsub {
                // 2 MiB buffers cost seconds each in the extracted model: sample the cut subsets
                if big && m != 0 && m != nsub - 1 && m % (if a.thorough { 16 } else { 128 }) != (shape as u64 * 5 + 3) {
                    continue;
                }
                let cuts: Vec<usize> = (0..cand.len()).filter(|i| m >> i & 1 == 1).map(|i| cand[i]).collect();
                wf_case(&mut out, &msgs, &cut(&stream, &cuts), "wf_boundary_lengths");
            }
        }
    }
    // ---- (ii') lists with messages above 64 KiB cut the way socket reads cut them (fixed read sizes):
    //      the read that completes a big message also carries the beginning of the next frame ------
    for (li, lens) in [vec![70_000usize, 70_000, 5], vec![65_536, 65_537, 0, 1], vec![200_000, 70_000, 3, 66_000], vec![66_000, 66_000, 66_000], vec![131_072, 1, 131_073]].iter().enumerate() {
        let msgs: Vec<Vec<u8>> = lens.iter().enumerate().map(|(i, l)| pattern((li + i) % 5, *l)).collect();
        let stream: Vec<u8> = msgs.iter().flat_map(|m| frame(m)).collect();
        for read in [65_535usize, 16_384, 100_000, 70_004, 1 << 17] {
            let cuts: Vec<usize> = (1..).map(|k| k * read).take_while(|p| *p < stream.len()).collect();
            wf_case(&mut out, &msgs, &cut(&stream, &cuts), "wf_big_messages_fixed_read_sizes");
        }
        // and one cut inside each following frame (prefix or payload)
        let mut off = 0;
        for m in &msgs[..msgs.len() - 1] {
            off += frame(m).len();
            for d in [1usize, 2] { if off + d < stream.len() { wf_case(&mut out, &msgs, &cut(&stream, &[off + d]), "wf_big_messages_cut_in_next_frame"); } }
        }
    }
    // ---- (ii'') a message completed out of the decoder's buffer, then a message of >= 128 bytes whose
    //      two-byte prefix is split between two reads (state left over from the first must not leak) ----
    for lens in [vec![100usize, 300, 5], vec![3, 130, 200, 1], vec![200, 128, 16384, 2]] {
        let msgs: Vec<Vec<u8>> = lens.iter().enumerate().map(|(i, l)| pattern(i % 5, *l)).collect();
        let stream: Vec<u8> = msgs.iter().flat_map(|m| frame(m)).collect();
        let mut offs = vec![]; let mut o = 0; for m in &msgs { offs.push(o); o += frame(m).len(); }
        for k in 1..msgs.len() {
            if msgs[k].len() < 128 { continue; }
            let split_prefix = offs[k] + 1; // between the two bytes of message k's prefix
            for c1 in (1..offs[k]).step_by(if offs[k] > 40 { 9 } else { 1 }) {
                wf_case(&mut out, &msgs, &cut(&stream, &[c1, split_prefix]), "wf_buffered_then_split_prefix");
                if split_prefix + 5 < stream.len() { wf_case(&mut out, &msgs, &cut(&stream, &[c1, split_prefix, split_prefix + 5]), "wf_buffered_then_split_prefix"); }
            }
        }
    }
    // ---- (iii) random well-formed lists and cuts ------------------------------------------------
    for _ in 0..(if a.thorough { 50_000 } else { 400 }) {
        let nm = r.range(1, 6) as usize;
        let msgs: Vec<Vec<u8>> = (0..nm)
            .map(|_| {
                let l = match r.below(10) { 0 => 0, 1 => 127, 2 => 128, 3 => r.range(129, 400), 4 => if r.chance(1, 8) { 16384 } else { 200 }, _ => r.below(20) } as usize;
                let pat = r.below(5) as usize;
                pattern(pat, l)
            })
            .collect();
        let stream: Vec<u8> = msgs.iter().flat_map(|m| frame(m)).collect();
        let ncuts = r.below(8) as usize;
        let mut cuts: Vec<usize> = (0..ncuts).map(|_| r.range(1, stream.len().max(2) as u64 - 1) as usize).filter(|&p| p < stream.len()).collect();
        cuts.sort();
        cuts.dedup();
        let mut chunks = cut(&stream, &cuts);
        if r.chance(1, 4) {
            let at = r.below(chunks.len() as u64 + 1) as usize;
            chunks.insert(at, vec![]); // empty reads are legal inputs of decode()
        }
        wf_case(&mut out, &msgs, &chunks, "wf_random");
    }
}

fn hostile(a: &Args, out: &mut Out, r: &mut Rng) {
    let mut out = out;
    // decode_size on arbitrary bytes
    let mut decs: Vec<Vec<u8>> = vec![vec![], vec![0], vec![0x80], vec![0x80, 0], vec![0xff; 9], vec![0xff; 10], vec![0x80; 10], vec![0x80; 11],
        vec![0xff, 0xff, 0xff, 0xff, 0xff, 0xff, 0xff, 0xff, 0xff, 0x01], vec![0xff, 0xff, 0xff, 0xff, 0xff, 0xff, 0xff, 0xff, 0xff, 0x7f],
        vec![0x80, 0x80, 0x80, 0x80, 0x80, 0x80, 0x80, 0x80, 0x80, 0x02], vec![0x80, 0x80, 0x80, 0x80, 0x80, 0x80, 0x80, 0x80, 0x80, 0x81]];
    for _ in 0..(if a.thorough { 20000 } else { 1500 }) {
        let n = r.below(13) as usize;
        decs.push((0..n).map(|_| *r.pick(&[0u8, 1, 2, 0x7f, 0x80, 0x81, 0xfe, 0xff, r.clone().next() as u8])).collect());
    }
    for d in &decs {
        let line = match encoding::decode_size(d) {
            Some((s, u)) => format!("{} {}", s, u),
            None => "none".into(),
        };
        out.case(&format!("decsz {}", hex(d)), &line);
        out.count("decsz");
    }

    // unfinished 2^28 frame: prefix + partial payload stays buffered, nothing delivered
    {
        let mut buf = [0u8; MAX_ENCODED_SIZE];
        let k = (1usize << 28).encode_var(&mut buf);
        let mut stream = buf[..k].to_vec();
        stream.extend_from_slice(&[7u8; 40]);
        for cuts in all_cuts(k + 2) {
            hostile_case(&mut out, &stream, &cut(&stream, &cuts), "unfinished_2_28_frame");
        }
    }
    // ---- (iv) hostile streams ----------------------------------------------------------------------
    let alpha: [u8; 6] = [0x00, 0x01, 0x02, 0x80, 0x81, 0xff];
    let maxlen = if a.thorough { 6 } else { 4 };
    for n in 1..=maxlen {
        let mut idx = vec![0usize; n];
        loop {
            let stream: Vec<u8> = idx.iter().map(|&i| alpha[i]).collect();
            for cuts in all_cuts(n) {
                hostile_case(&mut out, &stream, &cut(&stream, &cuts), "hostile_exhaustive_small");
            }
            let mut k = 0;
            while k < n {
                idx[k] += 1;
                if idx[k] < alpha.len() {
                    break;
                }
                idx[k] = 0;
                k += 1;
            }
            if k == n {
                break;
            }
        }
    }
    // all-continuation runs, over-long and non-canonical prefixes, huge declared lengths, every split
    let mut specials: Vec<Vec<u8>> = vec![];
    for run in [9usize, 10, 11, 12, 20] {
        for tail in [vec![], vec![0x00], vec![0x01, 1, 2, 3], vec![0x7f]] {
            let mut s = vec![0x80u8; run];
            s.extend_from_slice(&tail);
            specials.push(s);
            let mut s = vec![0xffu8; run];
            s.extend_from_slice(&tail);
            specials.push(s);
        }
    }
    specials.push(vec![0x80, 0x00, 1, 2, 3]);
    specials.push(vec![0x80, 0x80, 0x00, 9, 9]);
    specials.push(vec![0x81, 0x00, 5, 1, 6]);
    specials.push(vec![0x83, 0x80, 0x00, 1, 2, 3, 4]);
    specials.push(vec![0xff, 0xff, 0xff, 0xff, 0xff, 0xff, 0xff, 0xff, 0xff, 0x01, 1, 2, 3]);
    specials.push(vec![0xff, 0xff, 0xff, 0xff, 0xff, 0xff, 0xff, 0xff, 0x7f, 1, 2, 3]);
    for s in &specials {
        if s.len() <= 13 {
            for cuts in all_cuts(s.len()) {
                hostile_case(&mut out, s, &cut(s, &cuts), "hostile_special_all_cuts");
            }
        } else {
            for p in 1..s.len() {
                hostile_case(&mut out, s, &cut(s, &[p]), "hostile_special_one_cut");
                if p + 1 < s.len() {
                    hostile_case(&mut out, s, &cut(s, &[p, p + 1]), "hostile_special_two_cuts");
                }
            }
        }
    }
    for _ in 0..(if a.thorough { 200_000 } else { 3000 }) {
        let n = r.range(1, 24) as usize;
        let stream: Vec<u8> = (0..n).map(|_| match r.below(6) { 0 => 0x80, 1 => 0xff, 2 => 0, 3 => r.below(4) as u8, 4 => 0x80 | r.below(4) as u8, _ => r.next() as u8 }).collect();
        let ncuts = r.below(6) as usize;
        let mut cuts: Vec<usize> = (0..ncuts).map(|_| r.range(1, n as u64) as usize).filter(|&p| p < n).collect();
        cuts.sort();
        cuts.dedup();
        hostile_case(&mut out, &stream, &cut(&stream, &cuts), "hostile_random");
    }
}

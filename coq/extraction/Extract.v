(* Extraction of the executable model to OCaml (run from ocaml/model/, see ./check).
   Only ExtrOcamlBasic is used: bool/option/unit/list/prod/sumbool/sumor map to OCaml's own;
   N, positive, nat stay Coq datatypes; there is no Extract Constant. *)
From Coq Require Import Extraction ExtrOcamlBasic.
From MIO Require Import Base Gen RemoteAddr ResId Varint Decoder Queue QueueLog Driver Node.

Extraction Language OCaml.
Set Extraction Optimize.

Separate Extraction
  Base.usub Base.ushl
  RemoteAddr.gen_shape RemoteAddr.to_remote_addr RemoteAddr.is_socket_addr RemoteAddr.is_string
  RemoteAddr.socket_addr RemoteAddr.string_of RemoteAddr.from_socket RemoteAddr.shape_ok
  ResId.gen_layout ResId.mk_id ResId.mk_id_raw ResId.resource_type ResId.adapter_id ResId.base_value
  ResId.token_of_id ResId.id_of_token ResId.issue ResId.layout_ok
  Varint.decode_size Varint.enc Varint.encode_size
  Decoder.decode Decoder.feed Decoder.parse Decoder.frames Decoder.try_decode Decoder.store_and_decoded_data
  Queue.qinit Queue.step Queue.run Queue.sstep Queue.srun Queue.spec_init Queue.spec_step Queue.spec_run
  QueueLog.same_multiset_b QueueLog.all_fifo_b
  Driver.dinit Driver.drun Driver.dstep Driver.process Driver.exec_ucall Driver.lifecycle_ok_b Driver.count_ends
  Node.ninit Node.nstep Node.nrun.

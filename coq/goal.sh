#!/bin/sh
# usage: goal.sh file.v LINE  — show the proof state after the first LINE lines
head -n "$2" "$1" > /tmp/goal_tmp.v
echo "Show." >> /tmp/goal_tmp.v
cd /verif/coq && coqtop -Q theories MIO -Q props MIOP < /tmp/goal_tmp.v 2>&1 | tail -${3:-40}

(* C17 — A misbehaving peer cannot crash, wedge or confuse the node.
   Layer 1: the frame decoder is total on arbitrary bytes. (Layers 2 and 3 — adapter loops and
   driver non-interference — are in props/C17b.v.) *)
From MIO Require Import Base Gen ListN Varint VarintProofs Decoder DecoderProofs.
Local Open Scope N_scope.

Theorem C17_gen_obligation : varint_consts_ok = true.
Proof. vm_compute. reflexivity. Qed.

(* For ALL chunk lists over ALL byte values (no well-formedness assumed), in debug (checked) and
   release (wrapping) arithmetic: decode never panics and never runs out of fuel; it never
   buffers more than it received; what it buffers contains no complete frame; and what it
   delivered is exactly what a one-shot parse of the received bytes delivers — a peer cannot make
   the result depend on how its bytes were segmented. *)
Theorem C17_decoder_total : forall (m : mode) (cs : list (list N)),
  exists stored outs,
    feed m cs = DOk stored outs /\
    (length stored <= length (concat cs))%nat /\
    parse stored = Some ([], stored) /\
    parse (concat cs) = Some (outs, stored).
Proof. exact (decoder_total C17_gen_obligation). Qed.

(* the two inputs that crashed the decoder before the fix: now plain results *)
Example C17_former_witnesses :
  feed Checked [[128]; [0; 1; 2; 3]] = DOk [3] [[]; [2]] /\
  feed Wrapping [[128]; [0; 1; 2; 3]] = DOk [3] [[]; [2]] /\
  (exists st, feed Checked [[128; 128; 128; 128; 128; 128; 128; 128; 128; 128; 128; 128]; [1; 1; 2; 3]] = DOk st []).
Proof. split; [vm_compute; reflexivity|]. split; [vm_compute; reflexivity|]. eexists. vm_compute. reflexivity. Qed.

Print Assumptions C17_gen_obligation.
Print Assumptions C17_decoder_total.

(* C17 — A misbehaving peer cannot crash, wedge or confuse the node.
   Layer 1: the frame decoder is total on arbitrary bytes.  Layer 3: in the driver, processing one
   connection cannot touch another.  (Layer 2, the adapters' read loops on hostile bytes, and
   tungstenite's parser are exercised by the hostile-peer scenarios with a healthy canary
   connection beside them; the lifecycle theorem of C03 holds for ANY adapter answers.) *)
From MIO Require Import Base Gen ListN Varint VarintProofs Decoder DecoderProofs ResId Driver DriverProofs DriverIso Wire WireProofs.
Local Open Scope N_scope.

Theorem C17_gen_obligation : varint_consts_ok = true /\ layout_ok gen_layout = true.
Proof. split; vm_compute; reflexivity. Qed.

(* For ALL chunk lists over ALL byte values (no well-formedness assumed), in debug (checked) and
   release (wrapping) arithmetic: decode never panics and never runs out of fuel; it never
   buffers more than it received; what it buffers contains no complete frame; and what it
   delivered is exactly what a one-shot parse of the received bytes delivers — a peer cannot make
   the result depend on how its bytes were segmented. *)
Theorem C17_decoder_total : forall (m : mode) (cs : list (list N)),
  exists stored outs,
    feed m cs = DOk stored outs /\
    (length stored <= length (concat cs))%nat /\
    parse stored = Some ([], stored) /\
    parse (concat cs) = Some (outs, stored).
Proof. exact (decoder_total (proj1 C17_gen_obligation)). Qed.

(* the two inputs that crashed the decoder before the fix: now plain results *)
Example C17_former_witnesses :
  feed Checked [[128]; [0; 1; 2; 3]] = DOk [3] [[]; [2]] /\
  feed Wrapping [[128]; [0; 1; 2; 3]] = DOk [3] [[]; [2]] /\
  (exists st, feed Checked [[128; 128; 128; 128; 128; 128; 128; 128; 128; 128; 128; 128]; [1; 1; 2; 3]] = DOk st []).
Proof. split; [vm_compute; reflexivity|]. split; [vm_compute; reflexivity|]. eexists. vm_compute. reflexivity. Qed.

(* Whatever the adapter of ONE connection answers while that connection is processed -- and a
   hostile peer controls exactly that: whether the handshake "completes", which chunks are
   "received", whether the read ends in Disconnected -- and as long as user code makes no
   controller calls of its own inside the callbacks: no other registry entry changes, no listener,
   no id counter, and every event emitted is about that connection. *)
Theorem C17_isolation : forall (s : dstate) (id : rid) (rd : readiness) (a : answer),
  resource_type gen_layout id = Remote -> quiet a ->
  same_elsewhere id s (fst (process s id rd a)) /\ Forall (about id) (snd (process s id rd a)).
Proof. exact isolation. Qed.

(* The listener side, in every reachable state of the driver: whatever arrives at a listener -- any
   number of inbound connections (hostile or not: they become pending entries with fresh ids), any
   datagrams -- leaves the registry entry of every existing connection exactly as it was, leaves
   the listeners as they were, and emits nothing but Message events of that listener.  (A pending
   connection is announced only by its own Accepted, and only if its handshake succeeds: C03.) *)
Theorem C17_listener_event_isolation : forall (a : N) (ls : list dlabel) (lid : rid) (items : list accepted),
  a <= max_adapter gen_layout -> cost_labels ls + cost_accepts items <= max_base gen_layout + 1 ->
  resource_type gen_layout lid = Local -> In lid (locals (fst (drun (dinit a) ls))) ->
  Forall quiet_accept items ->
  let s := fst (drun (dinit a) ls) in
  (forall i p, find_remote i (remotes s) = Some p -> find_remote i (remotes (fst (do_accepts s lid items))) = Some p) /\
  locals (fst (do_accepts s lid items)) = locals s /\
  Forall (fun o => exists peer d, o = OEv (Message (lid, peer) d)) (snd (do_accepts s lid items)).
Proof. exact (listener_event_isolation (proj2 C17_gen_obligation)). Qed.

(* "...or disturb other connections, which keep exchanging messages normally": in TIME this holds
   only as long as the peer lets its socket run empty.  The read loop of a stream connection
   (tcp.rs / framed_tcp.rs receive(), on the node's only network thread) returns as soon as a
   read finds the socket empty ... *)
Theorem C17_receive_call_ends_when_socket_runs_empty : forall (cs : list (list N)) (rest : list rres),
  tcp_receive (map RData cs ++ RWouldBlock :: rest) = (cs, Some RWaitNextEvent).
Proof. exact receive_returns_when_socket_runs_empty. Qed.

(* KNOWN FINDING K2 (known_findings.json): ... and not before.  For EVERY n a peer that keeps data
   coming makes ONE receive() call hand over n chunks without returning; nothing else of the node
   is served meanwhile (other connections, signals of a for_each node, the hand-over of the
   listener call, stop()).  The full statement "a peer cannot delay other connections" is therefore
   false of the faithful model and of the code (net_life: a streaming FramedTcp peer against a
   datagram of a second peer).  Repairing it needs a per-event read budget plus re-arming the
   edge-triggered source in all four adapters and the adapter API: not a small patch. *)
Lemma C17_K2_read_loop_unbounded : forall (n : nat) (c : list N),
  tcp_receive (repeat (RData c) n) = (repeat c n, None).
Proof. exact read_loop_unbounded. Qed.

(* non-vacuity: a hostile answer (three chunks then Disconnected) on connection 5 while
   connection 261 exists: 261's entry is untouched, all four events are about 5 *)
Example C17_isolation_example :
  let hostile := {| a_race0 := []; a_pending := PReady; a_cb_conn := []; a_chunks := [(1, []); (2, []); (3, [])];
                    a_read := RDisconnected; a_race := []; a_cb_disc := []; a_accepts := [] |} in
  let s := fst (drun (dinit 5) [LCall (UConnect true 4); LCall (UConnect true 9)]) in
  quiet hostile /\ find_remote 261 (remotes (fst (process s 5 Read hostile))) = find_remote 261 (remotes s) /\
  find_remote 261 (remotes s) <> None /\ length (snd (process s 5 Read hostile)) = 5%nat.
Proof. cbv zeta. split; [unfold quiet; cbn; repeat split; repeat constructor|]. vm_compute. repeat split. discriminate. Qed.

Print Assumptions C17_gen_obligation.
Print Assumptions C17_isolation.
Print Assumptions C17_listener_event_isolation.
Print Assumptions C17_receive_call_ends_when_socket_runs_empty.
Print Assumptions C17_decoder_total.

(* C06 — The event queue returns every event exactly once, FIFO per sender.
   All statements are over `reachable`: every state of the model of events.rs reachable by ANY
   sequence of labels — any number of sender threads, any interleaving of their atomic actions
   with the receiver's, any receive variant, any clock readings. *)
From MIO Require Import Base Queue QueueProofs QueueInv.
Local Open Scope N_scope.

Theorem C06_gen_obligation : events_shape_ok = true.
Proof. vm_compute. reflexivity. Qed.

(* plain and priority events: (delivered so far) ++ (still queued) = (sent so far), as lists.
   Hence each is delivered at most once, none is invented, none is lost (it is still queued until
   delivered), and delivery order is send order — in particular per sender thread. *)
Theorem C06_fifo_conservation : forall (E : Type) (sg : qstate E * ghost E),
  reachable E sg ->
  g_plain_sent E (snd sg) = g_plain_recv E (snd sg) ++ plain (fst sg) /\
  g_prio_sent E (snd sg) = g_prio_recv E (snd sg) ++ prio (fst sg).
Proof. exact fifo_conservation. Qed.

(* timed events: identities are unique (also for equal deadlines); what is delivered was
   scheduled, with its event, at most once; every scheduled timer is cancelled, delivered, or
   still live — none is lost or overwritten. *)
Theorem C06_timers_exactly_once : forall (E : Type) (s : qstate E) (g : ghost E),
  reachable E (s, g) ->
  NoDup (keys E (g_committed E g)) /\
  (forall x, In x (g_delivered E g) -> In x (g_committed E g)) /\
  NoDup (keys E (g_delivered E g)) /\
  (forall x, In x (g_committed E g) ->
     In (fst x) (g_cancelled E g) \/ In x (g_delivered E g) \/ In x (QueueProofs.eff E s)).
Proof.
  intros E s g Hr. pose proof (timers_invariant E _ Hr) as H. destruct (cancel_exact E s g Hr) as (_ & _ & Hn).
  destruct H. cbn [fst snd] in *. repeat split; assumption.
Qed.

(* non-vacuity: two sender threads whose send_with_timer calls read the same clock value *)
Example C06_same_instant_timers :
  let ls := [LTimerPrepare N 1 100 0 5; LTimerPrepare N 2 200 0 5; LTimerCommit N 2; LTimerCommit N 1;
             LSend N 7; LTryRecv N 5; LTryRecv N 5; LTryRecv N 5; LTryRecv N 5] in
  option_map snd (run N (qinit N) ls) =
    Some [OId N (5, 0); OId N (5, 1); OUnit N; OUnit N; OUnit N; OTimer N (5, 0) 100; OTimer N (5, 1) 200; OEvent N 7; ONone N].
Proof. vm_compute. reflexivity. Qed.

Print Assumptions C06_gen_obligation.
Print Assumptions C06_fifo_conservation.
Print Assumptions C06_timers_exactly_once.

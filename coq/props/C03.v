(* C03 — Connection lifecycle events follow one well-formed sequence per endpoint.
   The automaton `lifecycle_step` (Driver.v) is the property text: Connected only for an endpoint
   connect() returned, once, carrying that endpoint; Accepted only for a never-seen endpoint and a
   listener listen() returned; Message only while established (or a datagram on a listener);
   Disconnected only while established and never after a successful local remove(); nothing after
   the end; no id handed out twice. *)
From MIO Require Import Base Gen ResId ResIdProofs Driver DriverProofs DriverIso.
Local Open Scope N_scope.

(* (third conjunct: the readiness probes of tcp.rs / framed_tcp.rs never close the descriptor they
   borrow for the keepalive option, on any path -- what "pending() = Ready" means for the model) *)
Theorem C03_gen_obligation :
  layout_ok gen_layout = true /\ READY_TO_WRITE_CONST_TRUE = true /\ KEEPALIVE_SOCKET_ALWAYS_FORGOTTEN = true /\
  (* connect_sync_with is connect_with followed by nothing but the 1 ms is_ready() poll that the
     theorem C03_connect_sync_truthful_outside_K1 speaks about *)
  CONNECT_SYNC_LOOP_SHAPE_OK = true.
Proof. repeat split; vm_compute; reflexivity. Qed.

(* For EVERY script: any sequence of controller calls and poll events, any answers of the adapter
   (pending status, received chunks, read status, accepted items), any controller calls made by
   user code inside any callback, any controller calls of other threads racing the processor
   after its registry lookup and before its deregister — the observable trace of the driver is
   accepted by the lifecycle automaton. (Fewer than 2^56 registrations per adapter.) *)
Theorem C03_lifecycle_regular : forall (a : N) (ls : list dlabel),
  a <= max_adapter gen_layout -> cost_labels ls <= max_base gen_layout + 1 ->
  lifecycle_ok_b (snd (drun (dinit a) ls)) = true.
Proof. exact (lifecycle_regular (proj1 C03_gen_obligation)). Qed.

(* non-vacuity and two corner cases: a failed inbound handshake yields no event at all; a
   connection removed inside its own Connected callback still gets the data of that read but no
   Disconnected *)
Example C03_examples :
  let quiet := {| a_race0 := []; a_pending := PReady; a_cb_conn := []; a_chunks := []; a_read := RWaitNextEvent;
                  a_race := []; a_cb_disc := []; a_accepts := [] |} in
  let acc := {| a_race0 := []; a_pending := PReady; a_cb_conn := []; a_chunks := []; a_read := RWaitNextEvent;
                a_race := []; a_cb_disc := []; a_accepts := [AccRemote 9] |} in
  let failed := {| a_race0 := []; a_pending := PDisconnected; a_cb_conn := []; a_chunks := []; a_read := RWaitNextEvent;
                   a_race := []; a_cb_disc := []; a_accepts := [] |} in
  let rm_in_cb := {| a_race0 := []; a_pending := PReady; a_cb_conn := [URemove 261]; a_chunks := [(7, [])]; a_read := RDisconnected;
                     a_race := []; a_cb_disc := []; a_accepts := [] |} in
  snd (drun (dinit 5) [LCall (UListen true); LProcess 133 Read acc; LProcess 5 Read failed;
                       LCall (UConnect true 4); LProcess 261 Read rm_in_cb; LProcess 261 Read quiet]) =
    [ORet (UListen true) (RListen (Some 133));
     ORet (UConnect true 4) (RConnect (Some (261, 4)));
     OEv (Connected (261, 4) true); ORet (URemove 261) (RRemove true); OEv (Message (261, 4) 7)].
Proof. vm_compute. reflexivity. Qed.

(* "A failed connect yields Connected(.., false) and nothing else, a failed inbound handshake yields
   no event at all" -- and either way the resource is gone; "nothing" before the handshake is
   decided.  (No user calls inside the callbacks; with them C03_lifecycle_regular still applies.) *)
Theorem C03_failed_pending_events : forall (s : dstate) (id : rid) (rd : readiness) (a : answer) (p : rprops),
  resource_type gen_layout id = Remote -> find_remote id (remotes s) = Some p -> r_ready p = false ->
  a_pending a = PDisconnected -> quiet a ->
  snd (process s id rd a) = match r_local p with None => [OEv (Connected (id, r_peer p) false)] | Some _ => [] end /\
  find_remote id (remotes (fst (process s id rd a))) = None.
Proof. exact failed_pending_events. Qed.

Theorem C03_incomplete_pending_silent : forall (s : dstate) (id : rid) (rd : readiness) (a : answer) (p : rprops),
  resource_type gen_layout id = Remote -> find_remote id (remotes s) = Some p -> r_ready p = false ->
  a_pending a = PIncomplete -> quiet a ->
  process s id rd a = (s, []).
Proof. exact incomplete_pending_silent. Qed.

(* connect_sync (network.rs) = connect() then is_ready() every millisecond; Some true -> Ok,
   None -> Err(ConnectionRefused).  For EVERY script and every moment at which connect_sync may
   poll: if the id came from connect(), the user did not remove() it, and the history is outside
   the known class K1, the answer is truthful: Ok only for a connection whose Connected(_, true)
   was delivered and that has not been disconnected; ConnectionRefused only for a connection
   that was never established; polling goes on only while neither outcome was delivered. *)
Theorem C03_connect_sync_truthful_outside_K1 : forall (a : N) (ls : list dlabel) (id : rid),
  a <= max_adapter gen_layout -> cost_labels ls <= max_base gen_layout + 1 ->
  resource_type gen_layout id = Remote ->
  c_issued (summ_of id (snd (drun (dinit a) ls))) = true ->
  c_removed (summ_of id (snd (drun (dinit a) ls))) = false ->
  K1_class (summ_of id (snd (drun (dinit a) ls))) = false ->
  sync_truthful (summ_of id (snd (drun (dinit a) ls))) (is_ready_answer (fst (drun (dinit a) ls)) id).
Proof. exact (connect_sync_truthful_outside_K1 (proj1 C03_gen_obligation)). Qed.

(* KNOWN FINDING K1 (known_findings.json): without the K1 exclusion the statement is false of the
   faithful model, and of the code: the peer accepts and closes before connect_sync's next poll;
   Connected(_, true) and Disconnected are delivered, the registry entry is gone, is_ready()
   answers None and connect_sync reports ConnectionRefused for a connection that WAS established. *)
Lemma C03_connect_sync_full_statement_refuted :
  exists (ls : list dlabel) (id : rid),
    let m := summ_of id (snd (drun (dinit 5) ls)) in
    c_issued m = true /\ c_removed m = false /\ K1_class m = true /\
    c_est m = true /\ is_ready_answer (fst (drun (dinit 5) ls)) id = None.
Proof.
  exists [LCall (UConnect true 4);
          LProcess 5 Write {| a_race0 := []; a_pending := PReady; a_cb_conn := []; a_chunks := []; a_read := RWaitNextEvent;
                                a_race := []; a_cb_disc := []; a_accepts := [] |};
          LProcess 5 Read {| a_race0 := []; a_pending := PReady; a_cb_conn := []; a_chunks := []; a_read := RDisconnected;
                               a_race := []; a_cb_disc := []; a_accepts := [] |}], 5.
  vm_compute. repeat split.
Qed.

Print Assumptions C03_gen_obligation.
Print Assumptions C03_failed_pending_events.
Print Assumptions C03_incomplete_pending_silent.
Print Assumptions C03_connect_sync_truthful_outside_K1.
Print Assumptions C03_lifecycle_regular.

(* C04 — A connection ends exactly once: Disconnected xor a successful local remove(). *)
From MIO Require Import Base Gen ResId ResIdProofs Driver DriverProofs DriverIso.
Local Open Scope N_scope.

Theorem C04_gen_obligation : layout_ok gen_layout = true.
Proof. vm_compute. reflexivity. Qed.

(* For every script (as in C03, including removes from inside callbacks and removes by other
   threads racing the driver between the adapter's Disconnected and the deregister), for every
   connection id: the number of remove() calls that returned true plus the number of Disconnected
   events is at most 1 — and when it is 1 the registry has no entry for the id. *)
Theorem C04_end_exactly_once : forall (a : N) (ls : list dlabel) (id : rid),
  a <= max_adapter gen_layout -> cost_labels ls <= max_base gen_layout + 1 ->
  resource_type gen_layout id = Remote ->
  (count_ends id (snd (drun (dinit a) ls)) <= 1)%nat /\
  (count_ends id (snd (drun (dinit a) ls)) = 1%nat -> find_remote id (remotes (fst (drun (dinit a) ls))) = None).
Proof. exact (end_exactly_once C04_gen_obligation). Qed.

(* ... and an id without an entry answers ResourceNotFound / None / false without reaching the
   adapter; ids are never reused (C14), so this holds for the rest of the run *)
Theorem C04_after_end : forall (s : dstate) (id : rid) (to len : N) (ans : send_status),
  resource_type gen_layout id = Remote -> find_remote id (remotes s) = None ->
  exec_ucall s (USend (id, to) len ans) = (s, [ORet (USend (id, to) len ans) (RSend ResourceNotFound)]) /\
  exec_ucall s (UIsReady id) = (s, [ORet (UIsReady id) (RIsReady None)]) /\
  exec_ucall s (URemove id) = (s, [ORet (URemove id) (RRemove false)]).
Proof. exact gone_answers. Qed.

(* data delivered before the close comes before the Disconnected; a racing remove wins or loses *)
Example C04_examples :
  let closing race := {| a_race0 := []; a_pending := PReady; a_cb_conn := []; a_chunks := [(1, []); (2, [])]; a_read := RDisconnected;
                         a_race := race; a_cb_disc := [URemove 5; USend (5, 4) 1 Sent]; a_accepts := [] |} in
  snd (drun (dinit 5) [LCall (UConnect true 4); LProcess 5 Read (closing [])]) =
    [ORet (UConnect true 4) (RConnect (Some (5, 4))); OEv (Connected (5, 4) true); OEv (Message (5, 4) 1); OEv (Message (5, 4) 2);
     OEv (Disconnected (5, 4)); ORet (URemove 5) (RRemove false); ORet (USend (5, 4) 1 Sent) (RSend ResourceNotFound)] /\
  snd (drun (dinit 5) [LCall (UConnect true 4); LProcess 5 Read (closing [URemove 5])]) =
    [ORet (UConnect true 4) (RConnect (Some (5, 4))); OEv (Connected (5, 4) true); OEv (Message (5, 4) 1); OEv (Message (5, 4) 2);
     ORet (URemove 5) (RRemove true)].
Proof. split; vm_compute; reflexivity. Qed.

(* The positive half ("exactly one", not only "at most one"): when the peer closes an established
   connection -- the adapter's receive() answers Disconnected -- and neither user code nor another
   thread interferes, that very process() call delivers every chunk that preceded the close, in
   order, then exactly one Disconnected for the endpoint, and the registry has forgotten it. *)
Theorem C04_peer_close_delivers_data_then_one_disconnected : forall (s : dstate) (id : rid) (a : answer) (p : rprops),
  resource_type gen_layout id = Remote -> find_remote id (remotes s) = Some p -> r_ready p = true ->
  a_read a = RDisconnected -> quiet a ->
  snd (process s id Read a) = chunk_events (id, r_peer p) (a_chunks a) ++ [OEv (Disconnected (id, r_peer p))] /\
  find_remote id (remotes (fst (process s id Read a))) = None.
Proof. exact peer_close_delivers_data_then_one_disconnected. Qed.

Print Assumptions C04_gen_obligation.
Print Assumptions C04_peer_close_delivers_data_then_one_disconnected.
Print Assumptions C04_end_exactly_once.
Print Assumptions C04_after_end.

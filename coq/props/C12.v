(* C12 — UDP datagrams are delivered unmodified and attributed to their sender. *)
From MIO Require Import Base Gen ListN ResId ResIdProofs Driver DriverProofs Wire WireProofs.
Local Open Scope N_scope.

Theorem C12_gen_obligation :
  limits_ok = true /\ adapters_shape_ok = true /\ layout_ok gen_layout = true /\
  FROM_LISTENER_REQUIRES_LOCAL && FROM_LISTENER_REQUIRES_NOT_CONN_ORIENTED && FROM_LISTENER_RETURNS_ID_ADDR = true.
Proof. repeat split; vm_compute; reflexivity. Qed.

(* every payload up to the declared maximum fits the receive buffers declared in udp.rs: the
   kernel never truncates it *)
Theorem C12_no_truncation : forall p : list N,
  len p <= transport_max_message_size TUdp -> udp_recv UDP_RECV_BUF_MIN p = p.
Proof. exact (fun p => udp_no_truncation p (proj1 C12_gen_obligation)). Qed.

(* a datagram the listener's accept() hands over is reported once, with the listener's own id
   and the source address the kernel reported; replying to that endpoint (or to
   Endpoint::from_listener(listener, addr)) calls send_to(addr) on that listener's socket *)
Theorem C12_attribution : forall (s : dstate) (lid : rid) (src data : N) (rest : list accepted),
  do_accepts s lid (AccData src data [] :: rest) =
    (fst (do_accepts s lid rest), OEv (Message (lid, src) data) :: snd (do_accepts s lid rest)).
Proof. intros. cbn [do_accepts exec_ucalls]. destruct (do_accepts s lid rest). reflexivity. Qed.

Theorem C12_reply_reaches_source : forall (s : dstate) (lid : rid) (src len : N) (ans : send_status),
  resource_type gen_layout lid = Local -> mem_n lid (locals s) = true ->
  snd (exec_ucall s (USend (lid, src) len ans)) = [OAdapterSendTo lid src len; ORet (USend (lid, src) len ans) (RSend ans)].
Proof. intros s lid src len ans Ht Hm. cbn [exec_ucall]. rewrite Ht, Hm. reflexivity. Qed.

Print Assumptions C12_gen_obligation.
Print Assumptions C12_no_truncation.
Print Assumptions C12_attribution.
Print Assumptions C12_reply_reaches_source.

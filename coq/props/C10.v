(* C10 — Concurrent send() calls on one endpoint never corrupt or lose messages. *)
From MIO Require Import Base Gen ListN Varint VarintProofs Decoder DecoderProofs Driver Wire WireProofs.
Local Open Scope N_scope.

(* the sources serialise a whole FramedTcp frame under the per-connection send lock, a whole
   websocket message under the state mutex; a UDP datagram is one syscall *)
Theorem C10_gen_obligation : varint_consts_ok = true /\ adapters_shape_ok = true.
Proof. split; vm_compute; reflexivity. Qed.

(* With sends serialised per connection the wire is a concatenation of WHOLE frames in some
   interleaving (`merged`) of the senders' own orders.  For ANY such interleaving of ANY number of
   senders and ANY segmentation of the wire into reads: the receiver gets exactly `merged` — every
   message whole, exactly once — and each sender's messages in that sender's order. *)
Theorem C10_concurrent_framed_sends : forall (m : mode) (merged : list (N * list N)) (per_thread : N -> list (list N))
    (threads : list N) (s : list N) (reads : list rres),
  is_merge merged per_thread threads ->
  Forall (fun p => len p < 2 ^ 64) (map snd merged) ->
  frames (map snd merged) = Some s ->
  concat (fst (tcp_receive reads)) = s ->
  fst (framed_receive m [] reads) = DOk [] (map snd merged) /\
  (forall t, In t threads -> map snd (filter (fun x => fst x =? t) merged) = per_thread t).
Proof. exact (concurrent_framed_sends (proj1 C10_gen_obligation)). Qed.

(* one send, whatever the write schedule, contributes exactly its frame (so the wire IS a
   concatenation of whole frames when sends do not overlap) *)
Theorem C10_one_send_one_frame : forall (m : list N) (sched : list wres) (w : list N),
  framed_send_msg m sched = Some (w, Some Sent) -> frame m = Some w.
Proof. exact framed_send_sent. Qed.

Print Assumptions C10_gen_obligation.
Print Assumptions C10_concurrent_framed_sends.
Print Assumptions C10_one_send_one_frame.

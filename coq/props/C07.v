(* C07 — Receive order: priority, then expired timers by deadline, then FIFO.
   The reference (Queue.spec_step) IS the property text: a priority event first; otherwise the
   expired live timer minimal in (deadline, scheduling sequence); otherwise the oldest plain
   event; the non-blocking forms answer nothing only when none of the three exists; the blocking
   forms make the same choice and otherwise sleep to the earliest alarm / the timeout. *)
From MIO Require Import Base Queue QueueProofs.
Local Open Scope N_scope.

(* per-run obligation: the shape of events.rs the model assumes (select! arms, loop structure,
   order of the non-blocking choice, TimerId ordering), re-read from the source by the translator *)
Theorem C07_gen_obligation : events_shape_ok = true.
Proof. vm_compute. reflexivity. Qed.

(* For every finite single-threaded history of send / send_with_priority / send_with_timer /
   cancel_timer / try_receive / receive_timeout / receive calls (any durations, any clock
   readings) in which every call returns, every call of the model of events.rs returns exactly
   what the reference returns: ids, events, and None. *)
Theorem C07_queue_refines_spec : forall (E : Type) (ops : list (sop E)),
  ~ In (OBlocked E) (snd (spec_run E (spec_init E) ops)) ->
  snd (srun E (qinit E) ops) = snd (spec_run E (spec_init E) ops).
Proof. exact queue_refines_spec. Qed.

(* the three receive variants make the same choice: with a zero timeout / when something is
   deliverable they are literally the same function of the state *)
Theorem C07_variants_agree : forall (E : Type) (s : spec E) (now : N),
  snd (spec_pick E s now) <> ONone E ->
  spec_step E s (TryReceive E now) = spec_step E s (ReceiveTimeout E 0 now) /\
  spec_step E s (TryReceive E now) = spec_step E s (Receive E now).
Proof.
  intros E s now H. cbn [spec_step]. destruct (spec_pick E s now) as [s' o] eqn:Ep. cbn [snd] in H.
  destruct o; try contradiction; split; reflexivity.
Qed.

(* non-vacuity + the witness of the former defect (a pending far-future timer hid queued events) *)
Example C07_example :
  let ops := [SendTimer N 7 1000000 5; Send N 8; TryReceive N 6; SendPrio N 9; SendTimer N 10 0 7; SendTimer N 11 0 7;
              Send N 12; ReceiveTimeout N 0 8; TryReceive N 8; TryReceive N 8; Receive N 9; TryReceive N 9] in
  ~ In (OBlocked N) (snd (spec_run N (spec_init N) ops)) /\
  snd (srun N (qinit N) ops) =
    [OId N (1000005, 0); OUnit N; OEvent N 8; OUnit N; OId N (7, 1); OId N (7, 2); OUnit N;
     OPrio N 9; OTimer N (7, 1) 10; OTimer N (7, 2) 11; OEvent N 12; ONone N].
Proof.
  cbv zeta. split; [vm_compute; intuition discriminate|vm_compute; reflexivity].
Qed.

Print Assumptions C07_gen_obligation.
Print Assumptions C07_queue_refines_spec.
Print Assumptions C07_variants_agree.

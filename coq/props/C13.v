(* C13 — send() status is truthful and size limits match max_message_size(). *)
From MIO Require Import Base Gen ListN ResId ResIdProofs Driver DriverProofs Wire WireProofs.
Local Open Scope N_scope.

(* the size checks of udp.rs / ws.rs, the limits the websocket library is configured with on both
   handshake paths (or its defaults), the receive buffers and Transport::max_message_size(), all
   re-read from the sources (and the locked tungstenite source) on every run *)
Theorem C13_gen_obligation : limits_ok = true /\ layout_ok gen_layout = true.
Proof. split; vm_compute; reflexivity. Qed.

(* for every transport and every payload size: the adapter path accepts it iff it is at most
   Transport::max_message_size() *)
Theorem C13_limits_consistent : forall (t : transport) (n : N),
  n < 2 ^ 64 -> adapter_accepts t n = (n <=? transport_max_message_size t).
Proof. exact (fun t n => limits_consistent t n (proj1 C13_gen_obligation)). Qed.

(* the decision table of Driver::send: Sent only through the adapter; ResourceNotAvailable iff
   registered and not ready, and then the adapter is not called; ResourceNotFound iff not
   registered (removed, disconnected, never existed, fabricated), adapter not called; the state is
   never changed by send *)
Theorem C13_send_status_table : forall (s : dstate) (id to len : N) (ans : send_status),
  snd (exec_ucall s (USend (id, to) len ans)) =
    match resource_type gen_layout id with
    | Remote =>
        match find_remote id (remotes s) with
        | Some p => if r_ready p then [OAdapterSend id len; ORet (USend (id, to) len ans) (RSend ans)]
                    else [ORet (USend (id, to) len ans) (RSend ResourceNotAvailable)]
        | None => [ORet (USend (id, to) len ans) (RSend ResourceNotFound)]
        end
    | Local =>
        if mem_n id (locals s) then [OAdapterSendTo id to len; ORet (USend (id, to) len ans) (RSend ans)]
        else [ORet (USend (id, to) len ans) (RSend ResourceNotFound)]
    end /\ fst (exec_ucall s (USend (id, to) len ans)) = s.
Proof. exact send_table. Qed.

(* UDP: an oversize payload is rejected before the socket is touched; Sent only if a send
   syscall succeeded for a payload within the limit *)
Theorem C13_udp_oversize_transmits_nothing : forall data answers,
  UDP_MAX_LOCAL_PAYLOAD_LEN < len data -> udp_send_packet data answers = (Some MaxPacketSizeExceeded, false).
Proof. exact udp_send_oversize. Qed.

Theorem C13_udp_sent_is_truthful : forall data answers,
  fst (udp_send_packet data answers) = Some Sent -> len data <= UDP_MAX_LOCAL_PAYLOAD_LEN /\ In None answers.
Proof. exact udp_send_sent. Qed.

Print Assumptions C13_gen_obligation.
Print Assumptions C13_limits_consistent.
Print Assumptions C13_send_status_table.
Print Assumptions C13_udp_oversize_transmits_nothing.
Print Assumptions C13_udp_sent_is_truthful.

(* C09 — After stop() the callback is never invoked again and the listener returns. *)
From MIO Require Import Base Gen Node NodeProofs NodeTerm.
Local Open Scope N_scope.

(* what the termination argument assumes about node.rs, re-read from the source on every run: every
   blocking wait of the listener loops is bounded by SAMPLING_TIMEOUT (so `poll` and `signal wait`
   are steps that always complete), each is the first action of a loop whose condition re-reads the
   flag, and stop() clears the flag *)
Theorem C09_gen_obligation :
  NODE_WAITS_BOUNDED_BY_SAMPLING_TIMEOUT = true /\ NODE_WAITS_AT_LOOP_HEADS_THAT_READ_THE_FLAG = true /\
  NODE_STOP_CLEARS_RUNNING = true /\ SAMPLING_TIMEOUT_MS <= 1000 /\
  (* events.rs: receive_timeout(t) measures what is left of t from the start of the call, whatever
     wakes it up in between: the signal wait of the listener is bounded by SAMPLING_TIMEOUT in total *)
  RECEIVE_TIMEOUT_REMAINING_FROM_START = true.
Proof. repeat split; vm_compute; try reflexivity; discriminate. Qed.

(* stop() called from inside callback invocation k (by whichever thread runs it, in any listener
   mode, whatever is queued, polled or cached): in every accepted run no callback entry follows *)
Theorem C09_stop_in_callback_final : forall (m : lmode) (ls : list nlabel) (s' : nstate) (t : thr) (l1 l2 : list nlabel),
  nrun (ninit m) ls = Some s' -> ls = l1 ++ LCbStop t :: l2 -> forall t', ~ In (LCbEnter t') l2.
Proof. intros m ls s' t l1 l2 H. eapply stop_in_callback_final; [apply Inv_init|exact H]. Qed.

(* stop() before for_each / for_each_async / enqueue is called at all: the callback is never
   invoked, also not for events cached meanwhile *)
Theorem C09_stop_before_start : forall (m : lmode) (ls : list nlabel) (s' : nstate) (l1 l2 : list nlabel),
  nrun (ninit m) ls = Some s' -> ls = l1 ++ LStart :: l2 ->
  (forall s1, nrun (ninit m) l1 = Some s1 -> running s1 = false) ->
  forall t', ~ In (LCbEnter t') l2.
Proof. intros m ls s' l1 l2 H E Hs. eapply stop_before_start; eauto. Qed.

(* in every reachable state in which a stop of those two kinds happened, no callback entry is enabled *)
Theorem C09_no_enter_after_stop : forall (m : lmode) (ls : list nlabel) (s : nstate) (t : thr),
  nrun (ninit m) ls = Some s -> stopped_in_cb s = true \/ stopped_before s = true -> nstep s (LCbEnter t) = None.
Proof. intros m ls s t H. apply no_enter_after_stop. eapply Inv_reachable; eauto. Qed.

(* "The listener returns": from ANY reachable state in which the node is stopped and the listener
   call has begun, every sequence of actions of the listener threads (anything except further
   stop() calls) is bounded: by a constant budget mu of the state plus three steps (lock, check,
   unlock) per event of the at most ONE poll that can still happen ... *)
Theorem C09_stop_terminates : forall (m : lmode) (l0 ls : list nlabel) (s s' : nstate),
  nrun (ninit m) l0 = Some s -> running s = false -> caching s = false ->
  forallb progress ls = true -> nrun s ls = Some s' ->
  (length ls + mu s' <= mu s + polled ls)%nat /\ (npolls ls <= polls_left s)%nat /\ running s' = false.
Proof. intros m l0 ls s s' H0. apply stop_terminates. eapply Inv_reachable; eauto. Qed.

(* ... and until both threads are through, some such action is enabled: a callback that was entered
   can return, a thread waiting for the callback lock waits for a thread that can move, a wait in
   poll / signal reception completes. So the threads end, and the listener call (which joins them)
   returns. *)
Theorem C09_stopped_not_stuck : forall (m : lmode) (l0 : list nlabel) (s : nstate),
  nrun (ninit m) l0 = Some s -> caching s = false -> ~ finished s ->
  exists l s', progress l = true /\ nstep s l = Some s'.
Proof. intros m l0 s H0. apply stopped_not_stuck. eapply Inv_reachable; eauto. Qed.

(* non-vacuity: stop() from the signal callback while the network thread holds a polled batch of
   three events and waits for the lock: budget 3*2+4 + 4 = 14, at most 0 further polls; the run to
   the end takes 13 thread actions and delivers nothing more *)
Example C09_terminates_example :
  match nrun (ninit Async) [LStart; LReplayEmpty; LLoopCheck TNet; LPoll [1; 2; 3]; LLoopCheck TSig; LSigRecv (Some 0); LLock TSig;
                            LCheck TSig; LCbEnter TSig; LCbStop TSig] with
  | Some s => running s = false /\ caching s = false /\ mu s = 14%nat /\ polls_left s = 0%nat /\
              match nrun s [LCbExit TSig; LUnlock TSig; LLoopCheck TSig; LLock TNet; LCheck TNet; LUnlock TNet; LLock TNet; LCheck TNet;
                            LUnlock TNet; LLock TNet; LCheck TNet; LUnlock TNet; LLoopCheck TNet] with
              | Some s' => pc_net s' = Done /\ pc_sig s' = Done /\ length (delivered s') = 1%nat
              | None => False
              end
  | None => False
  end.
Proof. vm_compute. repeat split. Qed.

(* the former defect: a cached event was still replayed after a stop (both modes) — now rejected *)
Example C09_replay_after_stop_rejected :
  nrun (ninit Sync) [LCachePoll [1; 2]; LExtStop; LStart; LReplayPop; LCheck TNet; LCbEnter TNet] = None /\
  nrun (ninit Async) [LCachePoll [1; 2]; LStart; LLoopCheck TSig; LSigRecv (Some 0); LLock TSig; LCheck TSig; LCbEnter TSig; LCbStop TSig;
                      LCbExit TSig; LUnlock TSig; LReplayPop; LLock TNet; LCheck TNet; LCbEnter TNet] = None.
Proof. split; vm_compute; reflexivity. Qed.

Print Assumptions C09_gen_obligation.
Print Assumptions C09_stop_terminates.
Print Assumptions C09_stopped_not_stuck.
Print Assumptions C09_stop_in_callback_final.
Print Assumptions C09_stop_before_start.
Print Assumptions C09_no_enter_after_stop.

(* C09 — After stop() the callback is never invoked again and the listener returns. *)
From MIO Require Import Base Gen Node NodeProofs.
Local Open Scope N_scope.

(* stop() called from inside callback invocation k (by whichever thread runs it, in any listener
   mode, whatever is queued, polled or cached): in every accepted run no callback entry follows *)
Theorem C09_stop_in_callback_final : forall (m : lmode) (ls : list nlabel) (s' : nstate) (t : thr) (l1 l2 : list nlabel),
  nrun (ninit m) ls = Some s' -> ls = l1 ++ LCbStop t :: l2 -> forall t', ~ In (LCbEnter t') l2.
Proof. intros m ls s' t l1 l2 H. eapply stop_in_callback_final; [apply Inv_init|exact H]. Qed.

(* stop() before for_each / for_each_async / enqueue is called at all: the callback is never
   invoked, also not for events cached meanwhile *)
Theorem C09_stop_before_start : forall (m : lmode) (ls : list nlabel) (s' : nstate) (l1 l2 : list nlabel),
  nrun (ninit m) ls = Some s' -> ls = l1 ++ LStart :: l2 ->
  (forall s1, nrun (ninit m) l1 = Some s1 -> running s1 = false) ->
  forall t', ~ In (LCbEnter t') l2.
Proof. intros m ls s' l1 l2 H E Hs. eapply stop_before_start; eauto. Qed.

(* in every reachable state in which a stop of those two kinds happened, no callback entry is enabled *)
Theorem C09_no_enter_after_stop : forall (m : lmode) (ls : list nlabel) (s : nstate) (t : thr),
  nrun (ninit m) ls = Some s -> stopped_in_cb s = true \/ stopped_before s = true -> nstep s (LCbEnter t) = None.
Proof. intros m ls s t H. apply no_enter_after_stop. eapply Inv_reachable; eauto. Qed.

(* the former defect: a cached event was still replayed after a stop (both modes) — now rejected *)
Example C09_replay_after_stop_rejected :
  nrun (ninit Sync) [LCachePoll [1; 2]; LExtStop; LStart; LReplayPop; LCheck TNet; LCbEnter TNet] = None /\
  nrun (ninit Async) [LCachePoll [1; 2]; LStart; LLoopCheck TSig; LSigRecv (Some 0); LLock TSig; LCheck TSig; LCbEnter TSig; LCbStop TSig;
                      LCbExit TSig; LUnlock TSig; LReplayPop; LLock TNet; LCheck TNet; LCbEnter TNet] = None.
Proof. split; vm_compute; reflexivity. Qed.

Print Assumptions C09_stop_in_callback_final.
Print Assumptions C09_stop_before_start.
Print Assumptions C09_no_enter_after_stop.

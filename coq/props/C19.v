(* C19 — Remote address conversion classifies and preserves its input.
   Only statements, `exact`, and Print Assumptions live here. *)
From MIO Require Import Base Gen RemoteAddr RemoteAddrProofs.

(* per-run obligation on the regenerated arms of remote_addr.rs *)
Theorem C19_gen_obligation : shape_ok gen_shape = true.
Proof. vm_compute. reflexivity. Qed.

Section C19.
  Variable sockaddr : Type.
  Variable text : Type.        (* the caller's string type; Rust: &str / String *)
  Variable parse : text -> option sockaddr.   (* oracle: Rust's str::parse::<SocketAddr> *)

  Theorem C19_classify_iff : forall s : text,
    (forall a, parse s = Some a -> to_remote_addr sockaddr text parse gen_shape s = Some (Socket a)) /\
    (parse s = None -> to_remote_addr sockaddr text parse gen_shape s = Some (Str s)) /\
    (exists r, to_remote_addr sockaddr text parse gen_shape s = Some r /\
       (is_socket_addr sockaddr text gen_shape r = true <-> parse s <> None) /\
       (is_string sockaddr text gen_shape r = true <-> parse s = None)).
  Proof. exact (classify_iff sockaddr text parse gen_shape C19_gen_obligation). Qed.

  Theorem C19_predicates_exclusive : forall r : remote_addr sockaddr text,
    (is_socket_addr sockaddr text gen_shape r = true <-> exists a, r = Socket a) /\
    (is_string sockaddr text gen_shape r = true <-> exists s, r = Str s) /\
    is_string sockaddr text gen_shape r = negb (is_socket_addr sockaddr text gen_shape r).
  Proof. exact (predicates_exclusive sockaddr text gen_shape C19_gen_obligation). Qed.

  Theorem C19_accessors :
    (forall a, socket_addr sockaddr text gen_shape (Socket a) = Ok a) /\
    (forall s, string_of sockaddr text gen_shape (Str s) = Ok s) /\
    (forall s, socket_addr sockaddr text gen_shape (Str s) = Panic) /\
    (forall a, string_of sockaddr text gen_shape (Socket a) = Panic).
  Proof. exact (accessors sockaddr text gen_shape C19_gen_obligation). Qed.

  Theorem C19_from_socket_lossless : forall a : sockaddr,
    exists r, from_socket sockaddr text gen_shape a = Some r /\ socket_addr sockaddr text gen_shape r = Ok a /\
              is_socket_addr sockaddr text gen_shape r = true /\ is_string sockaddr text gen_shape r = false.
  Proof. exact (from_socket_lossless sockaddr text gen_shape C19_gen_obligation). Qed.

  Theorem C19_text_preserved : forall s : text,
    parse s = None ->
    exists r, to_remote_addr sockaddr text parse gen_shape s = Some r /\ string_of sockaddr text gen_shape r = Ok s.
  Proof. exact (text_preserved sockaddr text parse gen_shape C19_gen_obligation). Qed.
End C19.

Print Assumptions C19_gen_obligation.
Print Assumptions C19_classify_iff.
Print Assumptions C19_predicates_exclusive.
Print Assumptions C19_accessors.
Print Assumptions C19_from_socket_lossless.
Print Assumptions C19_text_preserved.

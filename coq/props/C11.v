(* C11 — Raw Tcp preserves the byte stream. *)
From MIO Require Import Base Gen ListN Driver Wire WireProofs.
Local Open Scope N_scope.

Theorem C11_gen_obligation : adapters_shape_ok = true /\ (TCP_INPUT_BUFFER_SIZE =? 65535) = true.
Proof. split; vm_compute; reflexivity. Qed.

(* for every partial-write / WouldBlock schedule: Sent means exactly the buffer went on the wire;
   in every case what went on the wire is a prefix of the buffer (never anything else) *)
Theorem C11_send_wire : forall (data : list N) (sched : list wres) (w : list N),
  tcp_send data 0 sched = (w, Some Sent) -> w = data.
Proof. exact tcp_send_sent. Qed.

Theorem C11_send_never_invents : forall (data : list N) (sched : list wres),
  exists rest, data = fst (tcp_send data 0 sched) ++ rest.
Proof. exact tcp_send_never_invents. Qed.

(* the Message chunks are the successive non-empty read results, none empty, none above the
   documented input buffer size; WaitNextEvent only after a read answered WouldBlock *)
Theorem C11_receive_chunks : forall reads,
  Forall (read_ok TCP_INPUT_BUFFER_SIZE) reads ->
  Forall (fun c => 1 <= len c /\ len c <= TCP_INPUT_BUFFER_SIZE) (fst (tcp_receive reads)) /\
  Forall (fun c => In (RData c) reads) (fst (tcp_receive reads)) /\
  (snd (tcp_receive reads) = Some RWaitNextEvent -> In RWouldBlock reads).
Proof.
  intros reads H. split; [exact (tcp_chunk_bounds _ _ H)|]. exact (tcp_receive_chunks reads).
Qed.

Example C11_example :
  tcp_send [1; 2; 3; 4; 5] 0 [WAccept 2; WWouldBlock; WAccept 100] = ([1; 2; 3; 4; 5], Some Sent) /\
  tcp_send [] 0 [WAccept 0] = ([], Some Sent) /\
  tcp_receive [RData [1; 2]; RInterrupted; RData [3]; RWouldBlock] = ([[1; 2]; [3]], Some RWaitNextEvent).
Proof. repeat split; vm_compute; reflexivity. Qed.

Print Assumptions C11_gen_obligation.
Print Assumptions C11_send_wire.
Print Assumptions C11_send_never_invents.
Print Assumptions C11_receive_chunks.

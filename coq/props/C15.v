(* C15 — Events that happen before for_each() are kept, in order, and delivered first. *)
From MIO Require Import Base Gen Node NodeProofs.
Local Open Scope N_scope.

(* what the model assumes of node.rs, re-read from the source on every run: the start-up cache is an
   unbounded FIFO (created empty, one push_back in the cache thread, pop_front in the two replay
   loops, nothing else); the cache thread's wait is bounded and re-reads its flag (so the hand-over
   happens whatever the traffic); enqueue() forwards every event through the plain send() of ONE
   queue (whose FIFO order is C06) *)
Theorem C15_gen_obligation :
  NODE_CACHE_IS_UNBOUNDED_FIFO = true /\ NODE_ENQUEUE_FORWARDS_WITH_PLAIN_SEND = true /\
  NODE_WAITS_BOUNDED_BY_SAMPLING_TIMEOUT = true /\ NODE_WAITS_AT_LOOP_HEADS_THAT_READ_THE_FLAG = true.
Proof. repeat split; vm_compute; reflexivity. Qed.

(* `produced` = the network events the processor emitted, in order: first by the cache thread
   (before the listener call), then — the same processor, handed over by the join — by the
   listener's network thread.  In every reachable state, for any delay, any activity, any moment of
   the hand-over, both listener modes: what the callback has received is a prefix of `produced`
   (nothing reordered, nothing invented, the cached events first), and as long as no event was
   dropped because the node was stopped, received ++ (still waiting, in order) = produced
   (nothing lost). *)
Theorem C15_cached_first_in_order : forall (m : lmode) (ls : list nlabel) (s : nstate),
  nrun (ninit m) ls = Some s ->
  (exists tail, produced s = delivered_net s ++ tail) /\
  (skipped s = false -> produced s = delivered_net s ++ pending s).
Proof. intros m ls s H. apply delivery_order. eapply Inv_reachable; eauto. Qed.

Example C15_example :
  match nrun (ninit Sync) [LCachePoll [1; 2]; LCachePoll [3]; LStart; LReplayPop; LCheck TNet; LCbEnter TNet; LCbExit TNet;
                           LReplayPop; LCheck TNet; LCbEnter TNet; LCbExit TNet; LReplayPop; LCheck TNet; LCbEnter TNet; LCbExit TNet;
                           LReplayEmpty; LLoopCheck TNet; LPoll [4; 5]; LLock TNet; LCheck TNet; LCbEnter TNet] with
  | Some s => produced s = [1; 2; 3; 4; 5] /\ delivered_net s = [1; 2; 3; 4] /\ pending s = [5]
  | None => False
  end.
Proof. vm_compute. repeat split; reflexivity. Qed.

Print Assumptions C15_gen_obligation.
Print Assumptions C15_cached_first_in_order.

(* C08 — Timers never fire early; cancellation is exact. *)
From MIO Require Import Base Queue QueueProofs QueueInv.
Local Open Scope N_scope.

Theorem C08_gen_obligation : events_shape_ok = true.
Proof. vm_compute. reflexivity. Qed.

(* the deadline of a timer = the clock reading of its send_with_timer call + the duration *)
Theorem C08_deadline_is_call_time_plus_duration : forall (E : Type) s l s' th e d now o,
  l = LTimerPrepare E th e d now -> step E s l = Some (s', o) ->
  o = OId E (now + d, nseq s) /\ In (th, ((now + d, nseq s), e)) (prepared s').
Proof. exact timer_deadline. Qed.

(* whenever any receive call, in any reachable state, returns a timed event: the clock reading of
   that call is >= the timer's deadline; the timer was scheduled with that event; it was not
   cancelled; it was not delivered before. *)
Theorem C08_delivery_sound : forall (E : Type) s g l s' g' id e,
  reachable E (s, g) -> gstep E (s, g) l = Some (s', g', OTimer E id e) ->
  (exists now, label_clock E l = Some now /\ fst id <= now) /\
  In (id, e) (g_committed E g) /\
  ~ In id (g_cancelled E g) /\
  ~ In id (keys E (g_delivered E g)).
Proof. exact timer_delivery_sound. Qed.

(* cancellation affects exactly the cancelled timer: every other scheduled timer that has not
   been delivered is still live (also one on the same instant), and a cancelled one is gone from
   the map for good (ids are never reused, so it can never come back) *)
Theorem C08_cancel_exact : forall (E : Type) s g,
  reachable E (s, g) ->
  (forall x, In x (g_committed E g) -> ~ In (fst x) (g_cancelled E g) -> ~ In x (g_delivered E g) ->
             In x (QueueProofs.eff E s)) /\
  (forall id, In id (g_cancelled E g) -> ~ In id (keys E (QueueProofs.eff E s))) /\
  NoDup (keys E (g_committed E g)).
Proof. exact cancel_exact. Qed.

(* the former defect: a cancel issued while the receiver is blocked in select! is now seen *)
Example C08_cancel_while_blocked :
  let ls := [LTimerPrepare N 1 100 200 0; LTimerCommit N 1; LRecvBegin N (Some 600) 1;
             LCancel N (200, 0); LWake N ACmd 50; LWake N ADefault 601] in
  option_map snd (run N (qinit N) ls) = Some [OId N (200, 0); OUnit N; OBlocked N; OUnit N; OBlocked N; ONone N].
Proof. vm_compute. reflexivity. Qed.

Print Assumptions C08_gen_obligation.
Print Assumptions C08_deadline_is_call_time_plus_duration.
Print Assumptions C08_delivery_sound.
Print Assumptions C08_cancel_exact.

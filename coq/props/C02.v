(* C02 — Frame decoder output is independent of how the byte stream is chunked.
   Statements only; proofs are `exact` of lemmas in VarintProofs.v / DecoderProofs.v. *)
From MIO Require Import Base Gen ListN Varint VarintProofs Decoder DecoderProofs.
Local Open Scope N_scope.

(* per-run obligation on the regenerated constants (integer-encoding's MSB / DROP_MSB / cut-off,
   encoding.rs's MAX_ENCODED_SIZE) *)
Theorem C02_gen_obligation : varint_consts_ok = true.
Proof. vm_compute. reflexivity. Qed.

(* THE PROPERTY.  For every list of messages (every real slice is shorter than 2^64 bytes), every
   way to cut the concatenation of their frames into chunks (empty chunks allowed), in debug and
   release arithmetic: exactly that list, in order, one callback per message, nothing left
   buffered, no panic, no fuel exhaustion. *)
Theorem C02_decoder_chunking : forall (m : mode) (ms : list (list N)) (cs : list (list N)) (s : list N),
  Forall (fun p => len p < 2 ^ 64) ms ->
  frames ms = Some s -> concat cs = s ->
  feed m cs = DOk [] ms.
Proof. exact (decoder_chunking C02_gen_obligation). Qed.

(* the frames of such a list always exist (the encoder model never runs out of fuel) *)
Theorem C02_frames_total : forall ms,
  Forall (fun p => len p < 2 ^ 64) ms -> exists s, frames ms = Some s.
Proof. exact (frames_total C02_gen_obligation). Qed.

(* stronger, and for ALL byte streams, well formed or not: the streaming decoder computes the
   one-shot reference parse of the concatenation, whatever the chunking *)
Theorem C02_feed_is_parse : forall (m : mode) (cs : list (list N)),
  exists outs rest, parse (concat cs) = Some (outs, rest) /\ feed m cs = DOk rest outs.
Proof. exact (feed_is_parse C02_gen_obligation). Qed.

(* after any prefix of a well-formed stream no complete frame is left in the buffer and what was
   delivered is a prefix of the message list (nothing is stranded until more bytes arrive) *)
Theorem C02_no_stranded_frame : forall (m : mode) ms cs s tail stored outs,
  Forall (fun p => len p < 2 ^ 64) ms ->
  frames ms = Some s -> concat cs ++ tail = s ->
  feed m cs = DOk stored outs ->
  parse stored = Some ([], stored) /\ exists later, ms = outs ++ later.
Proof. exact (no_stranded_frame C02_gen_obligation). Qed.

(* the length prefix: canonical LEB128 of n, decoding back to n *)
Theorem C02_prefix_roundtrip : forall n rest,
  n < 2 ^ 64 ->
  exists l, enc n = Some l /\ (1 <= length l <= 10)%nat /\ decode_size (l ++ rest) = Some (n, len l).
Proof. exact (dec_enc C02_gen_obligation). Qed.

Theorem C02_prefix_canonical : forall n l,
  enc n = Some l ->
  leb_value l = n /\            (* little-endian base-128 digits of n *)
  leb_shape l = true /\         (* continuation bit on all bytes but the last; all bytes < 256 *)
  (forall b, last l 1 = b -> (2 <= length l)%nat -> b <> 0).   (* no trailing zero group *)
Proof. exact (enc_f_canonical C02_gen_obligation ENC_FUEL). Qed.

(* non-vacuity: concrete instances meet the hypotheses and compute the expected result *)
Example C02_example :
  let ms := [[1; 2; 3]; []; [128; 255]] in
  Forall (fun p => len p < 2 ^ 64) ms /\
  frames ms = Some [3; 1; 2; 3; 0; 2; 128; 255] /\
  feed Checked [[3]; [1; 2]; []; [3; 0; 2; 128]; [255]] = DOk [] ms /\
  enc 300 = Some [172; 2].
Proof.
  cbv zeta. split; [repeat constructor|]. split; [vm_compute; reflexivity|].
  split; vm_compute; reflexivity.
Qed.

Print Assumptions C02_gen_obligation.
Print Assumptions C02_decoder_chunking.
Print Assumptions C02_frames_total.
Print Assumptions C02_feed_is_parse.
Print Assumptions C02_no_stranded_frame.
Print Assumptions C02_prefix_roundtrip.
Print Assumptions C02_prefix_canonical.

(* C05 — The event callback is never run by two threads at once. *)
From MIO Require Import Base Gen Node NodeProofs.
Local Open Scope N_scope.

(* what the model assumes of node.rs, re-read from the source on every run: in both listener modes
   the callback is wrapped in Arc<std::sync::Mutex<..>>, every invocation after that goes through a
   guard obtained from that mutex (the model's Lock / Unlock labels), and the file contains no unsafe
   code but the Send impl that carries the wrapper to the signal thread *)
Theorem C05_gen_obligation : NODE_CALLBACK_ONLY_UNDER_STD_MUTEX = true.
Proof. vm_compute; reflexivity. Qed.

(* In EVERY state reachable by ANY sequence of labels of the node.rs model — any interleaving of
   the network thread, the signal thread and other threads, any poll batches, any signals, any
   callback durations (a callback is a CbEnter..CbExit span with arbitrarily many steps of other
   threads in between), stop() anywhere, for_each and for_each_async alike — at most one thread
   is between callback entry and callback exit. *)
Theorem C05_callback_mutex : forall (m : lmode) (ls : list nlabel) (s : nstate),
  nrun (ninit m) ls = Some s -> ~ (incb (pc_net s) = true /\ incb (pc_sig s) = true).
Proof. intros m ls s H. apply callback_mutex. eapply Inv_reachable; eauto. Qed.

(* equivalently on the steps: a callback entry is only possible while no other thread is inside *)
Theorem C05_enter_excludes : forall (m : lmode) (ls : list nlabel) (s s' : nstate) (t : thr),
  nrun (ninit m) ls = Some s -> nstep s (LCbEnter t) = Some s' ->
  match t with TNet => incb (pc_sig s) = false | TSig => incb (pc_net s) = false | TExt => False end.
Proof. intros m ls s s' t H. apply enter_excludes. eapply Inv_reachable; eauto. Qed.

(* non-vacuity: both threads do run callbacks, one after the other, in an accepted run *)
Example C05_example :
  match nrun (ninit Async) [LCachePoll [7]; LStart; LReplayPop; LLock TNet; LLoopCheck TSig; LSigRecv (Some 3); LCheck TNet; LCbEnter TNet;
                            LCbExit TNet; LUnlock TNet; LLock TSig; LCheck TSig; LCbEnter TSig; LCbExit TSig; LUnlock TSig] with
  | Some s => delivered s = [(TNet, 7); (TSig, 4)]
  | None => False
  end.
Proof. vm_compute. reflexivity. Qed.

Print Assumptions C05_gen_obligation.
Print Assumptions C05_callback_mutex.
Print Assumptions C05_enter_excludes.

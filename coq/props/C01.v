(* C01 — Packet transports deliver every message intact, in order, exactly once. *)
From MIO Require Import Base Gen ListN Varint VarintProofs Decoder DecoderProofs Driver Wire WireProofs ResId DriverIso.
Local Open Scope N_scope.

Theorem C01_gen_obligation : varint_consts_ok = true /\ adapters_shape_ok = true.
Proof. split; vm_compute; reflexivity. Qed.

(* sender side: whatever each write() accepts (partial writes, WouldBlock), a FramedTcp send that
   answers Sent has put exactly one canonical frame of the payload on the wire *)
Theorem C01_framed_send_wire : forall (m : list N) (sched : list wres) (w : list N),
  framed_send_msg m sched = Some (w, Some Sent) -> frame m = Some w.
Proof. exact framed_send_sent. Qed.

(* receiver side, end to end: for every message list and EVERY segmentation of the wire into
   socket reads, the Message payloads are exactly that list, in order, nothing buffered *)
Theorem C01_framed_end_to_end : forall (m : mode) (ms : list (list N)) (s : list N) (reads : list rres),
  Forall (fun p => len p < 2 ^ 64) ms -> frames ms = Some s ->
  concat (fst (tcp_receive reads)) = s ->
  fst (framed_receive m [] reads) = DOk [] ms.
Proof. exact (framed_end_to_end (proj1 C01_gen_obligation)). Qed.

(* "delivered even if no further traffic arrives": the receive loop reports WaitNextEvent only
   after a read answered WouldBlock (the socket was seen empty), and by C02_no_stranded_frame no
   complete frame stays in the decoder; with edge-triggered polling later bytes raise a new event *)
Theorem C01_framed_waits_only_on_empty_socket : forall reads,
  snd (tcp_receive reads) = Some RWaitNextEvent -> In RWouldBlock reads.
Proof. intros reads. exact (proj2 (tcp_receive_chunks reads)). Qed.

(* WebSocket: the adapter's receive loop returns WaitNextEvent only when the websocket library
   has no complete message left — neither buffered nor in the socket — and everything that had
   arrived was delivered in order *)
Theorem C01_ws_drains_library_buffer : forall (pulls : list nat) (l l' : wslib) (ms : list (list N)),
  ws_receive l pulls = (l', ms, Some RWaitNextEvent) ->
  ws_buffered l' = [] /\ ws_socket l' = [] /\ ms = ws_buffered l ++ ws_socket l.
Proof. exact ws_receive_drains. Qed.

(* the former defect: three messages arrive in one segment; the library parses ahead *)
Example C01_ws_burst :
  ws_receive {| ws_buffered := []; ws_socket := [[1]; [2]; [3]] |} [5; 5; 5; 5]%nat =
    ({| ws_buffered := []; ws_socket := [] |}, [[1]; [2]; [3]], Some RWaitNextEvent).
Proof. vm_compute. reflexivity. Qed.

(* (F11) What the adapter of a connection holds when the connection becomes ready -- for a WebSocket:
   what the library consumed and buffered while it finished the handshake -- is delivered in the very
   process() call that completes the handshake, one Message per chunk, right behind Connected /
   Accepted, for a READ event and for a WRITE event alike.  (Before the repair this was false for
   write events: nothing read the connection until the peer sent again.) *)
Theorem C01_ready_connection_is_read_at_once : forall (s : dstate) (id : rid) (rd : readiness) (a : answer) (p : rprops),
  resource_type gen_layout id = Remote -> find_remote id (remotes s) = Some p -> r_ready p = false ->
  a_pending a = PReady -> quiet a ->
  exists ev rest,
    snd (process s id rd a) = OEv ev :: chunk_events (id, r_peer p) (a_chunks a) ++ rest /\
    (ev = Connected (id, r_peer p) true \/ exists l, ev = Accepted (id, r_peer p) l).
Proof. exact became_ready_delivers_buffered. Qed.

Example C01_handshake_completed_by_write_event :
  let a := {| a_race0 := []; a_pending := PReady; a_cb_conn := []; a_chunks := [(41, []); (42, [])]; a_read := RWaitNextEvent;
              a_race := []; a_cb_disc := []; a_accepts := [] |} in
  snd (drun (dinit 5) [LCall (UConnect true 4); LProcess 5 Write a]) =
    [ORet (UConnect true 4) (RConnect (Some (5, 4))); OEv (Connected (5, 4) true); OEv (Message (5, 4) 41); OEv (Message (5, 4) 42)].
Proof. vm_compute. reflexivity. Qed.

Print Assumptions C01_gen_obligation.
Print Assumptions C01_ready_connection_is_read_at_once.
Print Assumptions C01_framed_send_wire.
Print Assumptions C01_framed_end_to_end.
Print Assumptions C01_framed_waits_only_on_empty_socket.
Print Assumptions C01_ws_drains_library_buffer.

(* C16 — A blocked receiver is woken by every kind of send.
   Liveness is stated in safety form: whenever the receiver is blocked and something is
   deliverable now, an arm of its select! (other than the timeout) is ready now.  Together with
   the oracle "crossbeam's select! returns within bounded time once an arm is ready" this gives
   bounded-time delivery. *)
From MIO Require Import Base Queue QueueProofs QueueInv.
Local Open Scope N_scope.

Theorem C16_gen_obligation : events_shape_ok = true.
Proof. vm_compute. reflexivity. Qed.

(* deliverable now: a plain event, a priority event, or a live (not cancelled) timer whose
   deadline has passed — whether already in the map or still a Create in the command channel *)
Theorem C16_no_lost_wakeup : forall (E : Type) s g a u now,
  reachable E (s, g) -> rst s = Blocked a u -> deliverable E s now ->
  exists arm, arm <> ADefault /\ step E s (LWake E arm now) <> None.
Proof. exact no_lost_wakeup. Qed.

(* receive_timeout answers None only when the timeout has elapsed and nothing is deliverable *)
Theorem C16_timeout_truthful : forall (E : Type) s g a u now s' o,
  reachable E (s, g) -> rst s = Blocked a u -> step E s (LWake E ADefault now) = Some (s', o) ->
  o = ONone E /\ (exists t, u = Some t /\ t <= now) /\ ~ deliverable E s now.
Proof. exact timeout_truthful. Qed.

(* the former defect: a timer sent from another thread while the receiver sleeps on an empty
   queue now wakes it (through the command-channel arm), and it is delivered at its deadline *)
Example C16_timer_wakes_blocked_receiver :
  let ls := [LRecvBegin N None 0; LTimerPrepare N 1 100 10 5; LTimerCommit N 1; LWake N ACmd 6; LWake N AAlarm 15] in
  option_map snd (run N (qinit N) ls) = Some [OBlocked N; OId N (15, 0); OUnit N; OBlocked N; OTimer N (15, 0) 100].
Proof. vm_compute. reflexivity. Qed.

Print Assumptions C16_gen_obligation.
Print Assumptions C16_no_lost_wakeup.
Print Assumptions C16_timeout_truthful.

(* C14 — Endpoints identify one connection forever; ids are never reused.
   Part 1: bit layout, accessors, tokens, generator (resource_id.rs, poll.rs).
   Part 2 (registry histories, stale endpoints, event attribution) is in props/C14b.v over Driver.v. *)
From MIO Require Import Base Gen Bits ResId ResIdProofs.
Local Open Scope N_scope.

(* per-run obligation on the regenerated constants of resource_id.rs / poll.rs *)
Theorem C14_gen_obligation : layout_ok gen_layout = true.
Proof. vm_compute. reflexivity. Qed.

Theorem C14_id_fields_roundtrip : forall a t b,
  a <= max_adapter gen_layout -> b <= max_base gen_layout ->
  adapter_id gen_layout (mk_id_raw gen_layout a t b) = a /\
  resource_type gen_layout (mk_id_raw gen_layout a t b) = t /\
  base_value gen_layout (mk_id_raw gen_layout a t b) = b.
Proof. exact (id_fields_roundtrip gen_layout C14_gen_obligation). Qed.

Theorem C14_id_partition : forall raw,
  raw < 2 ^ 64 ->
  adapter_id gen_layout raw <= max_adapter gen_layout /\
  base_value gen_layout raw <= max_base gen_layout /\
  mk_id_raw gen_layout (adapter_id gen_layout raw) (resource_type gen_layout raw) (base_value gen_layout raw) = raw.
Proof. exact (id_partition gen_layout C14_gen_obligation). Qed.

Theorem C14_mk_id_injective : forall a t b a' t' b',
  a <= max_adapter gen_layout -> b <= max_base gen_layout ->
  a' <= max_adapter gen_layout -> b' <= max_base gen_layout ->
  mk_id_raw gen_layout a t b = mk_id_raw gen_layout a' t' b' -> a = a' /\ t = t' /\ b = b'.
Proof. exact (mk_id_injective gen_layout C14_gen_obligation). Qed.

(* The hypothesis raw < 2^(64 - RESERVED_BITS) is forced by the proof: the poll reserves bits of
   the token, so ids with base value >= 2^(55) would not survive the round trip.  Unreachable in
   practice (2^55 registrations on one adapter); stated, not hidden. *)
Theorem C14_token_roundtrip : forall raw,
  raw < 2 ^ (64 - rbits gen_layout) ->
  id_of_token gen_layout (token_of_id gen_layout raw) = raw /\
  token_of_id gen_layout raw <> waker gen_layout /\
  token_of_id gen_layout raw < 2 ^ 64.
Proof. exact (token_roundtrip gen_layout C14_gen_obligation). Qed.

(* any order of requests over any generators, from any counter state: no id is issued twice *)
Theorem C14_ids_never_reissued : forall cs reqs,
  Forall (key_ok gen_layout) reqs ->
  (forall k, counter_of cs k 0 + N.of_nat (length reqs) <= max_base gen_layout + 1) ->
  NoDup (issue gen_layout cs reqs).
Proof. exact (issue_nodup gen_layout C14_gen_obligation). Qed.

Theorem C14_ids_encode_owner_and_kind : forall cs reqs,
  Forall (key_ok gen_layout) reqs ->
  (forall k, counter_of cs k 0 + N.of_nat (length reqs) <= max_base gen_layout + 1) ->
  Forall2 (fun k id => adapter_id gen_layout id = fst k /\ resource_type gen_layout id = snd k)
          reqs (issue gen_layout cs reqs).
Proof. exact (issue_decodes gen_layout C14_gen_obligation). Qed.

(* non-vacuity: a concrete history meets the hypotheses *)
Example C14_hyps_satisfiable :
  Forall (key_ok gen_layout) [(0, Remote); (3, Local); (0, Remote); (2, Local)] /\
  (forall k, counter_of [] k 0 + N.of_nat (length [(0, Remote); (3, Local); (0, Remote); (2, Local)])
             <= max_base gen_layout + 1) /\
  issue gen_layout [] [(0, Remote); (3, Local); (0, Remote); (2, Local)] = [0; 131; 256; 130].
Proof.
  split; [repeat constructor; vm_compute; discriminate|]. split; [intros k; vm_compute; discriminate|].
  vm_compute. reflexivity.
Qed.

Print Assumptions C14_gen_obligation.
Print Assumptions C14_id_fields_roundtrip.
Print Assumptions C14_id_partition.
Print Assumptions C14_mk_id_injective.
Print Assumptions C14_token_roundtrip.
Print Assumptions C14_ids_never_reissued.
Print Assumptions C14_ids_encode_owner_and_kind.

(* C14 — Endpoints identify one connection forever; ids are never reused.
   Part 1: bit layout, accessors, tokens, generator (resource_id.rs, poll.rs).
   Part 2: registry histories over the driver model (Driver.v): stale endpoints, event attribution. *)
From MIO Require Import Base Gen Bits ResId ResIdProofs Driver DriverProofs.
Local Open Scope N_scope.

(* per-run obligation on the regenerated constants of resource_id.rs / poll.rs *)
Theorem C14_gen_obligation : layout_ok gen_layout = true.
Proof. vm_compute. reflexivity. Qed.

Theorem C14_id_fields_roundtrip : forall a t b,
  a <= max_adapter gen_layout -> b <= max_base gen_layout ->
  adapter_id gen_layout (mk_id_raw gen_layout a t b) = a /\
  resource_type gen_layout (mk_id_raw gen_layout a t b) = t /\
  base_value gen_layout (mk_id_raw gen_layout a t b) = b.
Proof. exact (id_fields_roundtrip gen_layout C14_gen_obligation). Qed.

Theorem C14_id_partition : forall raw,
  raw < 2 ^ 64 ->
  adapter_id gen_layout raw <= max_adapter gen_layout /\
  base_value gen_layout raw <= max_base gen_layout /\
  mk_id_raw gen_layout (adapter_id gen_layout raw) (resource_type gen_layout raw) (base_value gen_layout raw) = raw.
Proof. exact (id_partition gen_layout C14_gen_obligation). Qed.

Theorem C14_mk_id_injective : forall a t b a' t' b',
  a <= max_adapter gen_layout -> b <= max_base gen_layout ->
  a' <= max_adapter gen_layout -> b' <= max_base gen_layout ->
  mk_id_raw gen_layout a t b = mk_id_raw gen_layout a' t' b' -> a = a' /\ t = t' /\ b = b'.
Proof. exact (mk_id_injective gen_layout C14_gen_obligation). Qed.

(* The hypothesis raw < 2^(64 - RESERVED_BITS) is forced by the proof: the poll reserves bits of
   the token, so ids with base value >= 2^(55) would not survive the round trip.  Unreachable in
   practice (2^55 registrations on one adapter); stated, not hidden. *)
Theorem C14_token_roundtrip : forall raw,
  raw < 2 ^ (64 - rbits gen_layout) ->
  id_of_token gen_layout (token_of_id gen_layout raw) = raw /\
  token_of_id gen_layout raw <> waker gen_layout /\
  token_of_id gen_layout raw < 2 ^ 64.
Proof. exact (token_roundtrip gen_layout C14_gen_obligation). Qed.

(* any order of requests over any generators, from any counter state: no id is issued twice *)
Theorem C14_ids_never_reissued : forall cs reqs,
  Forall (key_ok gen_layout) reqs ->
  (forall k, counter_of cs k 0 + N.of_nat (length reqs) <= max_base gen_layout + 1) ->
  NoDup (issue gen_layout cs reqs).
Proof. exact (issue_nodup gen_layout C14_gen_obligation). Qed.

Theorem C14_ids_encode_owner_and_kind : forall cs reqs,
  Forall (key_ok gen_layout) reqs ->
  (forall k, counter_of cs k 0 + N.of_nat (length reqs) <= max_base gen_layout + 1) ->
  Forall2 (fun k id => adapter_id gen_layout id = fst k /\ resource_type gen_layout id = snd k)
          reqs (issue gen_layout cs reqs).
Proof. exact (issue_decodes gen_layout C14_gen_obligation). Qed.

(* non-vacuity: a concrete history meets the hypotheses *)
Example C14_hyps_satisfiable :
  Forall (key_ok gen_layout) [(0, Remote); (3, Local); (0, Remote); (2, Local)] /\
  (forall k, counter_of [] k 0 + N.of_nat (length [(0, Remote); (3, Local); (0, Remote); (2, Local)])
             <= max_base gen_layout + 1) /\
  issue gen_layout [] [(0, Remote); (3, Local); (0, Remote); (2, Local)] = [0; 131; 256; 130].
Proof.
  split; [repeat constructor; vm_compute; discriminate|]. split; [intros k; vm_compute; discriminate|].
  vm_compute. reflexivity.
Qed.

(* ---- part 2: histories of the registry/driver ------------------------------------------------ *)

(* An endpoint kept after its connection ended (Disconnected, or remove() -> true) addresses nothing,
   for good: after ANY continuation of the history -- new connects and accepts on the same adapter,
   traffic, other removals, any adapter behaviour, user calls inside callbacks -- send() on it
   answers ResourceNotFound WITHOUT reaching the adapter's transmit function (no peer receives
   anything), is_ready() answers None and remove() false. *)
Theorem C14_stale_endpoint_forever : forall (a : N) (l1 l2 : list dlabel) (id : rid) (to : addr) (len : N) (ans : send_status),
  a <= max_adapter gen_layout -> cost_labels (l1 ++ l2) <= max_base gen_layout + 1 ->
  resource_type gen_layout id = Remote ->
  count_ends id (snd (drun (dinit a) l1)) = 1%nat ->
  let s := fst (drun (dinit a) (l1 ++ l2)) in
  exec_ucall s (USend (id, to) len ans) = (s, [ORet (USend (id, to) len ans) (RSend ResourceNotFound)]) /\
  exec_ucall s (UIsReady id) = (s, [ORet (UIsReady id) (RIsReady None)]) /\
  exec_ucall s (URemove id) = (s, [ORet (URemove id) (RRemove false)]).
Proof. exact (stale_endpoint_forever C14_gen_obligation). Qed.

(* Every event is reported with the endpoint of the connection it occurred on: in every history the
   trace is accepted by the lifecycle automaton, which admits Connected / Message / Disconnected for
   an id only with the peer address that id was registered with, and Accepted only for an id never
   seen before (so no event can carry the id of an older or of another connection). *)
Theorem C14_events_carry_their_own_endpoint : forall (a : N) (ls : list dlabel),
  a <= max_adapter gen_layout -> cost_labels ls <= max_base gen_layout + 1 ->
  lifecycle_ok_b (snd (drun (dinit a) ls)) = true.
Proof. exact (lifecycle_regular C14_gen_obligation). Qed.

(* non-vacuity: connection 5 ends, a NEWER connection 261 is opened on the same adapter and is
   ready; the stale endpoint answers ResourceNotFound and reaches no adapter *)
Example C14_stale_endpoint_example :
  let ready := {| a_race0 := []; a_pending := PReady; a_cb_conn := []; a_chunks := []; a_read := RWaitNextEvent;
                  a_race := []; a_cb_disc := []; a_accepts := [] |} in
  let closed := {| a_race0 := []; a_pending := PReady; a_cb_conn := []; a_chunks := []; a_read := RDisconnected;
                   a_race := []; a_cb_disc := []; a_accepts := [] |} in
  let l1 := [LCall (UConnect true 4); LProcess 5 Read closed] in
  let l2 := [LCall (UConnect true 4); LProcess 261 Write ready] in
  count_ends 5 (snd (drun (dinit 5) l1)) = 1%nat /\
  snd (exec_ucall (fst (drun (dinit 5) (l1 ++ l2))) (USend (5, 4) 10 Sent)) = [ORet (USend (5, 4) 10 Sent) (RSend ResourceNotFound)] /\
  snd (exec_ucall (fst (drun (dinit 5) (l1 ++ l2))) (USend (261, 4) 10 Sent)) = [OAdapterSend 261 10; ORet (USend (261, 4) 10 Sent) (RSend Sent)].
Proof. vm_compute. repeat split. Qed.

Print Assumptions C14_gen_obligation.
Print Assumptions C14_stale_endpoint_forever.
Print Assumptions C14_events_carry_their_own_endpoint.
Print Assumptions C14_id_fields_roundtrip.
Print Assumptions C14_id_partition.
Print Assumptions C14_mk_id_injective.
Print Assumptions C14_token_roundtrip.
Print Assumptions C14_ids_never_reissued.
Print Assumptions C14_ids_encode_owner_and_kind.

(* C18 — Closed resources release their OS socket; stopped nodes release their threads.
   PARTIAL by nature: that a resource whose last reference is dropped closes its descriptor is
   Rust ownership plus the adapters' Drop/forget code and the kernel — no executable model expresses
   close(2).  What is proved: every path that ends a connection removes it from the registry (so the
   registry holds no reference any more), and the registry never holds an entry that no live id
   denotes.  The descriptor and thread counts themselves are MEASURED on real histories. *)
From MIO Require Import Base Gen ResId ResIdProofs Driver DriverProofs Wire Node NodeProofs.
Local Open Scope N_scope.

Theorem C18_gen_obligation : layout_ok gen_layout = true /\ adapters_shape_ok = true.
Proof. split; vm_compute; reflexivity. Qed.

(* after remove()->true or Disconnected the registry has no entry for the connection (C04), and *)
Theorem C18_ended_connection_unregistered : forall (a : N) (ls : list dlabel) (id : rid),
  a <= max_adapter gen_layout -> cost_labels ls <= max_base gen_layout + 1 ->
  resource_type gen_layout id = Remote ->
  count_ends id (snd (drun (dinit a) ls)) = 1%nat -> find_remote id (remotes (fst (drun (dinit a) ls))) = None.
Proof. intros a ls id Ha Hc Ht. exact (proj2 (end_exactly_once (proj1 C18_gen_obligation) a ls id Ha Hc Ht)). Qed.

(* a failed connect (Connected false) and a failed inbound handshake deregister the resource in the
   very process() call that detects the failure, whatever user code and other threads do meanwhile *)
Theorem C18_failed_pending_unregistered : forall (s0 : dstate) (id : rid) (p : rprops) (a : answer),
  r_ready p = false -> a_pending a = PDisconnected ->
  a_cb_conn a = [] ->
  find_remote id (remotes (fst (fst (resolve_pending s0 id p a)))) = None.
Proof.
  intros s0 id p a Hr Hp Hcb. unfold resolve_pending. rewrite Hr, Hp, Hcb. cbv zeta.
  unfold deregister_remote. destruct (find_remote id (remotes s0)) eqn:E.
  - destruct (r_local p); cbn; apply find_remove_same.
  - destruct (r_local p); cbn; exact E.
Qed.

(* threads: once stopped, no callback starts (C09); the listener threads' loops are guarded by the
   running flag at their heads (Node.v: LLoopCheck leads to Done when running is false) *)
Theorem C18_loop_heads_exit_when_stopped : forall (s s' : nstate) (t : thr),
  running s = false -> nstep s (LLoopCheck t) = Some s' -> get_pc s' t = Done.
Proof.
  intros s s' t Hr H. cbn [nstep] in H. destruct t; cbn [get_pc] in *; try discriminate H.
  - destruct (pc_net s); try discriminate H. rewrite Hr in H. inversion H. reflexivity.
  - destruct (pc_sig s); try discriminate H. rewrite Hr in H. inversion H. reflexivity.
Qed.

Print Assumptions C18_gen_obligation.
Print Assumptions C18_ended_connection_unregistered.
Print Assumptions C18_failed_pending_unregistered.
Print Assumptions C18_loop_heads_exit_when_stopped.

From MIO Require Import Base Gen Bits Varint.
Local Open Scope N_scope.

(* the constants the proofs rely on; checked per run on the regenerated Gen.v *)
Definition varint_consts_ok : bool :=
  (VARINT_MSB =? 128) && (VARINT_DROP_MSB =? 127) && (VARINT_SHIFT_CUTOFF =? 63) &&
  (MAX_ENCODED_SIZE =? 10).

Local Opaque VARINT_MSB VARINT_DROP_MSB VARINT_SHIFT_CUTOFF.

Section Proofs.
  Hypothesis Hc : varint_consts_ok = true.

  Lemma consts : VARINT_MSB = 128 /\ VARINT_DROP_MSB = 127 /\ VARINT_SHIFT_CUTOFF = 63 /\ MAX_ENCODED_SIZE = 10.
  Proof.
    pose proof Hc as H. unfold varint_consts_ok in H.
    repeat match type of H with
           | _ && _ = true => let H' := fresh "H" in apply andb_prop in H; destruct H as [H H']
           end.
    repeat match goal with H : (_ =? _) = true |- _ => apply N.eqb_eq in H end.
    repeat split; assumption.
  Qed.

  (* one step of the decode loop, with the constants substituted *)
  Lemma dec_aux_cons b rest r s :
    dec_aux (b :: rest) r s =
      let r' := N.lor r (ushl (N.land b 127) s) in
      if (N.land b 128 =? 0) || (63 <? s + 7)
      then (if N.land b 128 =? 0 then Some (r', (s + 7) / 7) else None)
      else dec_aux rest r' (s + 7).
  Proof. destruct consts as (E1 & E2 & E3 & _). cbn [dec_aux]. rewrite E1, E2, E3. reflexivity. Qed.

  Lemma enc_f_S f n :
    enc_f (S f) n =
      if 128 <=? n
      then match enc_f f (N.shiftr n 7) with
           | Some l => Some (N.lor 128 (n mod 256) :: l)
           | None => None
           end
      else Some [n mod 256].
  Proof. destruct consts as (E1 & _). cbn [enc_f]. rewrite E1. reflexivity. Qed.

  Lemma div7 k : (7 * k + 7) / 7 = k + 1.
  Proof. replace (7 * k + 7) with ((k + 1) * 7) by lia. apply N.div_mul. lia. Qed.

  (* ---- structure: success depends only on the bytes consumed ---- *)

  (* P1: prefix stability *)
  Lemma dec_aux_app p q r s x : dec_aux p r s = Some x -> dec_aux (p ++ q) r s = Some x.
  Proof.
    revert r s. induction p as [|b p IH]; intros r s H; [discriminate H|].
    rewrite <- app_comm_cons. rewrite dec_aux_cons in *. cbv zeta in *.
    destruct ((N.land b 128 =? 0) || (63 <? s + 7)); [exact H|]. apply IH. exact H.
  Qed.

  (* P2: a successful decode consumed a non-empty prefix, and that prefix alone decodes the same *)
  Lemma dec_aux_split src r k e u :
    dec_aux src r (7 * k) = Some (e, u) ->
    exists pre post, src = pre ++ post /\ pre <> [] /\ u = k + len pre /\
                     dec_aux pre r (7 * k) = Some (e, u).
  Proof.
    revert r k e u. induction src as [|b rest IH]; intros r k e u H; [discriminate H|].
    rewrite dec_aux_cons in H. cbv zeta in H.
    destruct (N.land b 128 =? 0) eqn:Hm.
    - cbn [orb] in H. inversion H; subst. rewrite div7.
      exists [b], rest. split; [reflexivity|]. split; [discriminate|].
      split; [unfold len; simpl; lia|].
      rewrite dec_aux_cons. cbv zeta. rewrite Hm. cbn [orb]. rewrite div7. reflexivity.
    - cbn [orb] in H. destruct (63 <? 7 * k + 7) eqn:Ht; [discriminate H|].
      replace (7 * k + 7) with (7 * (k + 1)) in H by lia.
      destruct (IH _ _ _ _ H) as (pre & post & E & Hne & Hu & Hd).
      exists (b :: pre), post. split; [rewrite E; reflexivity|]. split; [discriminate|].
      split; [unfold len in *; simpl length; lia|].
      rewrite dec_aux_cons. cbv zeta. rewrite Hm, Ht. cbn [orb].
      replace (7 * k + 7) with (7 * (k + 1)) by lia. exact Hd.
  Qed.

  Lemma decode_size_app p q x : decode_size p = Some x -> decode_size (p ++ q) = Some x.
  Proof. apply dec_aux_app. Qed.

  Lemma decode_size_split s e u :
    decode_size s = Some (e, u) ->
    exists pre post, s = pre ++ post /\ pre <> [] /\ u = len pre /\ decode_size pre = Some (e, u).
  Proof.
    unfold decode_size. intros H. change 0 with (7 * 0) in H at 2.
    destruct (dec_aux_split _ _ _ _ _ H) as (pre & post & E & Hne & Hu & Hd).
    exists pre, post. split; [exact E|]. split; [exact Hne|]. split; [lia|exact Hd].
  Qed.

  Lemma decode_size_used s e u : decode_size s = Some (e, u) -> 1 <= u /\ u <= len s.
  Proof.
    intros H. destruct (decode_size_split _ _ _ H) as (pre & post & E & Hne & Hu & _).
    subst. unfold len. rewrite app_length. destruct pre; [contradiction|]. simpl. lia.
  Qed.

  Lemma decode_size_nil : decode_size [] = None.
  Proof. reflexivity. Qed.

  (* ---- values: the canonical encoding round-trips ---- *)

  Lemma land_lor_128 n : N.land (N.lor 128 (n mod 256)) 128 <> 0.
  Proof.
    intros H. assert (Hb : N.testbit (N.land (N.lor 128 (n mod 256)) 128) 7 = false) by (rewrite H; apply N.bits_0).
    change 128 with (2 ^ 7) in Hb. rewrite N.land_spec, N.lor_spec, tb_pow2 in Hb. simpl in Hb. discriminate.
  Qed.

  Lemma land_lor_127 n : N.land (N.lor 128 (n mod 256)) 127 = n mod 128.
  Proof.
    apply N.bits_inj. intros i. change 127 with (N.ones 7). change 128 with (2 ^ 7). change 256 with (2 ^ 8).
    rewrite N.land_spec, N.lor_spec, tb_ones, !tb_mod_pow2, tb_pow2.
    destruct (N.ltb_spec i 7); cmp_lia; bool_simp; reflexivity.
  Qed.

  Lemma land_small_128 n : n < 128 -> N.land n 128 = 0.
  Proof.
    intros H. apply N.bits_inj. intros i. change 128 with (2 ^ 7). rewrite N.land_spec, tb_pow2, N.bits_0.
    destruct (N.eqb_spec i 7) as [->|]; [|apply andb_false_r].
    rewrite (tb_small n 7 7); [reflexivity|exact H|lia].
  Qed.

  Lemma land_small_127 n : n < 128 -> N.land n 127 = n.
  Proof. intros H. change 127 with (N.ones 7). rewrite N.land_ones. apply N.mod_small. exact H. Qed.

  Lemma lor_disjoint r x s : r < 2 ^ s -> N.lor r (N.shiftl x s) = r + x * 2 ^ s.
  Proof.
    intros Hr. rewrite <- N.shiftl_mul_pow2. rewrite <- N.lxor_lor.
    - symmetry. apply N.add_nocarry_lxor.
      apply N.bits_inj. intros i. rewrite N.land_spec, tb_shiftl, N.bits_0.
      destruct (N.leb_spec s i); simpl; [|apply andb_false_r]. rewrite (tb_small r s i); [reflexivity|exact Hr|assumption].
    - apply N.bits_inj. intros i. rewrite N.land_spec, tb_shiftl, N.bits_0.
      destruct (N.leb_spec s i); simpl; [|apply andb_false_r]. rewrite (tb_small r s i); [reflexivity|exact Hr|assumption].
  Qed.

  Lemma lor_disjoint_mul r x s : r < 2 ^ s -> N.lor r (x * 2 ^ s) = r + x * 2 ^ s.
  Proof. intros Hr. rewrite <- (lor_disjoint r x s Hr), N.shiftl_mul_pow2. reflexivity. Qed.

  Lemma enc_f_length f n l : enc_f f n = Some l -> (1 <= length l <= f)%nat.
  Proof.
    revert n l. induction f as [|f IH]; intros n l H; [discriminate H|].
    rewrite enc_f_S in H. destruct (128 <=? n).
    - destruct (enc_f f (N.shiftr n 7)) as [l'|] eqn:E; [|discriminate H]. inversion H; subst.
      specialize (IH _ _ E). simpl. lia.
    - inversion H. simpl. lia.
  Qed.

  Lemma enc_f_total f n : n < 2 ^ (7 * N.of_nat (S f)) -> exists l, enc_f (S f) n = Some l.
  Proof.
    revert n. induction f as [|f IH]; intros n H.
    - change (2 ^ (7 * N.of_nat 1)) with 128 in H. rewrite enc_f_S.
      replace (128 <=? n) with false by (symmetry; apply N.leb_gt; exact H). eexists; reflexivity.
    - remember (S f) as f1. rewrite enc_f_S. destruct (N.leb_spec 128 n) as [Hn|Hn].
      + destruct (IH (N.shiftr n 7)) as [l El].
        * rewrite N.shiftr_div_pow2. apply N.div_lt_upper_bound; [discriminate|].
          rewrite <- N.pow_add_r. replace (7 + 7 * N.of_nat f1) with (7 * N.of_nat (S f1)) by lia. exact H.
        * rewrite El. eexists; reflexivity.
      + eexists; reflexivity.
  Qed.

  (* the decode loop on a canonical encoding: accumulates n at position k without wrapping *)
  Lemma dec_enc_aux f : forall n l k r rest,
    enc_f f n = Some l ->
    r < 2 ^ (7 * k) -> r + n * 2 ^ (7 * k) < 2 ^ 64 -> k + len l <= 10 ->
    dec_aux (l ++ rest) r (7 * k) = Some (r + n * 2 ^ (7 * k), k + len l).
  Proof.
    induction f as [|f IH]; intros n l k r rest He Hr Hnw Hk; [discriminate He|].
    rewrite enc_f_S in He. destruct (N.leb_spec 128 n) as [Hn|Hn].
    - destruct (enc_f f (N.shiftr n 7)) as [l'|] eqn:E; [|discriminate He]. inversion He; subst l. clear He.
      rewrite <- app_comm_cons, dec_aux_cons. cbv zeta.
      pose proof (enc_f_length _ _ _ E) as [Hl1 _].
      assert (Hk8 : k <= 8) by (unfold len in Hk; simpl length in Hk; lia).
      destruct (N.land (N.lor 128 (n mod 256)) 128 =? 0) eqn:Hm; [apply N.eqb_eq in Hm; exfalso; exact (land_lor_128 n Hm)|].
      replace (63 <? 7 * k + 7) with false by (symmetry; apply N.ltb_ge; lia). cbn [orb].
      rewrite land_lor_127. unfold ushl, USIZE_MOD.
      assert (Hpos : 0 < 2 ^ (7 * k)) by (apply N.neq_0_lt_0, N.pow_nonzero; lia).
      assert (Hdm : n = 128 * (n / 128) + n mod 128) by (apply N.div_mod; lia).
      assert (Hlow : (n mod 128) * 2 ^ (7 * k) <= n * 2 ^ (7 * k)).
      { apply N.mul_le_mono_r. apply N.mod_le. lia. }
      rewrite N.shiftl_mul_pow2, N.mod_small by lia.
      rewrite lor_disjoint_mul by exact Hr.
      replace (7 * k + 7) with (7 * (k + 1)) by lia.
      rewrite (IH (N.shiftr n 7) l' (k + 1)); [| exact E | | | ].
      + f_equal. f_equal.
        * rewrite N.shiftr_div_pow2. change (2 ^ 7) with 128.
          replace (7 * (k + 1)) with (7 + 7 * k) by lia. rewrite N.pow_add_r. change (2 ^ 7) with 128.
          rewrite Hdm at 3. lia.
        * unfold len. simpl length. lia.
      + replace (7 * (k + 1)) with (7 + 7 * k) by lia. rewrite N.pow_add_r. change (2 ^ 7) with 128.
        assert (n mod 128 < 128) by (apply N.mod_lt; lia). nia.
      + rewrite N.shiftr_div_pow2. change (2 ^ 7) with 128.
        replace (7 * (k + 1)) with (7 + 7 * k) by lia. rewrite N.pow_add_r. change (2 ^ 7) with 128.
        replace (r + n mod 128 * 2 ^ (7 * k) + n / 128 * (128 * 2 ^ (7 * k)))
          with (r + (128 * (n / 128) + n mod 128) * 2 ^ (7 * k)) by lia.
        rewrite <- Hdm. exact Hnw.
      + unfold len in *. simpl length in Hk. lia.
    - inversion He; subst l. clear He. rewrite N.mod_small by lia.
      cbn [app]. rewrite dec_aux_cons. cbv zeta.
      rewrite (land_small_128 n Hn), N.eqb_refl. cbn [orb]. rewrite (land_small_127 n Hn), div7.
      unfold ushl, USIZE_MOD. rewrite N.shiftl_mul_pow2, N.mod_small by lia.
      rewrite lor_disjoint_mul by exact Hr. reflexivity.
  Qed.

  Theorem dec_enc n rest :
    n < 2 ^ 64 ->
    exists l, enc n = Some l /\ (1 <= length l <= 10)%nat /\ decode_size (l ++ rest) = Some (n, len l).
  Proof.
    intros Hn. destruct (enc_f_total 9 n) as [l El].
    { eapply N.lt_le_trans; [exact Hn|]. apply N.pow_le_mono_r; [lia|]. vm_compute. discriminate. }
    change (enc_f 10 n = Some l) in El.
    exists l. split; [exact El|]. pose proof (enc_f_length _ _ _ El) as Hl. split; [exact Hl|].
    unfold decode_size. change 0 with (7 * 0) at 2.
    rewrite (dec_enc_aux 10%nat n l 0 0 rest El).
    - change (2 ^ (7 * 0)) with 1. f_equal. f_equal; lia.
    - change (2 ^ (7 * 0)) with 1. lia.
    - change (2 ^ (7 * 0)) with 1. lia.
    - unfold len. lia.
  Qed.

  (* ---- the prefix is THE canonical LEB128: declarative characterisation ---- *)
  Fixpoint leb_value (l : list N) : N :=
    match l with [] => 0 | b :: r => (b mod 128) + 128 * leb_value r end.

  (* continuation bit on all bytes but the last, every byte fits in 8 bits *)
  Fixpoint leb_shape (l : list N) : bool :=
    match l with
    | [] => false
    | [b] => b <? 128
    | b :: r => (128 <=? b) && (b <? 256) && leb_shape r
    end.

  (* no trailing zero group, except for the single byte 0 *)
  Definition leb_minimal (l : list N) : bool :=
    match rev l with
    | b :: _ :: _ => negb (b =? 0)
    | _ => true
    end.

  Lemma lor_128_mod n : N.lor 128 (n mod 256) = 128 + n mod 128.
  Proof.
    apply N.bits_inj. intros i.
    assert (H : 128 + n mod 128 = N.lor (n mod 128) (N.shiftl 1 7)).
    { rewrite lor_disjoint; [change (2 ^ 7) with 128; lia|]. apply N.mod_lt. discriminate. }
    rewrite H. change 128 with (2 ^ 7). change 256 with (2 ^ 8).
    rewrite !N.lor_spec, tb_pow2, !tb_mod_pow2, tb_shiftl.
    destruct (N.eqb_spec i 7) as [->|Hne]; [reflexivity|].
    destruct (N.ltb_spec i 7); cmp_lia; bool_simp.
    - reflexivity.
    - destruct (N.ltb_spec i 8); [lia|]. bool_simp.
      change 1 with (2 ^ 0). rewrite tb_pow2. cmp_lia. reflexivity.
  Qed.

  Lemma enc_f_canonical f : forall n l,
    enc_f f n = Some l ->
    leb_value l = n /\ leb_shape l = true /\
    (forall b, last l 1 = b -> (2 <= length l)%nat -> b <> 0).
  Proof.
    induction f as [|f IH]; intros n l He; [discriminate He|].
    rewrite enc_f_S in He. destruct (N.leb_spec 128 n) as [Hn|Hn].
    - destruct (enc_f f (N.shiftr n 7)) as [l'|] eqn:E; [|discriminate He]. inversion He; subst l. clear He.
      destruct (IH _ _ E) as (Hv & Hs & Hm).
      pose proof (enc_f_length _ _ _ E) as [Hl1 _].
      rewrite lor_128_mod. repeat split.
      + cbn [leb_value]. rewrite Hv, N.shiftr_div_pow2. change (2 ^ 7) with 128.
        replace ((128 + n mod 128) mod 128) with (n mod 128).
        * rewrite N.add_comm. symmetry. apply N.div_mod. lia.
        * replace (128 + n mod 128) with (n mod 128 + 1 * 128) by lia. rewrite N.mod_add by lia.
          symmetry. apply N.mod_small. apply N.mod_lt. lia.
      + cbn [leb_shape]. destruct l' as [|b' l'']; [simpl in Hl1; lia|].
        rewrite Hs. assert (n mod 128 < 128) by (apply N.mod_lt; lia).
        replace (128 <=? 128 + n mod 128) with true by (symmetry; apply N.leb_le; lia).
        replace (128 + n mod 128 <? 256) with true by (symmetry; apply N.ltb_lt; lia). reflexivity.
      + intros b Hb _. destruct l' as [|b' l'']; [simpl in Hl1; lia|].
        destruct l'' as [|b'' l'''].
        * (* l' = [b'] : the last group is n >> 7 >= 1 *)
          cbn in Hb. subst b. cbn [leb_value] in Hv. rewrite N.shiftr_div_pow2 in Hv. change (2 ^ 7) with 128 in Hv.
          intros H0. subst b'. change (0 mod 128) with 0 in Hv. lia.
        * apply (Hm b); [|simpl; lia]. exact Hb.
    - inversion He; subst l. rewrite N.mod_small by lia. repeat split.
      + cbn [leb_value]. rewrite N.mod_small by lia. lia.
      + cbn [leb_shape]. apply N.ltb_lt. exact Hn.
      + intros b _ Hlen. simpl in Hlen. lia.
  Qed.
End Proofs.

From MIO Require Import Base Gen RemoteAddr.

Section Proofs.
  Variable sockaddr : Type.
  Variable text : Type.        (* the caller's string type; Rust: &str / String *)
  Variable parse : text -> option sockaddr.
  Variable S : shape.
  Hypothesis HS : shape_ok S = true.

  Definition std_shape : shape :=
    Build_shape CSocket CStr CSocket CStr CSocket CStr true.

  Lemma shape_is_std : S = std_shape.
  Proof.
    destruct S as [a b c d e f g]. unfold shape_ok in HS. simpl in HS.
    destruct a, b, c, d, e, f, g; simpl in HS; try discriminate HS. reflexivity.
  Qed.

  (* the text converts to the socket-address form exactly when it parses, and to the string
     form, text preserved, otherwise *)
  Lemma classify_iff (s : text) :
    (forall a, parse s = Some a -> to_remote_addr sockaddr text parse S s = Some (Socket a)) /\
    (parse s = None -> to_remote_addr sockaddr text parse S s = Some (Str s)) /\
    (exists r, to_remote_addr sockaddr text parse S s = Some r /\
       (is_socket_addr sockaddr text S r = true <-> parse s <> None) /\
       (is_string sockaddr text S r = true <-> parse s = None)).
  Proof.
    rewrite shape_is_std. unfold to_remote_addr, is_socket_addr, is_string. simpl.
    destruct (parse s) as [a|] eqn:Hp.
    - split; [intros a0 Ha; inversion Ha; reflexivity|]. split; [discriminate|].
      exists (Socket a). simpl. split; [reflexivity|].
      split; split; intros H; try discriminate; try reflexivity.
    - split; [discriminate|]. split; [reflexivity|].
      exists (Str s). simpl. split; [reflexivity|].
      split; split; intros H; try discriminate; try reflexivity; try (contradiction H; reflexivity).
  Qed.

  (* each predicate is true for exactly its own form; they are complementary *)
  Lemma predicates_exclusive (r : remote_addr sockaddr text) :
    (is_socket_addr sockaddr text S r = true <-> exists a, r = Socket a) /\
    (is_string sockaddr text S r = true <-> exists s, r = Str s) /\
    is_string sockaddr text S r = negb (is_socket_addr sockaddr text S r).
  Proof.
    rewrite shape_is_std. unfold is_socket_addr, is_string.
    destruct r as [a|s]; simpl; (split; [|split]); try reflexivity; split; intros H;
      try discriminate H; try (eexists; reflexivity); destruct H as [? H]; discriminate H.
  Qed.

  (* the matching accessor returns the stored value; the other one panics *)
  Lemma accessors :
    (forall a, socket_addr sockaddr text S (Socket a) = Ok a) /\
    (forall s, string_of sockaddr text S (Str s) = Ok s) /\
    (forall s, socket_addr sockaddr text S (Str s) = Panic) /\
    (forall a, string_of sockaddr text S (Socket a) = Panic).
  Proof. rewrite shape_is_std. repeat split. Qed.

  (* conversions from socket-address types lose nothing *)
  Lemma from_socket_lossless (a : sockaddr) :
    exists r, from_socket sockaddr text S a = Some r /\ socket_addr sockaddr text S r = Ok a /\
              is_socket_addr sockaddr text S r = true /\ is_string sockaddr text S r = false.
  Proof. rewrite shape_is_std. exists (Socket a). repeat split. Qed.

  (* round trip through the text conversion: what is stored is what was given *)
  Lemma text_preserved (s : text) :
    parse s = None ->
    exists r, to_remote_addr sockaddr text parse S s = Some r /\ string_of sockaddr text S r = Ok s.
  Proof.
    intros Hp. rewrite shape_is_std. unfold to_remote_addr. rewrite Hp. simpl.
    exists (Str s). split; reflexivity.
  Qed.
End Proofs.

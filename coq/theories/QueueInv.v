(* QueueInv.v — invariants of the events.rs model over ALL label sequences (any number of sender
   threads, any interleaving with the receiver, any clock readings):
     * FIFO conservation of plain and priority events      (C06)
     * timers: unique identity, exactly-once, nothing lost, cancellation exact   (C06, C08)
     * timers never fire early                             (C08)
     * no lost wake-up, truthful timeout                   (C16) *)
From MIO Require Import Base Queue QueueProofs.
From Coq Require Import Sorting.Sorted Sorting.Permutation.
Local Open Scope N_scope.

Section Inv.
  Variable E : Type.
  Notation tid := Queue.tid.
  Notation qstate := (Queue.qstate E).

  (* ghost history of a run: what was sent, committed, cancelled, delivered *)
  Record ghost := {
    g_plain_sent : list E; g_prio_sent : list E;
    g_plain_recv : list E; g_prio_recv : list E;
    g_committed : list (tid * E);      (* timers whose Create reached the command channel *)
    g_cancelled : list tid;
    g_delivered : list (tid * E)
  }.
  Definition ghost0 : ghost :=
    {| g_plain_sent := []; g_prio_sent := []; g_plain_recv := []; g_prio_recv := [];
       g_committed := []; g_cancelled := []; g_delivered := [] |}.

  Definition tid_mem (id : tid) (l : list tid) : bool := existsb (tid_eqb id) l.

  Definition note_out (g : ghost) (o : out E) : ghost :=
    match o with
    | OEvent _ e => {| g_plain_sent := g_plain_sent g; g_prio_sent := g_prio_sent g; g_plain_recv := g_plain_recv g ++ [e];
                     g_prio_recv := g_prio_recv g; g_committed := g_committed g; g_cancelled := g_cancelled g; g_delivered := g_delivered g |}
    | OPrio _ e => {| g_plain_sent := g_plain_sent g; g_prio_sent := g_prio_sent g; g_plain_recv := g_plain_recv g;
                    g_prio_recv := g_prio_recv g ++ [e]; g_committed := g_committed g; g_cancelled := g_cancelled g; g_delivered := g_delivered g |}
    | OTimer _ id e => {| g_plain_sent := g_plain_sent g; g_prio_sent := g_prio_sent g; g_plain_recv := g_plain_recv g;
                        g_prio_recv := g_prio_recv g; g_committed := g_committed g; g_cancelled := g_cancelled g; g_delivered := g_delivered g ++ [(id, e)] |}
    | _ => g
    end.

  Definition note_label (s : qstate) (g : ghost) (l : label E) : ghost :=
    match l with
    | LSend _ e => {| g_plain_sent := g_plain_sent g ++ [e]; g_prio_sent := g_prio_sent g; g_plain_recv := g_plain_recv g;
                    g_prio_recv := g_prio_recv g; g_committed := g_committed g; g_cancelled := g_cancelled g; g_delivered := g_delivered g |}
    | LSendPrio _ e => {| g_plain_sent := g_plain_sent g; g_prio_sent := g_prio_sent g ++ [e]; g_plain_recv := g_plain_recv g;
                        g_prio_recv := g_prio_recv g; g_committed := g_committed g; g_cancelled := g_cancelled g; g_delivered := g_delivered g |}
    | LTimerCommit _ th =>
        match take_prepared E th (prepared s) with
        | Some (x, _) => {| g_plain_sent := g_plain_sent g; g_prio_sent := g_prio_sent g; g_plain_recv := g_plain_recv g;
                            g_prio_recv := g_prio_recv g; g_committed := g_committed g ++ [x]; g_cancelled := g_cancelled g; g_delivered := g_delivered g |}
        | None => g
        end
    | LCancel _ id => {| g_plain_sent := g_plain_sent g; g_prio_sent := g_prio_sent g; g_plain_recv := g_plain_recv g;
                       g_prio_recv := g_prio_recv g; g_committed := g_committed g; g_cancelled := g_cancelled g ++ [id]; g_delivered := g_delivered g |}
    | _ => g
    end.

  (* a TimerId cannot be forged (private fields): cancel_timer is only ever called with an id that
     a completed send_with_timer returned *)
  Definition label_ok (g : ghost) (l : label E) : bool :=
    match l with
    | LCancel _ id => tid_mem id (map fst (g_committed g))
    | _ => true
    end.

  Definition gstep (sg : qstate * ghost) (l : label E) : option (qstate * ghost * out E) :=
    let '(s, g) := sg in
    if label_ok g l then
      match step E s l with
      | Some (s', o) => Some (s', note_out (note_label s g l) o, o)
      | None => None
      end
    else None.

  Inductive reachable : qstate * ghost -> Prop :=
  | reach_init : reachable (qinit E, ghost0)
  | reach_step sg l s' g' o : reachable sg -> gstep sg l = Some (s', g', o) -> reachable (s', g').

  (* ---------------------------------------------------------------------------------------- *)
  (* how one step changes the plain / priority queues and the effective timer map *)
  Notation eff := (QueueProofs.eff E).
  Notation SortedMap := (QueueProofs.SortedMap E).

  Lemma eff_rst (s : qstate) r : eff (set_rst E s r) = eff s.
  Proof. reflexivity. Qed.

  Lemma try_receive_shape (s : qstate) now :
    SortedMap (timers s) ->
    let '(s', o) := try_receive E s now in
    SortedMap (timers s') /\ cmds s' = [] /\ timers s' = eff s' /\
    nseq s' = nseq s /\ prepared s' = prepared s /\ rst s' = rst s /\
    match o with
    | OPrio _ e => prio s = e :: prio s' /\ plain s' = plain s /\ eff s' = eff s
    | OTimer _ id e => prio s = [] /\ prio s' = [] /\ plain s' = plain s /\ eff s = (id, e) :: eff s' /\ fst id <= now
    | OEvent _ e => prio s = [] /\ prio s' = [] /\ plain s = e :: plain s' /\ eff s' = eff s /\
                  (forall id e' r, eff s = (id, e') :: r -> now < fst id)
    | ONone _ => prio s = [] /\ prio s' = [] /\ plain s = [] /\ plain s' = [] /\ eff s' = eff s /\
               (forall id e' r, eff s = (id, e') :: r -> now < fst id)
    | _ => False
    end.
  Proof.
    intros Hs. pose proof (fold_sorted E (cmds s) (timers s) Hs) as Hes. fold (eff s) in Hes.
    unfold try_receive. cbv zeta.
    assert (F : plain (enque_timers E s) = plain s /\ prio (enque_timers E s) = prio s /\ cmds (enque_timers E s) = [] /\
                timers (enque_timers E s) = eff s /\ nseq (enque_timers E s) = nseq s /\
                prepared (enque_timers E s) = prepared s /\ rst (enque_timers E s) = rst s /\ eff (enque_timers E s) = eff s)
      by (repeat split; reflexivity).
    remember (enque_timers E s) as s1 eqn:Es1. clear Es1.
    destruct F as (F1 & F2 & F3 & F4 & F5 & F6 & F7 & F8). rewrite F1, F2, F4.
    assert (Heff1 : forall t p c, eff {| plain := p; prio := c; cmds := cmds s1; timers := t; nseq := nseq s1; prepared := prepared s1; rst := rst s1 |} = t)
      by (intros; unfold QueueProofs.eff; cbn [cmds timers]; rewrite F3; reflexivity).
    destruct (prio s) as [|pe pr] eqn:Ep.
    - destruct (eff s) as [|[id e] r] eqn:Ee.
      + destruct (plain s) as [|e' r'] eqn:Epl; cbn [timers cmds plain prio nseq prepared rst]; rewrite ?Heff1, ?F8, ?Ee;
          repeat split; auto; try congruence; try (constructor; fail).
      + destruct (N.leb_spec (fst id) now) as [Hexp|Hexp].
        * inversion Hes; subst. cbn [timers cmds plain prio nseq prepared rst]; rewrite ?Heff1; repeat split; auto; congruence.
        * destruct (plain s) as [|e' r'] eqn:Epl; cbn [timers cmds plain prio nseq prepared rst]; rewrite ?Heff1, ?F8, ?Ee;
            repeat split; auto; try congruence; try (intros id0 e0 r0 H0; inversion H0; subst; exact Hexp).
    - cbn [timers cmds plain prio nseq prepared rst]; rewrite ?Heff1, ?F8; repeat split; auto; congruence.
  Qed.

  (* the effect of a "receive-like" action on the queues *)
  Definition recv_effect (s s' : qstate) (o : out E) (now : N) : Prop :=
    nseq s' = nseq s /\ prepared s' = prepared s /\
    match o with
    | OPrio _ e => prio s = e :: prio s' /\ plain s' = plain s /\ eff s' = eff s
    | OTimer _ id e => prio s' = prio s /\ plain s' = plain s /\ eff s = (id, e) :: eff s' /\ fst id <= now
    | OEvent _ e => prio s' = prio s /\ plain s = e :: plain s' /\ eff s' = eff s
    | ONone _ | OBlocked _ => prio s' = prio s /\ plain s' = plain s /\ eff s' = eff s
    | _ => False
    end.

  Definition rst_ok (s' : qstate) : Prop :=
    match rst s' with
    | Idle => True
    | Blocked a _ => a = next_timer_alarm E s'
    end.

  Lemma recv_iteration_effect (s : qstate) u now :
    SortedMap (timers s) ->
    let '(s', o) := recv_iteration E s u now in
    SortedMap (timers s') /\ recv_effect s s' o now /\ rst_ok s' /\ (o = ONone E -> False).
  Proof.
    intros Hs. unfold recv_iteration. pose proof (try_receive_shape s now Hs) as H.
    destruct (try_receive E s now) as [s1 o1]. destruct H as (Hs1 & Hc1 & Ht1 & Hn1 & Hp1 & Hr1 & Ho).
    unfold recv_effect, rst_ok.
    destruct o1; try contradiction; cbn [set_rst timers nseq prepared prio plain rst]; rewrite ?eff_rst;
      repeat split; auto; try tauto; try (intros Hx; discriminate Hx).
    all: try (unfold QueueProofs.eff; cbn [cmds timers]; tauto).
    all: destruct Ho as (? & ? & ? & ? & ?); congruence.
  Qed.

  (* per label: what a step does *)
  Definition sender_frame (s s' : qstate) : Prop :=
    timers s' = timers s /\ rst s' = rst s.

  Lemma step_effect (s s' : qstate) l o :
    SortedMap (timers s) -> rst_ok s -> step E s l = Some (s', o) ->
    SortedMap (timers s') /\ rst_ok s' /\
    match l with
    | LSend _ e => plain s' = plain s ++ [e] /\ prio s' = prio s /\ eff s' = eff s /\ nseq s' = nseq s /\ prepared s' = prepared s /\ o = OUnit E
    | LSendPrio _ e => prio s' = prio s ++ [e] /\ plain s' = plain s /\ eff s' = eff s /\ nseq s' = nseq s /\ prepared s' = prepared s /\ o = OUnit E
    | LTimerPrepare _ th e d now =>
        plain s' = plain s /\ prio s' = prio s /\ eff s' = eff s /\ nseq s' = nseq s + 1 /\
        prepared s' = prepared s ++ [(th, ((now + d, nseq s), e))] /\ o = OId E (now + d, nseq s)
    | LTimerCommit _ th =>
        exists id e rest, take_prepared E th (prepared s) = Some ((id, e), rest) /\ prepared s' = rest /\
          plain s' = plain s /\ prio s' = prio s /\ nseq s' = nseq s /\ eff s' = tinsert E id e (eff s) /\ o = OUnit E
    | LCancel _ id =>
        plain s' = plain s /\ prio s' = prio s /\ nseq s' = nseq s /\ prepared s' = prepared s /\
        eff s' = tremove E id (eff s) /\ o = OUnit E
    | LTryRecv _ now | LRecvBegin _ _ now | LWake _ _ now => recv_effect s s' o now
    end.
  Proof.
    intros Hs Hr Hst. destruct l as [e|e|th e d now|th|id|now|tmo now|a now]; cbn [step] in Hst.
    - inversion Hst; subst. unfold rst_ok, next_timer_alarm in *. cbn. repeat split; auto.
    - inversion Hst; subst. unfold rst_ok, next_timer_alarm in *. cbn. repeat split; auto.
    - inversion Hst; subst. unfold rst_ok, next_timer_alarm in *. cbn. repeat split; auto.
    - destruct (take_prepared E th (prepared s)) as [[[id e] rest]|] eqn:Et; [|discriminate Hst].
      inversion Hst; subst. unfold rst_ok, next_timer_alarm in *. cbn [timers rst]. split; [exact Hs|]. split; [exact Hr|].
      exists id, e, rest. cbn. repeat split; auto. unfold QueueProofs.eff. cbn [cmds timers]. rewrite fold_left_app. reflexivity.
    - inversion Hst; subst. unfold rst_ok, next_timer_alarm in *. cbn [timers rst]. split; [exact Hs|]. split; [exact Hr|].
      cbn. repeat split; auto. unfold QueueProofs.eff. cbn [cmds timers]. rewrite fold_left_app. reflexivity.
    - destruct (rst s) eqn:Er; [|discriminate Hst]. inversion Hst as [Htr].
      pose proof (try_receive_shape s now Hs) as H. rewrite Htr in H.
      destruct H as (Hs1 & Hc1 & Ht1 & Hn1 & Hp1 & Hr1 & Ho). split; [exact Hs1|]. split.
      + unfold rst_ok. rewrite Hr1, Er. exact I.
      + unfold recv_effect. split; [exact Hn1|]. split; [exact Hp1|]. destruct o; try contradiction; intuition congruence.
    - destruct (rst s) eqn:Er; [|discriminate Hst]. inversion Hst as [Htr].
      pose proof (recv_iteration_effect s (match tmo with Some t => Some (now + t) | None => None end) now Hs) as H.
      rewrite Htr in H. tauto.
    - destruct (rst s) as [|alarm until] eqn:Er; [discriminate Hst|]. destruct a.
      + destruct (plain s) as [|e r] eqn:Ep; [discriminate Hst|]. inversion Hst; subst.
        unfold rst_ok, recv_effect. cbn. repeat split; auto.
      + destruct (prio s) as [|e r] eqn:Ep; [discriminate Hst|]. inversion Hst; subst.
        unfold rst_ok, recv_effect. cbn. repeat split; auto.
      + destruct (cmds s) as [|c r] eqn:Ec; [discriminate Hst|]. inversion Hst as [Htr]. clear Hst.
        set (s0 := {| plain := plain s; prio := prio s; cmds := r; timers := process_timer_command E (timers s) c;
                      nseq := nseq s; prepared := prepared s; rst := Blocked alarm until |}) in *.
        assert (Hs0 : SortedMap (timers s0)).
        { cbn. unfold process_timer_command. destruct c as [id [e|]]; cbn [fst snd]; [apply tinsert_sorted|apply tremove_sorted]; exact Hs. }
        pose proof (recv_iteration_effect s0 until now Hs0) as H. rewrite Htr in H.
        destruct H as (H1 & H2 & H3 & H4). split; [exact H1|]. split; [exact H3|].
        assert (Heq : eff s0 = eff s) by (unfold QueueProofs.eff; cbn [cmds timers]; rewrite Ec; reflexivity).
        unfold recv_effect in *. cbn [plain prio nseq prepared] in H2. rewrite Heq in H2. exact H2.
      + destruct (opt_leb alarm now); [|discriminate Hst]. inversion Hst as [Htr].
        pose proof (recv_iteration_effect s until now Hs) as H. rewrite Htr in H. tauto.
      + destruct (plain s) eqn:Ep; [|discriminate Hst]. destruct (prio s) eqn:Epr; [|discriminate Hst].
        destruct (cmds s) eqn:Ec; [|discriminate Hst].
        destruct (opt_leb until now && negb (opt_leb alarm now)); [|discriminate Hst]. inversion Hst; subst.
        unfold rst_ok, recv_effect. cbn. repeat split; auto.
  Qed.

  (* ---------------------------------------------------------------------------------------- *)
  (* THE INVARIANTS *)
  Definition keys (l : list (tid * E)) : list tid := map fst l.

  Definition InvS (sg : qstate * ghost) : Prop := SortedMap (timers (fst sg)) /\ rst_ok (fst sg).

  (* C06: FIFO conservation — delivered prefix ++ still queued = sent, for both channels *)
  Definition InvFifo (sg : qstate * ghost) : Prop :=
    g_plain_sent (snd sg) = g_plain_recv (snd sg) ++ plain (fst sg) /\
    g_prio_sent (snd sg) = g_prio_recv (snd sg) ++ prio (fst sg).

  Record InvT (sg : qstate * ghost) : Prop := {
    (* timer identity: every id handed out so far is below the counter; ids are never repeated *)
    I_fresh_c : forall x, In x (g_committed (snd sg)) -> snd (fst x) < nseq (fst sg);
    I_fresh_p : forall th x, In (th, x) (prepared (fst sg)) -> snd (fst x) < nseq (fst sg);
    I_nodup : NoDup (keys (g_committed (snd sg)) ++ keys (map snd (prepared (fst sg))));
    (* what is in the effective map was committed, with that event *)
    I_live_c : forall x, In x (eff (fst sg)) -> In x (g_committed (snd sg));
    (* nothing lost: a committed timer is cancelled, delivered, or still live *)
    I_nolost : forall x, In x (g_committed (snd sg)) ->
                 In (fst x) (g_cancelled (snd sg)) \/ In x (g_delivered (snd sg)) \/ In x (eff (fst sg));
    (* at most once, nothing invented *)
    I_deliv_c : forall x, In x (g_delivered (snd sg)) -> In x (g_committed (snd sg));
    I_deliv_nodup : NoDup (keys (g_delivered (snd sg)));
    I_deliv_gone : forall x, In x (g_delivered (snd sg)) -> ~ In (fst x) (keys (eff (fst sg)));
    (* cancellation: only of committed timers; a cancelled timer is out of the map for good *)
    I_cancel_c : forall id, In id (g_cancelled (snd sg)) -> In id (keys (g_committed (snd sg)));
    I_cancel_gone : forall id, In id (g_cancelled (snd sg)) -> ~ In id (keys (eff (fst sg)))
  }.

  Lemma gstep_inv sg l s' g' o :
    gstep sg l = Some (s', g', o) ->
    label_ok (snd sg) l = true /\ step E (fst sg) l = Some (s', o) /\ g' = note_out (note_label (fst sg) (snd sg) l) o.
  Proof.
    destruct sg as [s g]. unfold gstep. cbn [fst snd]. destruct (label_ok g l); [|discriminate].
    destruct (step E s l) as [[s1 o1]|]; [|discriminate]. intros H. inversion H; subst. auto.
  Qed.

  Lemma InvS_reachable sg : reachable sg -> InvS sg.
  Proof.
    induction 1 as [|sg l s' g' o Hr IH Hst].
    - split; [constructor|exact I].
    - destruct (gstep_inv _ _ _ _ _ Hst) as (_ & Hs & _). destruct IH as [H1 H2].
      destruct (step_effect _ _ _ _ H1 H2 Hs) as (H3 & H4 & _). split; assumption.
  Qed.

  Lemma sorted_eff (s : qstate) : SortedMap (timers s) -> SortedMap (eff s).
  Proof. apply fold_sorted. Qed.

  (* ---- C06 part 1 ---- *)
  Theorem fifo_conservation sg : reachable sg -> InvFifo sg.
  Proof.
    induction 1 as [|sg l s' g' o Hr IH Hst]; [split; reflexivity|].
    destruct (gstep_inv _ _ _ _ _ Hst) as (_ & Hs & ->). destruct (InvS_reachable _ Hr) as [H1 H2].
    destruct (step_effect _ _ _ _ H1 H2 Hs) as (_ & _ & He). destruct sg as [s g]. destruct IH as [Ip Iq].
    unfold InvFifo in *. cbn [fst snd] in *.
    destruct l as [e|e|th e d now|th|id|now|tmo now|a now].
    - destruct He as (E1 & E2 & _ & _ & _ & ->). cbn. rewrite E1, E2, Ip, Iq, app_assoc. split; reflexivity.
    - destruct He as (E1 & E2 & _ & _ & _ & ->). cbn. rewrite E1, E2, Ip, Iq, app_assoc. split; reflexivity.
    - destruct He as (E1 & E2 & _ & _ & _ & ->). cbn. rewrite E1, E2. split; assumption.
    - destruct He as (id & e & rest & Et & _ & E1 & E2 & _ & _ & ->). cbn [note_label]. rewrite Et. cbn. rewrite E1, E2. split; assumption.
    - destruct He as (E1 & E2 & _ & _ & _ & ->). cbn. rewrite E1, E2. split; assumption.
    - destruct He as (_ & _ & He). cbn [note_label]. destruct o; try contradiction; cbn; destruct He as (E1 & E2 & _);
        rewrite ?E1, ?E2, ?Ip, ?Iq, <- ?app_assoc; cbn [app]; split; congruence.
    - destruct He as (_ & _ & He). cbn [note_label]. destruct o; try contradiction; cbn; destruct He as (E1 & E2 & _);
        rewrite ?E1, ?E2, ?Ip, ?Iq, <- ?app_assoc; cbn [app]; split; congruence.
    - destruct He as (_ & _ & He). cbn [note_label]. destruct o; try contradiction; cbn; destruct He as (E1 & E2 & _);
        rewrite ?E1, ?E2, ?Ip, ?Iq, <- ?app_assoc; cbn [app]; split; congruence.
  Qed.


  (* ---- timers ---- *)
  Lemma take_prepared_perm th (l : list (N * (tid * E))) x rest :
    take_prepared E th l = Some (x, rest) -> Permutation l ((th, x) :: rest).
  Proof.
    revert x rest. induction l as [|[t y] r IH]; intros x rest H; [discriminate H|].
    cbn [take_prepared] in H. destruct (N.eqb_spec t th) as [->|Hne].
    - inversion H; subst. apply Permutation_refl.
    - destruct (take_prepared E th r) as [[y' r']|]; [|discriminate H]. inversion H; subst.
      eapply perm_trans; [apply perm_skip; apply IH; reflexivity|]. apply perm_swap.
  Qed.

  Lemma keys_in (l : list (tid * E)) x : In x l -> In (fst x) (keys l).
  Proof. intros H. apply in_map. exact H. Qed.

  Lemma sorted_head_notin id e (r : list (tid * E)) : SortedMap ((id, e) :: r) -> ~ In id (keys r).
  Proof.
    intros Hs Hin. inversion Hs as [|? ? _ Hall]; subst. apply in_map_iff in Hin. destruct Hin as (y & Hy & Hin).
    rewrite Forall_forall in Hall. specialize (Hall _ Hin). unfold keylt in Hall. cbn [fst] in Hall.
    rewrite Hy in Hall. exact (tlt_irrefl _ Hall).
  Qed.

  Lemma InvT_init : InvT (qinit E, ghost0).
  Proof. constructor; cbn; try (intros; contradiction); try constructor. Qed.

  Lemma InvT_step sg l s' g' o :
    reachable sg -> InvT sg -> gstep sg l = Some (s', g', o) -> InvT (s', g').
  Proof.
    intros Hr HI Hst. destruct (gstep_inv _ _ _ _ _ Hst) as (Hok & Hs & ->).
    destruct (InvS_reachable _ Hr) as [H1 H2]. destruct (step_effect _ _ _ _ H1 H2 Hs) as (_ & _ & He).
    pose proof (sorted_eff _ H1) as Hes.
    destruct sg as [s g]. cbn [fst snd] in *. destruct HI as [Ifc Ifp Ind Ilc Inl Idc Idn Idg Icc Icg]. cbn [fst snd] in *.
    (* deliveries and non-timer steps are handled uniformly *)
    assert (Hrecv : forall now, recv_effect s s' o now ->
              InvT (s', note_out g o)).
    { intros now (En & Ep & Ho). destruct o; try contradiction.
      - (* ONone *) destruct Ho as (_ & _ & Ee). constructor; cbn [fst snd note_out]; rewrite ?En, ?Ep, ?Ee; auto.
      - (* OEvent *) destruct Ho as (_ & _ & Ee). constructor; cbn [fst snd note_out g_committed g_cancelled g_delivered]; rewrite ?En, ?Ep, ?Ee; auto.
      - (* OPrio *) destruct Ho as (_ & _ & Ee). constructor; cbn [fst snd note_out g_committed g_cancelled g_delivered]; rewrite ?En, ?Ep, ?Ee; auto.
      - (* OTimer: the first key of the effective map is delivered *)
        destruct Ho as (_ & _ & Ee & _). rewrite Ee in *.
        pose proof (sorted_head_notin _ _ _ Hes) as Hnotin.
        constructor; cbn [fst snd note_out g_committed g_cancelled g_delivered]; rewrite ?En, ?Ep; auto.
        + intros x Hx. apply Ilc. right. exact Hx.
        + intros x Hx. destruct (Inl x Hx) as [H|[H|[H|H]]]; auto.
          * right. left. apply in_app_iff. left. exact H.
          * right. left. apply in_app_iff. right. left. exact H.
        + intros x Hx. apply in_app_iff in Hx. destruct Hx as [Hx|[<-|[]]]; [apply Idc; exact Hx|apply Ilc; left; reflexivity].
        + unfold keys. rewrite map_app. cbn [map fst]. apply NoDup_app_unit; [exact Idn|].
          intros Hin. apply in_map_iff in Hin. destruct Hin as (y & Hy & Hin). apply (Idg y Hin). rewrite Hy. left. reflexivity.
        + intros x Hx. apply in_app_iff in Hx. destruct Hx as [Hx|[<-|[]]].
          * intros Hin. apply (Idg x Hx). right. exact Hin.
          * exact Hnotin.
        + intros id0 Hc Hin. apply (Icg id0 Hc). right. exact Hin.
      - (* OBlocked *) destruct Ho as (_ & _ & Ee). constructor; cbn [fst snd note_out]; rewrite ?En, ?Ep, ?Ee; auto. }
    destruct l as [e|e|th e d now|th|id|now|tmo now|a now]; cbn [note_label].
    - destruct He as (_ & _ & Ee & En & Ep & ->). constructor; cbn [fst snd note_out g_committed g_cancelled g_delivered]; rewrite ?En, ?Ep, ?Ee; auto.
    - destruct He as (_ & _ & Ee & En & Ep & ->). constructor; cbn [fst snd note_out g_committed g_cancelled g_delivered]; rewrite ?En, ?Ep, ?Ee; auto.
    - (* prepare: a fresh id *)
      destruct He as (_ & _ & Ee & En & Ep & ->). constructor; cbn [fst snd note_out]; rewrite ?En, ?Ep, ?Ee; auto.
      + intros x Hx. specialize (Ifc x Hx). lia.
      + intros th0 x Hx. apply in_app_iff in Hx. destruct Hx as [Hx|[Hx|[]]].
        * specialize (Ifp _ _ Hx). lia.
        * inversion Hx; subst. cbn [fst snd]. lia.
      + rewrite map_app. unfold keys. rewrite map_app. cbn [map fst snd]. rewrite app_assoc.
        apply NoDup_app_unit; [exact Ind|]. intros Hin. apply in_app_iff in Hin. destruct Hin as [Hin|Hin].
        * apply in_map_iff in Hin. destruct Hin as (y & Hy & Hin). specialize (Ifc _ Hin). rewrite Hy in Ifc. cbn [snd] in Ifc. lia.
        * apply in_map_iff in Hin. destruct Hin as (y & Hy & Hin). apply in_map_iff in Hin. destruct Hin as ([t z] & Hz & Hin).
          cbn [snd] in Hz. subst z. specialize (Ifp _ _ Hin). rewrite Hy in Ifp. cbn [snd] in Ifp. lia.
    - (* commit: the prepared timer enters the effective map *)
      destruct He as (id & e & rest & Et & Ep & _ & _ & En & Ee & ->). rewrite Et.
      pose proof (take_prepared_perm _ _ _ _ Et) as Hperm.
      assert (Hin_p : In (th, (id, e)) (prepared s)) by (eapply Permutation_in; [apply Permutation_sym; exact Hperm|left; reflexivity]).
      assert (Hnd2 : NoDup (keys (g_committed g ++ [(id, e)]) ++ keys (map snd rest))).
      { eapply Permutation_NoDup; [|exact Ind]. unfold keys. rewrite map_app. cbn [map fst]. rewrite <- app_assoc. cbn [app].
        apply Permutation_app_head.
        exact (Permutation_map fst (Permutation_map snd Hperm)). }
      assert (Hid_notc : ~ In id (keys (g_committed g))).
      { intros Hin. unfold keys in Hnd2. rewrite map_app in Hnd2. cbn [map fst] in Hnd2. rewrite <- app_assoc in Hnd2.
        apply NoDup_remove_2 in Hnd2. apply Hnd2. apply in_app_iff. left. exact Hin. }
      constructor; cbn [fst snd note_out g_committed g_cancelled g_delivered]; rewrite ?En, ?Ep, ?Ee; auto.
      + intros x Hx. apply in_app_iff in Hx. destruct Hx as [Hx|[<-|[]]]; [apply Ifc; exact Hx|]. exact (Ifp _ _ Hin_p).
      + intros th0 x Hx. apply (Ifp th0). eapply Permutation_in; [apply Permutation_sym; exact Hperm|right; exact Hx].
      + intros x Hx. apply (tinsert_in E id e (eff s) x Hes) in Hx. apply in_app_iff. destruct Hx as [->|[Hx _]]; [right; left; reflexivity|left; apply Ilc; exact Hx].
      + intros x Hx. apply in_app_iff in Hx. destruct Hx as [Hx|[<-|[]]].
        * destruct (Inl x Hx) as [H|[H|H]]; auto. right. right. apply (tinsert_in E id e (eff s) x Hes). right. split; [exact H|].
          intros Heq. apply Hid_notc. rewrite <- Heq. apply keys_in. exact Hx.
        * right. right. apply (tinsert_in E id e (eff s) _ Hes). left. reflexivity.
      + intros x Hx. apply in_app_iff. left. apply Idc. exact Hx.
      + intros x Hx Hin. apply in_map_iff in Hin. destruct Hin as (y & Hy & Hin).
        apply (tinsert_in E id e (eff s) y Hes) in Hin. destruct Hin as [->|[Hin _]].
        * cbn [fst] in Hy. apply Hid_notc. rewrite Hy. apply keys_in. apply Idc. exact Hx.
        * apply (Idg x Hx). rewrite <- Hy. apply keys_in. exact Hin.
      + intros id0 Hc. unfold keys. rewrite map_app. apply in_app_iff. left. apply Icc. exact Hc.
      + intros id0 Hc Hin. apply in_map_iff in Hin. destruct Hin as (y & Hy & Hin).
        apply (tinsert_in E id e (eff s) y Hes) in Hin. destruct Hin as [->|[Hin _]].
        * cbn [fst] in Hy. apply Hid_notc. rewrite Hy. apply Icc. exact Hc.
        * apply (Icg id0 Hc). rewrite <- Hy. apply keys_in. exact Hin.
    - (* cancel *)
      destruct He as (_ & _ & En & Ep & Ee & ->). cbn [label_ok] in Hok.
      assert (Hidc : In id (keys (g_committed g))).
      { unfold tid_mem in Hok. apply existsb_exists in Hok. destruct Hok as (y & Hy & Heq). apply tid_eqb_eq in Heq. subst y. exact Hy. }
      constructor; cbn [fst snd note_out g_committed g_cancelled g_delivered]; rewrite ?En, ?Ep, ?Ee; auto.
      + intros x Hx. apply (tremove_in E id (eff s) x Hes) in Hx. apply Ilc. apply Hx.
      + intros x Hx. destruct (Inl x Hx) as [H|[H|H]]; auto.
        * left. apply in_app_iff. left. exact H.
        * destruct (tid_eqb (fst x) id) eqn:Heq.
          -- apply tid_eqb_eq in Heq. left. apply in_app_iff. right. left. symmetry. exact Heq.
          -- right. right. apply (tremove_in E id (eff s) x Hes). split; [exact H|]. apply tid_eqb_neq. exact Heq.
      + intros x Hx Hin. apply in_map_iff in Hin. destruct Hin as (y & Hy & Hin).
        apply (tremove_in E id (eff s) y Hes) in Hin. apply (Idg x Hx). rewrite <- Hy. apply keys_in. apply Hin.
      + intros id0 Hc. apply in_app_iff in Hc. destruct Hc as [Hc|[<-|[]]]; [apply Icc; exact Hc|exact Hidc].
      + intros id0 Hc Hin. apply in_map_iff in Hin. destruct Hin as (y & Hy & Hin).
        apply (tremove_in E id (eff s) y Hes) in Hin. destruct Hin as [Hin Hne].
        apply in_app_iff in Hc. destruct Hc as [Hc|[<-|[]]].
        * apply (Icg id0 Hc). rewrite <- Hy. apply keys_in. exact Hin.
        * apply Hne. exact Hy.
    - exact (Hrecv now He).
    - exact (Hrecv now He).
    - exact (Hrecv now He).
  Qed.

  Theorem timers_invariant sg : reachable sg -> InvT sg.
  Proof.
    induction 1 as [|sg l s' g' o Hr IH Hst]; [exact InvT_init|]. eapply InvT_step; eauto.
  Qed.


  (* ---- C08: a delivery is never early, never of a cancelled timer, never twice ---- *)
  Definition label_clock (l : label E) : option N :=
    match l with
    | LTryRecv _ now | LRecvBegin _ _ now | LWake _ _ now => Some now
    | _ => None
    end.

  Theorem timer_delivery_sound s g l s' g' id e :
    reachable (s, g) -> gstep (s, g) l = Some (s', g', OTimer E id e) ->
    (exists now, label_clock l = Some now /\ fst id <= now) /\      (* not before its deadline *)
    In (id, e) (g_committed g) /\                                     (* a timer that was scheduled, with its event *)
    ~ In id (g_cancelled g) /\                                        (* not a cancelled one *)
    ~ In id (keys (g_delivered g)).                                    (* not delivered before *)
  Proof.
    intros Hr Hst. destruct (gstep_inv _ _ _ _ _ Hst) as (_ & Hs & _). cbn [fst snd] in Hs.
    destruct (InvS_reachable _ Hr) as [H1 H2]. destruct (step_effect _ _ _ _ H1 H2 Hs) as (_ & _ & He).
    pose proof (timers_invariant _ Hr) as [Ifc Ifp Ind Ilc Inl Idc Idn Idg Icc Icg]. cbn [fst snd] in *.
    assert (Hre : exists now, label_clock l = Some now /\ recv_effect s s' (OTimer E id e) now).
    { destruct l; cbn [label_clock]; try (destruct He as (_ & _ & _ & _ & _ & Ho); discriminate Ho); eauto.
      destruct He as (? & ? & ? & _ & _ & _ & _ & _ & _ & Ho). discriminate Ho. }
    destruct Hre as (now & Hl & (_ & _ & _ & _ & Ee & Hle)).
    assert (Hin : In (id, e) (eff s)) by (rewrite Ee; left; reflexivity).
    split; [exists now; auto|]. split; [apply Ilc; exact Hin|]. split.
    - intros Hc. apply (Icg id Hc). apply (keys_in _ _ Hin).
    - intros Hd. apply in_map_iff in Hd. destruct Hd as (y & Hy & Hd). apply (Idg y Hd). rewrite Hy. apply (keys_in _ _ Hin).
  Qed.

  (* the deadline of a timer is the clock reading of its send_with_timer call plus the duration *)
  Theorem timer_deadline s l s' th e d now o :
    l = LTimerPrepare E th e d now -> step E s l = Some (s', o) ->
    o = OId E (now + d, nseq s) /\ In (th, ((now + d, nseq s), e)) (prepared s').
  Proof.
    intros -> H. cbn [step] in H. inversion H; subst. split; [reflexivity|]. cbn. apply in_app_iff. right. left. reflexivity.
  Qed.

  (* cancellation is exact: every scheduled timer that was neither cancelled nor delivered is
     still live, whatever else was cancelled — and a cancelled one is gone *)
  Theorem cancel_exact s g :
    reachable (s, g) ->
    (forall x, In x (g_committed g) -> ~ In (fst x) (g_cancelled g) -> ~ In x (g_delivered g) -> In x (eff s)) /\
    (forall id, In id (g_cancelled g) -> ~ In id (keys (eff s))) /\
    NoDup (keys (g_committed g)).
  Proof.
    intros Hr. pose proof (timers_invariant _ Hr) as [Ifc Ifp Ind Ilc Inl Idc Idn Idg Icc Icg]. cbn [fst snd] in *.
    split; [|split; [exact Icg|]].
    - intros x Hx Hnc Hnd. destruct (Inl x Hx) as [H|[H|H]]; [contradiction|contradiction|exact H].
    - clear - Ind. induction (keys (g_committed g)) as [|k r IH]; [constructor|]. cbn [app] in Ind.
      inversion Ind as [|? ? Hn Hr']; subst. constructor; [|apply IH; exact Hr']. intros Hin. apply Hn. apply in_app_iff. left. exact Hin.
  Qed.

  (* ---- C16: no lost wake-up, truthful timeout ---- *)
  Definition deliverable (s : qstate) (now : N) : Prop :=
    plain s <> [] \/ prio s <> [] \/ exists x, In x (eff s) /\ fst (fst x) <= now.

  Lemma head_min (m : list (tid * E)) h r x : SortedMap m -> m = h :: r -> In x m -> fst (fst h) <= fst (fst x).
  Proof.
    intros Hs -> [<-|Hin]; [lia|]. inversion Hs as [|? ? _ Hall]; subst. rewrite Forall_forall in Hall.
    specialize (Hall _ Hin). unfold keylt in Hall. apply tlt_spec in Hall. lia.
  Qed.

  Theorem no_lost_wakeup s g a u now :
    reachable (s, g) -> rst s = Blocked a u -> deliverable s now ->
    exists arm, arm <> ADefault /\ step E s (LWake E arm now) <> None.
  Proof.
    intros Hr Hb Hd. destruct (InvS_reachable _ Hr) as [H1 H2]. cbn [fst] in *. unfold rst_ok in H2. rewrite Hb in H2.
    destruct (plain s) as [|pe pr] eqn:Ep.
    - destruct (prio s) as [|qe qr] eqn:Eq.
      + destruct (cmds s) as [|c cr] eqn:Ec.
        * destruct Hd as [Hd|[Hd|(x & Hx & Hle)]]; [congruence|congruence|].
          unfold QueueProofs.eff in Hx. rewrite Ec in Hx. cbn [fold_left] in Hx.
          destruct (timers s) as [|h r] eqn:Et; [contradiction|].
          exists AAlarm. split; [discriminate|]. cbn [step]. rewrite Hb, H2. unfold next_timer_alarm. rewrite Et.
          destruct h as [hid he]. cbn [opt_leb].
          pose proof (head_min _ _ _ x H1 eq_refl Hx) as Hm. cbn [fst] in Hm.
          replace (fst hid <=? now) with true by (symmetry; apply N.leb_le; lia). discriminate.
        * exists ACmd. split; [discriminate|]. cbn [step]. rewrite Hb, Ec. discriminate.
      + exists APrio. split; [discriminate|]. cbn [step]. rewrite Hb, Eq. discriminate.
    - exists APlain. split; [discriminate|]. cbn [step]. rewrite Hb, Ep. discriminate.
  Qed.

  Theorem timeout_truthful s g a u now s' o :
    reachable (s, g) -> rst s = Blocked a u -> step E s (LWake E ADefault now) = Some (s', o) ->
    o = ONone E /\ (exists t, u = Some t /\ t <= now) /\ ~ deliverable s now.
  Proof.
    intros Hr Hb Hst. destruct (InvS_reachable _ Hr) as [H1 H2]. cbn [fst] in *. unfold rst_ok in H2. rewrite Hb in H2.
    cbn [step] in Hst. rewrite Hb in Hst.
    destruct (plain s) eqn:Ep; [|discriminate Hst]. destruct (prio s) eqn:Eq; [|discriminate Hst].
    destruct (cmds s) eqn:Ec; [|discriminate Hst].
    destruct (opt_leb u now && negb (opt_leb a now)) eqn:Hcond; [|discriminate Hst]. inversion Hst; subst.
    apply andb_prop in Hcond. destruct Hcond as [Hu Ha]. apply negb_true_iff in Ha.
    split; [reflexivity|]. split.
    - destruct u as [t|]; [|discriminate Hu]. exists t. split; [reflexivity|]. apply N.leb_le. exact Hu.
    - intros [Hd|[Hd|(x & Hx & Hle)]]; [congruence|congruence|].
      unfold QueueProofs.eff in Hx. rewrite Ec in Hx. cbn [fold_left] in Hx.
      destruct (timers s) as [|h r] eqn:Et; [contradiction|].
      unfold next_timer_alarm in Ha. rewrite Et in Ha. destruct h as [hid he]. cbn [opt_leb] in Ha.
      pose proof (head_min _ _ _ x H1 eq_refl Hx) as Hm. cbn [fst] in Hm.
      apply N.leb_gt in Ha. lia.
  Qed.

End Inv.

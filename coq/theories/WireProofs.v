From MIO Require Import Base Gen ListN Varint VarintProofs Decoder DecoderProofs Driver Wire.
Local Open Scope N_scope.

(* ---- TCP / FramedTcp send loops: whatever the kernel accepts per write, the wire gets a prefix
   of the bytes to send, and exactly those bytes when the status is Sent ---- *)
Lemma tcp_send_wire sched : forall data sent,
  sent <= len data ->
  exists rest, drop sent data = fst (tcp_send data sent sched) ++ rest /\
               (snd (tcp_send data sent sched) = Some Sent -> rest = []).
Proof.
  induction sched as [|[k| |] r IH]; intros data sent Hs; cbn [tcp_send fst snd].
  - exists (drop sent data). split; [reflexivity|discriminate].
  - cbv zeta. set (offered := drop sent data). set (k' := N.min k (len offered)).
    assert (Hlo : len offered = len data - sent) by (unfold offered; apply len_drop).
    assert (Hk : k' <= len offered) by (unfold k'; lia).
    destruct (N.eqb_spec (sent + k') (len data)) as [He|Hne]; cbn [fst snd].
    + exists []. rewrite app_nil_r. split; [|reflexivity]. rewrite take_all by lia. reflexivity.
    + destruct (IH data (sent + k')) as (rest & Hd & Hr); [lia|].
      destruct (tcp_send data (sent + k') r) as [w st]. cbn [fst snd] in *.
      exists rest. split; [|exact Hr].
      rewrite <- app_assoc, <- Hd. unfold offered. rewrite <- drop_drop. symmetry. apply take_drop.
  - apply IH. exact Hs.
  - exists (drop sent data). split; [reflexivity|discriminate].
Qed.

Theorem tcp_send_sent data sched w :
  tcp_send data 0 sched = (w, Some Sent) -> w = data.
Proof.
  intros H. destruct (tcp_send_wire sched data 0) as (rest & Hd & Hr); [lia|].
  rewrite H in *. cbn [fst snd] in *. rewrite (Hr eq_refl), app_nil_r in Hd. rewrite drop_0 in Hd. congruence.
Qed.

Theorem tcp_send_never_invents data sched :
  exists rest, data = fst (tcp_send data 0 sched) ++ rest.
Proof. destruct (tcp_send_wire sched data 0) as (rest & Hd & _); [lia|]. rewrite drop_0 in Hd. eauto. Qed.

Lemma drop_app_split {A} n (p d : list A) :
  drop n (p ++ d) = if n <? len p then drop n p ++ d else drop (n - len p) d.
Proof.
  destruct (N.ltb_spec n (len p)).
  - apply drop_app_le. lia.
  - apply drop_app_ge. exact H.
Qed.

Lemma framed_send_wire sched : forall prefix data sent,
  sent <= len prefix + len data ->
  exists rest, drop sent (prefix ++ data) = fst (framed_send prefix data sent sched) ++ rest /\
               (snd (framed_send prefix data sent sched) = Some Sent -> rest = []).
Proof.
  induction sched as [|[k| |] r IH]; intros prefix data sent Hs; cbn [framed_send fst snd].
  - exists (drop sent (prefix ++ data)). split; [reflexivity|discriminate].
  - cbv zeta.
    set (to_send := if sent <? len prefix then drop sent prefix else drop (sent - len prefix) data).
    set (k' := N.min k (len to_send)).
    assert (Hk : k' <= len to_send) by (unfold k'; lia).
    (* what is offered to write() is a prefix of everything that remains *)
    assert (Hpre : exists tail, drop sent (prefix ++ data) = to_send ++ tail /\ (len to_send = len prefix + len data - sent -> tail = [])).
    { rewrite drop_app_split. unfold to_send. destruct (N.ltb_spec sent (len prefix)).
      - exists data. split; [reflexivity|]. rewrite len_drop. intros He. apply len_0. lia.
      - exists []. rewrite app_nil_r. split; reflexivity. }
    destruct Hpre as (tail & Hall & Htail).
    assert (Hlen : len to_send + len tail = len prefix + len data - sent).
    { rewrite <- len_app, <- Hall, len_drop, len_app. reflexivity. }
    destruct (N.eqb_spec (sent + k') (len prefix + len data)) as [He|Hne]; cbn [fst snd].
    + exists []. rewrite app_nil_r. split; [|reflexivity].
      assert (k' = len to_send) by lia. rewrite take_all by lia. rewrite Hall, Htail; [apply app_nil_r|lia].
    + destruct (IH prefix data (sent + k')) as (rest & Hd & Hr); [lia|].
      destruct (framed_send prefix data (sent + k') r) as [w st]. cbn [fst snd] in *.
      exists rest. split; [|exact Hr].
      rewrite <- app_assoc, <- Hd, <- drop_drop, Hall.
      rewrite drop_app_le by exact Hk. rewrite app_assoc, take_drop. reflexivity.
  - apply IH. exact Hs.
  - exists (drop sent (prefix ++ data)). split; [reflexivity|discriminate].
Qed.

(* a FramedTcp send that answers Sent has put exactly one canonical frame on the wire *)
Theorem framed_send_sent m sched w :
  framed_send_msg m sched = Some (w, Some Sent) -> frame m = Some w.
Proof.
  unfold framed_send_msg, frame, encode_size. destruct (enc (len m)) as [prefix|]; [|discriminate].
  intros H. inversion H as [H1]. clear H.
  destruct (framed_send_wire sched prefix m 0) as (rest & Hd & Hr); [lia|].
  rewrite H1 in *. cbn [fst snd] in *. rewrite (Hr eq_refl), app_nil_r, drop_0 in Hd. congruence.
Qed.

(* ---- receive loops ---- *)
Lemma tcp_receive_chunks reads :
  Forall (fun c => In (RData c) reads) (fst (tcp_receive reads)) /\
  (snd (tcp_receive reads) = Some RWaitNextEvent -> In RWouldBlock reads).
Proof.
  induction reads as [|[c| | | | |] r [IH1 IH2]]; cbn [tcp_receive fst snd].
  - split; [constructor|discriminate].
  - destruct (tcp_receive r) as [cs st]. cbn [fst snd] in *. split.
    + constructor; [left; reflexivity|]. eapply Forall_impl; [|exact IH1]. intros a Ha. right. exact Ha.
    + intros H. right. apply IH2. exact H.
  - split; [constructor|discriminate].
  - split; [eapply Forall_impl; [|exact IH1]; intros a Ha; right; exact Ha|]. intros H. right. apply IH2. exact H.
  - split; [constructor|]. intros _. left. reflexivity.
  - split; [constructor|discriminate].
  - split; [constructor|discriminate].
Qed.

(* a read() into a buffer of B bytes returns between 1 and B bytes, or it is not data *)
Definition read_ok (B : N) (x : rres) : Prop :=
  match x with RData c => 1 <= len c /\ len c <= B | _ => True end.

Theorem tcp_chunk_bounds B reads :
  Forall (read_ok B) reads -> Forall (fun c => 1 <= len c /\ len c <= B) (fst (tcp_receive reads)).
Proof.
  intros Hok. destruct (tcp_receive_chunks reads) as [H _]. rewrite Forall_forall in *. intros c Hc.
  exact (Hok _ (H c Hc)).
Qed.

(* ---- K2: one receive() call lasts as long as the peer keeps the socket non-empty ---- *)
Lemma receive_returns_when_socket_runs_empty cs rest :
  tcp_receive (map RData cs ++ RWouldBlock :: rest) = (cs, Some RWaitNextEvent).
Proof.
  induction cs as [|c r IH]; cbn [map app tcp_receive]; [reflexivity|]. rewrite IH. reflexivity.
Qed.

Lemma read_loop_unbounded n c : tcp_receive (repeat (RData c) n) = (repeat c n, None).
Proof.
  induction n as [|n IH]; cbn [repeat tcp_receive]; [reflexivity|]. rewrite IH. reflexivity.
Qed.

(* C01 / C11 composition: whatever way the kernel segments the wire into reads, the FramedTcp
   receiver hands over exactly the message list *)
Theorem framed_end_to_end (Hc : varint_consts_ok = true) m ms s reads :
  Forall (fun p => len p < 2 ^ 64) ms -> frames ms = Some s ->
  concat (fst (tcp_receive reads)) = s ->
  fst (framed_receive m [] reads) = DOk [] ms.
Proof.
  intros Hwf Hfr Hcat. unfold framed_receive. destruct (tcp_receive reads) as [chunks st]. cbn [fst] in *.
  exact (decoder_chunking Hc m ms chunks s Hwf Hfr Hcat).
Qed.

(* ---- websocket receive loop: it stops only when the LIBRARY has nothing left ---- *)
Theorem ws_receive_drains pulls : forall l l' ms,
  ws_receive l pulls = (l', ms, Some RWaitNextEvent) ->
  ws_buffered l' = [] /\ ws_socket l' = [] /\ ms = ws_buffered l ++ ws_socket l.
Proof.
  induction pulls as [|p r IH]; intros l l' ms H; cbn [ws_receive] in H; [discriminate H|].
  unfold ws_read in H. destruct (ws_buffered l) as [|m b] eqn:Eb.
  - destruct (ws_socket l) as [|m s] eqn:Es.
    + inversion H; subst. auto.
    + destruct (ws_receive {| ws_buffered := firstn p s; ws_socket := skipn p s |} r) as [[l2 ms2] st2] eqn:Er.
      inversion H; subst. destruct (IH _ _ _ Er) as (H1 & H2 & H3). cbn in H3. rewrite firstn_skipn in H3.
      repeat split; try assumption. rewrite H3. reflexivity.
  - destruct (ws_receive {| ws_buffered := b; ws_socket := ws_socket l |} r) as [[l2 ms2] st2] eqn:Er.
    inversion H; subst. destruct (IH _ _ _ Er) as (H1 & H2 & H3). cbn in H3.
    repeat split; try assumption. rewrite H3. reflexivity.
Qed.

(* ---- C10: sends serialized per connection put whole frames on the wire, in some interleaving of
   the senders' orders; the receiver then gets exactly that interleaving ---- *)
Definition is_merge (merged : list (N * list N)) (per_thread : N -> list (list N)) (threads : list N) : Prop :=
  (forall t, In t threads -> map snd (filter (fun x => fst x =? t) merged) = per_thread t) /\
  (forall x, In x merged -> In (fst x) threads).

Theorem concurrent_framed_sends (Hc : varint_consts_ok = true) m merged per_thread threads s reads :
  is_merge merged per_thread threads ->
  Forall (fun p => len p < 2 ^ 64) (map snd merged) ->
  frames (map snd merged) = Some s ->             (* the wire: whole frames, in lock-acquisition order *)
  concat (fst (tcp_receive reads)) = s ->
  fst (framed_receive m [] reads) = DOk [] (map snd merged) /\
  (forall t, In t threads -> map snd (filter (fun x => fst x =? t) merged) = per_thread t).
Proof.
  intros [Hm _] Hwf Hfr Hcat. split; [eapply framed_end_to_end; eauto|exact Hm].
Qed.

(* ---- UDP ---- *)
Theorem udp_no_truncation p :
  limits_ok = true -> len p <= transport_max_message_size TUdp -> udp_recv UDP_RECV_BUF_MIN p = p.
Proof.
  intros Hl Hp. unfold limits_ok in Hl. cbn [forallb all_transports] in Hl.
  repeat match type of Hl with _ && _ = true => let H := fresh in apply andb_prop in Hl; destruct Hl as [Hl H] end.
  repeat match goal with H : _ && _ = true |- _ => let H' := fresh in apply andb_prop in H; destruct H as [H H'] end.
  repeat match goal with H : (_ <=? _) = true |- _ => apply N.leb_le in H | H : (_ =? _) = true |- _ => apply N.eqb_eq in H end.
  unfold udp_recv. apply take_all. lia.
Qed.

Theorem udp_send_oversize data answers :
  UDP_MAX_LOCAL_PAYLOAD_LEN < len data -> udp_send_packet data answers = (Some MaxPacketSizeExceeded, false).
Proof.
  intros H. destruct answers; cbn [udp_send_packet]; replace (UDP_MAX_LOCAL_PAYLOAD_LEN <? len data) with true by (symmetry; apply N.ltb_lt; exact H); reflexivity.
Qed.

Theorem udp_send_sent data answers :
  fst (udp_send_packet data answers) = Some Sent -> len data <= UDP_MAX_LOCAL_PAYLOAD_LEN /\ In None answers.
Proof.
  induction answers as [|[e|] r IH]; cbn [udp_send_packet]; destruct (N.ltb_spec UDP_MAX_LOCAL_PAYLOAD_LEN (len data)); cbn [fst]; try discriminate.
  - destruct e; cbn [fst]; try discriminate.
    destruct (udp_send_packet data r) as [st b] eqn:E. cbn [fst] in *. intros Hst.
    destruct (IH Hst) as [A B]. split; [exact A|right; exact B].
  - intros _. split; [lia|left; reflexivity].
Qed.

(* ---- C13: what every adapter accepts is exactly what Transport::max_message_size() declares ---- *)
Theorem limits_consistent t n :
  limits_ok = true -> n < 2 ^ 64 ->
  adapter_accepts t n = (n <=? transport_max_message_size t).
Proof.
  intros Hl Hn. unfold limits_ok in Hl. cbn [forallb all_transports] in Hl.
  repeat match type of Hl with _ && _ = true => let H := fresh in apply andb_prop in Hl; destruct Hl as [Hl H] end.
  repeat match goal with H : _ && _ = true |- _ => let H' := fresh in apply andb_prop in H; destruct H as [H H'] end.
  repeat match goal with H : (_ <=? _) = true |- _ => apply N.leb_le in H | H : (_ =? _) = true |- _ => apply N.eqb_eq in H end.
  destruct t; unfold adapter_accepts.
  - symmetry. apply N.leb_le. lia.
  - symmetry. apply N.leb_le. lia.
  - congruence.
  - destruct (N.leb_spec n (transport_max_message_size TWs)).
    + repeat (apply andb_true_intro; split); apply N.leb_le; lia.
    + apply andb_false_intro1. apply andb_false_intro1. apply N.leb_gt. lia.
Qed.

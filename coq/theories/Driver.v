(* Driver.v — model of network/driver.rs + registry.rs for ONE mounted adapter (one Driver<R,L>):
   the two registries, the `ready` flag, id generation, the ActionController calls and
   EventProcessor::process with the adapter as an oracle.  Everything the adapter answers and
   everything the user's callback does inside a callback is part of the label. *)
From MIO Require Import Base Gen ResId.
Local Open Scope N_scope.

Definition addr := N.          (* a peer address, symbolic *)
Definition rid := N.           (* ResourceId::raw() *)
Definition endpoint := (rid * addr)%type.

Inductive pending_status := PReady | PIncomplete | PDisconnected.
Inductive read_status := RDisconnected | RWaitNextEvent.
Inductive send_status := Sent | MaxPacketSizeExceeded | ResourceNotFound | ResourceNotAvailable.
Inductive readiness := Read | Write.

Record rprops := { r_peer : addr; r_local : option rid; r_ready : bool }.

Record dstate := {
  remotes : list (rid * rprops);   (* remote_registry: ResourceId -> Register (order irrelevant) *)
  locals : list rid;               (* local_registry *)
  next_remote : N;                 (* ResourceIdGenerator of the remote poll registry *)
  next_local : N;
  adapter : N                      (* adapter id this driver is mounted under *)
}.

Definition dinit (a : N) : dstate :=
  {| remotes := []; locals := []; next_remote := GEN_INIT; next_local := GEN_INIT; adapter := a |}.

(* calls of the ActionController (from any thread, or from inside a callback) *)
Inductive ucall :=
| UConnect (ok : bool) (peer : addr)              (* ok: did the adapter's connect_with succeed *)
| UListen (ok : bool)
| USend (ep : endpoint) (len : N) (ans : send_status)   (* ans: the adapter's answer IF it is asked *)
| URemove (id : rid)
| UIsReady (id : rid).

Inductive event :=
| Connected (ep : endpoint) (ok : bool)
| Accepted (ep : endpoint) (listener : rid)
| Message (ep : endpoint) (data : N)
| Disconnected (ep : endpoint).

Inductive uret :=
| RConnect (r : option endpoint)
| RListen (r : option rid)
| RSend (s : send_status)
| RRemove (b : bool)
| RIsReady (r : option bool).

(* the observable trace: events handed to the callback, return values of controller calls, and
   calls that reach the adapter's transmit functions *)
Inductive obs :=
| OEv (e : event)
| ORet (c : ucall) (r : uret)
| OAdapterSend (id : rid) (len : N)               (* Remote::send was invoked *)
| OAdapterSendTo (id : rid) (to : addr) (len : N). (* Local::send_to was invoked *)

Inductive accepted :=
| AccRemote (peer : addr)                          (* AcceptedType::Remote *)
| AccData (peer : addr) (data : N) (cb : list ucall).   (* AcceptedType::Data + what the callback does *)

(* what the adapter answers during one process() and what user code does meanwhile *)
Record answer := {
  a_race0 : list ucall;                 (* other threads, after the registry lookup *)
  a_pending : pending_status;           (* Remote::pending (asked only while not ready) *)
  a_cb_conn : list ucall;               (* the callback on Connected / Accepted *)
  a_chunks : list (N * list ucall);     (* Remote::receive: each chunk and the callback on its Message *)
  a_read : read_status;
  a_race : list ucall;                  (* other threads, between receive() returning and deregister *)
  a_cb_disc : list ucall;               (* the callback on Disconnected *)
  a_accepts : list accepted             (* Local::accept *)
}.

Fixpoint find_remote (id : rid) (l : list (rid * rprops)) : option rprops :=
  match l with
  | [] => None
  | (k, p) :: r => if k =? id then Some p else find_remote id r
  end.

Fixpoint remove_remote (id : rid) (l : list (rid * rprops)) : list (rid * rprops) :=
  match l with
  | [] => []
  | (k, p) :: r => if k =? id then remove_remote id r else (k, p) :: remove_remote id r
  end.

Fixpoint set_ready (id : rid) (l : list (rid * rprops)) : list (rid * rprops) :=
  match l with
  | [] => []
  | (k, p) :: r =>
      if k =? id then (k, {| r_peer := r_peer p; r_local := r_local p; r_ready := true |}) :: set_ready id r
      else (k, p) :: set_ready id r
  end.

Definition mem_n (x : N) (l : list N) : bool := existsb (N.eqb x) l.
Definition remove_n (x : N) (l : list N) : list N := filter (fun y => negb (y =? x)) l.

Definition with_remotes (s : dstate) (r : list (rid * rprops)) : dstate :=
  {| remotes := r; locals := locals s; next_remote := next_remote s; next_local := next_local s; adapter := adapter s |}.

(* ResourceRegistry::register: a fresh id from the generator, inserted into the map *)
Definition register_remote (s : dstate) (peer : addr) (local : option rid) : dstate * rid :=
  let id := mk_id_raw gen_layout (adapter s) Remote (next_remote s) in
  ({| remotes := (id, {| r_peer := peer; r_local := local; r_ready := false |}) :: remotes s;
      locals := locals s; next_remote := (next_remote s + GEN_STEP) mod USIZE_MOD; next_local := next_local s;
      adapter := adapter s |}, id).

Definition register_local (s : dstate) : dstate * rid :=
  let id := mk_id_raw gen_layout (adapter s) Local (next_local s) in
  ({| remotes := remotes s; locals := id :: locals s; next_remote := next_remote s;
      next_local := (next_local s + GEN_STEP) mod USIZE_MOD; adapter := adapter s |}, id).

(* ResourceRegistry::deregister: true iff the id was in the map *)
Definition deregister_remote (s : dstate) (id : rid) : dstate * bool :=
  match find_remote id (remotes s) with
  | Some _ => (with_remotes s (remove_remote id (remotes s)), true)
  | None => (s, false)
  end.

Definition exec_ucall (s : dstate) (c : ucall) : dstate * list obs :=
  match c with
  | UConnect ok peer =>
      if ok then let '(s', id) := register_remote s peer None in (s', [ORet c (RConnect (Some (id, peer)))])
      else (s, [ORet c (RConnect None)])
  | UListen ok =>
      if ok then let '(s', id) := register_local s in (s', [ORet c (RListen (Some id))])
      else (s, [ORet c (RListen None)])
  | USend (id, to) len ans =>
      match resource_type gen_layout id with
      | Remote =>
          match find_remote id (remotes s) with
          | Some p => if r_ready p then (s, [OAdapterSend id len; ORet c (RSend ans)])
                      else (s, [ORet c (RSend ResourceNotAvailable)])
          | None => (s, [ORet c (RSend ResourceNotFound)])
          end
      | Local =>
          if mem_n id (locals s) then (s, [OAdapterSendTo id to len; ORet c (RSend ans)])
          else (s, [ORet c (RSend ResourceNotFound)])
      end
  | URemove id =>
      match resource_type gen_layout id with
      | Remote => let '(s', b) := deregister_remote s id in (s', [ORet c (RRemove b)])
      | Local =>
          if mem_n id (locals s)
          then ({| remotes := remotes s; locals := remove_n id (locals s); next_remote := next_remote s;
                   next_local := next_local s; adapter := adapter s |}, [ORet c (RRemove true)])
          else (s, [ORet c (RRemove false)])
      end
  | UIsReady id =>
      match resource_type gen_layout id with
      | Remote => (s, [ORet c (RIsReady (option_map r_ready (find_remote id (remotes s))))])
      | Local => (s, [ORet c (RIsReady (if mem_n id (locals s) then Some true else None))])
      end
  end.

Fixpoint exec_ucalls (s : dstate) (cs : list ucall) : dstate * list obs :=
  match cs with
  | [] => (s, [])
  | c :: r => let '(s1, o1) := exec_ucall s c in let '(s2, o2) := exec_ucalls s1 r in (s2, o1 ++ o2)
  end.

(* Remote::receive with the Message callback of each chunk *)
Fixpoint deliver_chunks (s : dstate) (ep : endpoint) (chunks : list (N * list ucall)) : dstate * list obs :=
  match chunks with
  | [] => (s, [])
  | (d, cb) :: r =>
      let '(s1, o1) := exec_ucalls s cb in
      let '(s2, o2) := deliver_chunks s1 ep r in
      (s2, OEv (Message ep d) :: o1 ++ o2)
  end.

(* Local::accept *)
Fixpoint do_accepts (s : dstate) (lid : rid) (items : list accepted) : dstate * list obs :=
  match items with
  | [] => (s, [])
  | AccRemote peer :: r => let '(s1, _) := register_remote s peer (Some lid) in do_accepts s1 lid r
  | AccData peer d cb :: r =>
      let '(s1, o1) := exec_ucalls s cb in
      let '(s2, o2) := do_accepts s1 lid r in
      (s2, OEv (Message (lid, peer) d) :: o1 ++ o2)
  end.

(* Driver::resolve_pending_remote (only while the ready flag is false); returns the new flag *)
Definition resolve_pending (s0 : dstate) (id : rid) (p : rprops) (a : answer) : dstate * list obs * bool :=
  let ep := (id, r_peer p) in
  if r_ready p then (s0, [], true)
  else match a_pending a with
       | PReady =>
           let s' := with_remotes s0 (set_ready id (remotes s0)) in
           let ev := match r_local p with
                     | Some l => Accepted ep l
                     | None => Connected ep true
                     end in
           let '(s'', o) := exec_ucalls s' (a_cb_conn a) in
           (s'', OEv ev :: o, true)
       | PIncomplete => (s0, [], false)
       | PDisconnected =>
           let '(s', _) := deregister_remote s0 id in
           match r_local p with
           | None => let '(s'', o) := exec_ucalls s' (a_cb_conn a) in (s'', OEv (Connected ep false) :: o, false)
           | Some _ => (s', [], false)
           end
       end.

(* Driver::read_from_remote *)
Definition read_from_remote (s1 : dstate) (id : rid) (p : rprops) (a : answer) : dstate * list obs :=
  let ep := (id, r_peer p) in
  let '(s2, o2) := deliver_chunks s1 ep (a_chunks a) in
  match a_read a with
  | RWaitNextEvent => (s2, o2)
  | RDisconnected =>
      let '(s3, o3) := exec_ucalls s2 (a_race a) in
      let '(s4, won) := deregister_remote s3 id in
      if won then
        let '(s5, o5) := exec_ucalls s4 (a_cb_disc a) in
        (s5, o2 ++ o3 ++ OEv (Disconnected ep) :: o5)
      else (s4, o2 ++ o3)
  end.

(* EventProcessor::process *)
Definition process (s : dstate) (id : rid) (rd : readiness) (a : answer) : dstate * list obs :=
  match resource_type gen_layout id with
  | Remote =>
      match find_remote id (remotes s) with
      | None => (s, [])
      | Some p =>
          let '(s0, o0) := exec_ucalls s (a_race0 a) in
          let '(s1, o1, ready) := resolve_pending s0 id p a in
          if ready then
            match rd with
            | Write =>
                (* write_to_remote: ready_to_write() is constantly true.  A resource that became
                   ready in THIS call is read once too: completing the handshake may have consumed
                   and buffered incoming data that no read event will announce *)
                if r_ready p then (s1, o0 ++ o1)
                else let '(s2, o2) := read_from_remote s1 id p a in (s2, o0 ++ o1 ++ o2)
            | Read => let '(s2, o2) := read_from_remote s1 id p a in (s2, o0 ++ o1 ++ o2)
            end
          else (s1, o0 ++ o1)
      end
  | Local =>
      if mem_n id (locals s) then
        match rd with
        | Write => (s, [])
        | Read => do_accepts s id (a_accepts a)
        end
      else (s, [])
  end.

Inductive dlabel :=
| LCall (c : ucall)                                   (* a controller call from some thread *)
| LProcess (id : rid) (rd : readiness) (a : answer).  (* one poll event handed to the processor *)

Definition dstep (s : dstate) (l : dlabel) : dstate * list obs :=
  match l with
  | LCall c => exec_ucall s c
  | LProcess id rd a => process s id rd a
  end.

Fixpoint drun (s : dstate) (ls : list dlabel) : dstate * list obs :=
  match ls with
  | [] => (s, [])
  | l :: r => let '(s1, o1) := dstep s l in let '(s2, o2) := drun s1 r in (s2, o1 ++ o2)
  end.

(* ---------------------------------------------------------------------------------------------
   The per-endpoint lifecycle of C03 as an executable checker over an observed trace.
   phase of a connection id: returned by connect() and unresolved; established; ended. *)
Inductive phase := PendingC (peer : addr) | Est (peer : addr) | Dead.

Fixpoint phase_of (id : rid) (m : list (rid * phase)) : option phase :=
  match m with
  | [] => None
  | (k, p) :: r => if k =? id then Some p else phase_of id r
  end.

Definition set_phase (id : rid) (p : phase) (m : list (rid * phase)) : list (rid * phase) := (id, p) :: m.

Record lstate := { ph : list (rid * phase); listeners : list rid; removed : list rid }.

Definition lifecycle_step (st : lstate) (o : obs) : option lstate :=
  match o with
  | ORet _ (RConnect (Some (id, peer))) =>
      match phase_of id (ph st) with
      | None => Some {| ph := set_phase id (PendingC peer) (ph st); listeners := listeners st; removed := removed st |}
      | Some _ => None                                  (* an id handed out twice *)
      end
  | ORet _ (RListen (Some id)) =>
      if mem_n id (listeners st) then None
      else Some {| ph := ph st; listeners := id :: listeners st; removed := removed st |}
  | ORet (URemove id) (RRemove true) =>
      (* a successful remove of a connection: at most once, and never after its Disconnected (C04) *)
      match resource_type gen_layout id with
      | Local => Some st
      | Remote =>
          if mem_n id (removed st) then None
          else match phase_of id (ph st) with
               | Some Dead => None
               | _ => Some {| ph := ph st; listeners := listeners st; removed := id :: removed st |}
               end
      end
  | ORet _ _ => Some st
  | OAdapterSend _ _ | OAdapterSendTo _ _ _ => Some st
  | OEv (Connected (id, peer) ok) =>
      match phase_of id (ph st) with
      | Some (PendingC p) =>
          if p =? peer
          then Some {| ph := set_phase id (if ok then Est peer else Dead) (ph st); listeners := listeners st; removed := removed st |}
          else None
      | _ => None                                       (* not from connect(), twice, or after the end *)
      end
  | OEv (Accepted (id, peer) l) =>
      match phase_of id (ph st) with
      | None => if mem_n l (listeners st)
                then Some {| ph := set_phase id (Est peer) (ph st); listeners := listeners st; removed := removed st |}
                else None                               (* names a listener that never existed *)
      | Some _ => None
      end
  | OEv (Message (id, peer) _) =>
      match resource_type gen_layout id with
      | Local => if mem_n id (listeners st) then Some st else None     (* datagram on a listener *)
      | Remote =>
          match phase_of id (ph st) with
          | Some (Est p) => if p =? peer then Some st else None
          | _ => None                                   (* before being established, or after the end *)
          end
      end
  | OEv (Disconnected (id, peer)) =>
      match phase_of id (ph st) with
      | Some (Est p) =>
          (* never for a connection the user removed first (C04) *)
          if (p =? peer) && negb (mem_n id (removed st))
          then Some {| ph := set_phase id Dead (ph st); listeners := listeners st; removed := removed st |} else None
      | _ => None
      end
  end.

Fixpoint lifecycle_run (st : lstate) (tr : list obs) : option lstate :=
  match tr with
  | [] => Some st
  | o :: r => match lifecycle_step st o with Some st' => lifecycle_run st' r | None => None end
  end.

Definition lifecycle_ok_b (tr : list obs) : bool :=
  match lifecycle_run {| ph := []; listeners := []; removed := [] |} tr with Some _ => true | None => false end.

(* C04: per connection id, (successful removes) + (Disconnected events) <= 1 *)
Definition ends_of (id : rid) (o : obs) : nat :=
  match o with
  | ORet (URemove i) (RRemove true) => if i =? id then 1 else 0
  | OEv (Disconnected (i, _)) => if i =? id then 1 else 0
  | _ => 0
  end.

Definition count_ends (id : rid) (tr : list obs) : nat := fold_right (fun o n => (ends_of id o + n)%nat) 0%nat tr.

(* ---- connect_sync (network.rs): connect(), then is_ready() every millisecond; the first answer
   that is not Some false decides: Some true -> Ok, None -> Err(ConnectionRefused).
   What the trace says about one connection id, as a summary of the events so far: ---- *)
Record summ := { c_issued : bool; c_est : bool; c_failed : bool; c_disc : bool; c_removed : bool; c_acc : bool }.
Definition summ0 : summ :=
  {| c_issued := false; c_est := false; c_failed := false; c_disc := false; c_removed := false; c_acc := false |}.

Definition summ_step (id : rid) (m : summ) (o : obs) : summ :=
  match o with
  | ORet _ (RConnect (Some (i, _))) =>
      if i =? id then {| c_issued := true; c_est := c_est m; c_failed := c_failed m; c_disc := c_disc m; c_removed := c_removed m; c_acc := c_acc m |} else m
  | ORet (URemove i) (RRemove true) =>
      if i =? id then {| c_issued := c_issued m; c_est := c_est m; c_failed := c_failed m; c_disc := c_disc m; c_removed := true; c_acc := c_acc m |} else m
  | OEv (Connected (i, _) ok) =>
      if i =? id then
        if ok then {| c_issued := c_issued m; c_est := true; c_failed := c_failed m; c_disc := c_disc m; c_removed := c_removed m; c_acc := c_acc m |}
        else {| c_issued := c_issued m; c_est := c_est m; c_failed := true; c_disc := c_disc m; c_removed := c_removed m; c_acc := c_acc m |}
      else m
  | OEv (Accepted (i, _) _) =>
      if i =? id then {| c_issued := c_issued m; c_est := c_est m; c_failed := c_failed m; c_disc := c_disc m; c_removed := c_removed m; c_acc := true |} else m
  | OEv (Disconnected (i, _)) =>
      if i =? id then {| c_issued := c_issued m; c_est := c_est m; c_failed := c_failed m; c_disc := true; c_removed := c_removed m; c_acc := c_acc m |} else m
  | _ => m
  end.

Definition summ_of (id : rid) (tr : list obs) : summ := fold_left (summ_step id) tr summ0.

(* the answer is_ready(id) gives in state s, i.e. what the next poll of connect_sync sees *)
Definition is_ready_answer (s : dstate) (id : rid) : option bool := option_map r_ready (find_remote id (remotes s)).

(* the property text: Ok exactly when the connection was established (and is then usable);
   ConnectionRefused otherwise; the loop goes on only while the outcome is open *)
Definition sync_truthful (m : summ) (r : option bool) : Prop :=
  match r with
  | Some true => c_est m = true /\ c_disc m = false
  | Some false => c_est m = false /\ c_failed m = false
  | None => c_est m = false
  end.

(* the known class K1: the connection was established AND its peer had already closed it when
   connect_sync polled: the registry entry is gone, is_ready answers None, connect_sync reports
   ConnectionRefused for a connection whose Connected(_, true) and Disconnected were delivered *)
Definition K1_class (m : summ) : bool := c_est m && c_disc m.

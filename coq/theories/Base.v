(* Base.v — shared definitions: results with explicit Panic, usize arithmetic, list helpers.
   Model files use the standard library only (so extraction needs only ExtrOcamlBasic). *)
From Coq Require Export NArith ZArith List Bool Lia ZifyBool ZifyNat ZifyN.
Export ListNotations.
(* lia understands / and mod by constants and boolean comparisons *)
Ltac Zify.zify_post_hook ::= Z.div_mod_to_equations.
Local Open Scope N_scope.

Arguments N.add : simpl never.
Arguments N.sub : simpl never.
Arguments N.mul : simpl never.
Arguments N.eqb : simpl never.
Arguments N.ltb : simpl never.
Arguments N.leb : simpl never.
Arguments N.pow : simpl never.
Arguments N.shiftl : simpl never.
Arguments N.shiftr : simpl never.
Arguments N.land : simpl never.
Arguments N.lor : simpl never.
Arguments N.modulo : simpl never.
Arguments N.div : simpl never.

(* A Rust computation either returns or panics (unwrap on None, index out of range,
   arithmetic overflow in a debug build, assert!, unreachable!).  Panic is never totalised. *)
Inductive res (A : Type) : Type :=
| Ok (a : A)
| Panic.
Arguments Ok {A} a.
Arguments Panic {A}.

Definition res_bind {A B} (r : res A) (f : A -> res B) : res B :=
  match r with Ok a => f a | Panic => Panic end.

Definition is_ok {A} (r : res A) : bool := match r with Ok _ => true | Panic => false end.

(* usize = u64 on the target this sandbox builds for *)
Definition USIZE_BITS : N := 64.
Definition USIZE_MOD : N := 2 ^ 64.

(* arithmetic mode: debug builds check overflow (panic), release builds wrap *)
Inductive mode := Checked | Wrapping.

Definition usub (m : mode) (a b : N) : res N :=
  if b <=? a then Ok (a - b)
  else match m with
       | Checked => Panic
       | Wrapping => Ok ((a + USIZE_MOD - b) mod USIZE_MOD)
       end.

(* `x << s` on usize with s < 64: high bits are discarded in both modes *)
Definition ushl (x s : N) : N := (N.shiftl x s) mod USIZE_MOD.

Definition len {A} (l : list A) : N := N.of_nat (length l).

(* slicing helpers that mirror `&data[..n]` / `&data[n..]` / split_at (callers guard the range) *)
Definition take {A} (n : N) (l : list A) : list A := firstn (N.to_nat n) l.
Definition drop {A} (n : N) (l : list A) : list A := skipn (N.to_nat n) l.

Fixpoint is_prefix_b {A} (eqb : A -> A -> bool) (p l : list A) : bool :=
  match p, l with
  | [], _ => true
  | x :: p', y :: l' => eqb x y && is_prefix_b eqb p' l'
  | _ :: _, [] => false
  end.

Fixpoint list_eqb {A} (eqb : A -> A -> bool) (a b : list A) : bool :=
  match a, b with
  | [], [] => true
  | x :: a', y :: b' => eqb x y && list_eqb eqb a' b'
  | _, _ => false
  end.

(* NodeProofs.v — invariants of the node.rs model over ALL label sequences (any interleaving of the
   network thread, the signal thread and other threads; any poll batches and signals; stop() at any
   point): mutual exclusion of the callback (C05), finality of stop() (C09), order of delivery (C15). *)
From MIO Require Import Base Node.
Local Open Scope N_scope.

Definition holds_lock (p : pc) : bool :=
  match p with Locked _ _ _ | Checked _ _ _ | InCb _ _ _ | AfterCb _ _ | Returning => true | _ => false end.
Definition incb (p : pc) : bool := match p with InCb _ _ _ | SyncInCb _ => true | _ => false end.
Definition can_enter (p : pc) : bool := match p with Checked _ _ _ | SyncChecked _ => true | _ => false end.
Definition sync_replay (p : pc) : bool :=
  match p with NotStarted | ReplayHead | ReplayPopped _ | SyncChecked _ | SyncInCb _ => true | _ => false end.
Definition sync_only (p : pc) : bool := match p with SyncChecked _ | SyncInCb _ => true | _ => false end.

Definition replay_locked (p : pc) : bool :=
  match p with Locked _ _ true | Checked _ _ true | InCb _ _ true | AfterCb _ true | Returning => true | _ => false end.

Definition delivered_net (s : nstate) : list N := map snd (filter (fun x => is_net (fst x)) (delivered s)).

(* network events emitted by the processor and not yet handed to the callback *)
Definition pending (s : nstate) : list N :=
  match pc_net s with
  | NotStarted | ReplayHead => cache s
  | ReplayPopped e | SyncChecked e => e :: cache s
  | Locked e r true | Checked e r true => e :: cache s
  | InCb _ _ true | SyncInCb _ | AfterCb _ true => cache s
  | LoopHead => []
  | Batch evs => evs
  | Locked e r false | Checked e r false => e :: r
  | InCb _ r false | AfterCb r false => r
  | HaveSignal _ | Returning | Done => []
  end.

Record Inv (s : nstate) : Prop := {
  (* the callback mutex *)
  I_net_lock : holds_lock (pc_net s) = true -> lock s = Some TNet;
  I_sig_lock : holds_lock (pc_sig s) = true -> lock s = Some TSig;
  I_lock_net : lock s = Some TNet -> holds_lock (pc_net s) = true;
  I_lock_sig : lock s = Some TSig -> holds_lock (pc_sig s) = true;
  I_lock_ext : lock s <> Some TExt;
  (* the synchronous replay runs before the signal thread exists *)
  I_sync_mode : sync_only (pc_net s) = true -> mode s = Sync;
  I_sync_alone : mode s = Sync -> sync_replay (pc_net s) = true -> pc_sig s = NotStarted;
  I_sig_pcs : sync_only (pc_sig s) = false /\ (forall e, pc_sig s <> ReplayPopped e) /\ pc_sig s <> ReplayHead /\ (forall l, pc_sig s <> Batch l);
  I_net_sig : forall sg, pc_net s <> HaveSignal sg;
  I_caching : caching s = true -> pc_net s = NotStarted /\ pc_sig s = NotStarted /\ delivered s = [] /\ lock s = None;
  I_started : caching s = false -> pc_net s <> NotStarted;
  (* stop() *)
  I_stop_run : stopped_in_cb s = true \/ stopped_before s = true \/ skipped s = true -> running s = false;
  I_stop_final : stopped_in_cb s = true \/ stopped_before s = true -> can_enter (pc_net s) = false /\ can_enter (pc_sig s) = false;
  I_before_none : stopped_before s = true -> delivered s = [];
  I_skip_net : skipped s = true -> can_enter (pc_net s) = false /\ incb (pc_net s) = false;
  (* order of delivery *)
  I_order : exists tail, produced s = delivered_net s ++ tail /\ (skipped s = false -> tail = pending s);
  (* only the asynchronous replay takes the lock *)
  I_replay_async : replay_locked (pc_net s) = true -> mode s = Async
}.

Lemma Inv_init m : Inv (ninit m).
Proof.
  constructor; cbn; try discriminate; try tauto; try (intros; discriminate);
    try (repeat split; intros; discriminate);
    try (intros [H|[H|H]]; discriminate); try (intros [H|H]; discriminate).
  exists []. split; reflexivity.
Qed.

Lemma delivered_net_app s t e dl :
  delivered s = dl -> map snd (filter (fun x => is_net (fst x)) (dl ++ [(t, e)])) =
                      map snd (filter (fun x => is_net (fst x)) dl) ++ (if is_net t then [e] else []).
Proof. intros _. rewrite filter_app, map_app. cbn. destruct (is_net t); reflexivity. Qed.

Ltac inv_some H := match type of H with Some _ = Some _ => inversion H; subst; clear H | None = Some _ => discriminate H end.

Ltac crush :=
  cbn [mode running lock cache caching pc_net pc_sig produced delivered in_cb stopped_in_cb stopped_before skipped
       set_pc upd set_skipped get_pc holds_lock incb can_enter sync_replay sync_only replay_locked pending is_net thr_eqb after_event
       orb andb negb] in *;
  rewrite ?orb_false_r in *;
  try discriminate; try tauto; try congruence; try (intuition (try discriminate; try congruence); fail).

(* every field except the order of delivery *)
Ltac solve_fields HI :=
  destruct HI as [A1 A2 A3 A4 A5 D1 D2 D3 D4 C1 C2 E1 F1 B1 H1 G1 R1];
  constructor; crush;
  try (intros; crush; fail);
  try (repeat split; intros; crush; fail).

Lemma step_cache_poll_order s batch :
  pc_net s = NotStarted -> delivered s = [] ->
  (exists tail, produced s = delivered_net s ++ tail /\ (skipped s = false -> tail = pending s)) ->
  exists tail, produced s ++ batch = tail /\ (skipped s = false -> tail = cache s ++ batch).
Proof.
  intros Cn Cd (tail & Gp & Gt). unfold delivered_net, pending in *. rewrite Cd, Cn in *. cbn in *.
  exists (tail ++ batch). split; [rewrite Gp; reflexivity|]. intros Hs. rewrite (Gt Hs). reflexivity.
Qed.

(* closes the routine fields *)
Ltac fin :=
  crush;
  try (intros; crush; fail);
  try (repeat split; intros; crush; fail);
  try (let Hc := fresh "Hc" in intros Hc;
       match goal with C : caching _ = true -> _ |- _ => destruct (C Hc) as (? & ? & ? & ?) end; crush; fail);
  try (let H := fresh "H" in intros [H|[H|H]]; crush; fail);
  try (let H := fresh "H" in intros [H|H]; crush; fail);
  try (let a := fresh in let b := fresh in intros a b;
       match goal with D : mode _ = Sync -> _ -> _ = NotStarted |- _ => specialize (D a b); crush end; fail);
  try (let H := fresh "H" in intros H;
       match goal with A : _ -> None = Some _ |- _ => specialize (A H); discriminate end).

Ltac order_same G1 :=
  let tail := fresh "tail" in let Gp := fresh "Gp" in let Gt := fresh "Gt" in
  destruct G1 as (tail & Gp & Gt); exists tail; split;
  [ exact Gp | intros Hs; rewrite (Gt Hs); unfold pending; crush ].

Lemma step_cache_poll s batch s' : Inv s -> nstep s (LCachePoll batch) = Some s' -> Inv s'.
Proof.
  intros HI Hst. cbn [nstep] in Hst. destruct (caching s) eqn:Ec; [|discriminate Hst]. inv_some Hst.
  pose proof (I_order _ HI) as G0.
  destruct HI as [A1 A2 A3 A4 A5 D1 D2 D3 D4 C1 C2 E1 F1 B1 H1 G1 R1]. destruct (C1 Ec) as (Cn & Cs & Cd & Cl).
  pose proof (step_cache_poll_order s batch Cn Cd G0) as Go.
  constructor; fin.
  all: try (rewrite Cn in *; fin; fail).
  unfold delivered_net, pending. crush. rewrite Cd, Cn. cbn. exact Go.
Qed.

Lemma step_start s s' : Inv s -> nstep s LStart = Some s' -> Inv s'.
Proof.
  intros HI Hst. cbn [nstep] in Hst. destruct (caching s) eqn:Ec; [|discriminate Hst]. inv_some Hst.
  destruct HI as [A1 A2 A3 A4 A5 D1 D2 D3 D4 C1 C2 E1 F1 B1 H1 G1 R1]. destruct (C1 Ec) as (Cn & Cs & Cd & Cl).
  unfold delivered_net, pending in G1. rewrite Cn, Cs in *.
  constructor; fin.
  all: try (destruct (mode s); fin; fail).
  all: try (destruct (running s); fin; fail).
  all: try (unfold delivered_net, pending; crush; exact G1).
Qed.

Lemma step_replay_pop s s' : Inv s -> nstep s LReplayPop = Some s' -> Inv s'.
Proof.
  intros HI Hst. cbn [nstep] in Hst.
  destruct HI as [A1 A2 A3 A4 A5 D1 D2 D3 D4 C1 C2 E1 F1 B1 H1 G1 R1]. unfold delivered_net, pending in G1.
  destruct (pc_net s) eqn:En; try discriminate Hst.
  destruct (cache s) as [|e r] eqn:Eca; [discriminate Hst|]. inv_some Hst.
  constructor; fin.
  all: try (unfold delivered_net, pending; crush; exact G1).
Qed.

Lemma step_replay_empty s s' : Inv s -> nstep s LReplayEmpty = Some s' -> Inv s'.
Proof.
  intros HI Hst. cbn [nstep] in Hst.
  destruct HI as [A1 A2 A3 A4 A5 D1 D2 D3 D4 C1 C2 E1 F1 B1 H1 G1 R1]. unfold delivered_net, pending in G1.
  destruct (pc_net s) eqn:En; try discriminate Hst.
  destruct (cache s) as [|e r] eqn:Eca; [|discriminate Hst]. inv_some Hst.
  assert (Hsig : mode s = Sync -> pc_sig s = NotStarted) by (intros Hm; apply D2; [exact Hm|reflexivity]).
  constructor; fin.
  all: try (destruct (mode s) eqn:Em; [rewrite (Hsig eq_refl) in *|]; fin; fail).
  all: try (unfold delivered_net, pending; crush; exact G1).
Qed.

Ltac start_step HI Hst :=
  cbn [nstep] in Hst;
  destruct HI as [A1 A2 A3 A4 A5 D1 D2 D3 D4 C1 C2 E1 F1 B1 H1 G1 R1]; unfold delivered_net, pending in G1.

Lemma step_loop_check s t s' : Inv s -> nstep s (LLoopCheck t) = Some s' -> Inv s'.
Proof.
  intros HI Hst. start_step HI Hst.
  destruct t; cbn [get_pc] in Hst; try discriminate Hst.
  - destruct (pc_net s) eqn:En; try discriminate Hst. inv_some Hst.
    destruct (running s) eqn:Er; constructor; fin.
    all: try (unfold delivered_net, pending; crush; exact G1).
    all: try (destruct G1 as (tail & Gp & Gt); exists tail; split; [exact Gp|]; intros Hs; unfold pending; crush).
  - destruct (pc_sig s) eqn:En; try discriminate Hst. inv_some Hst.
    destruct (running s) eqn:Er; constructor; fin.
    all: try (unfold delivered_net, pending; crush; exact G1).
Qed.

Lemma step_poll s batch s' : Inv s -> nstep s (LPoll batch) = Some s' -> Inv s'.
Proof.
  intros HI Hst. start_step HI Hst.
  destruct (pc_net s) as [| | | |evs| | | | | | | | |] eqn:En; try discriminate Hst.
  destruct evs; [|discriminate Hst]. inv_some Hst.
  destruct batch as [|b0 br]; constructor; fin.
  all: destruct G1 as (tail & Gp & Gt); unfold delivered_net, pending; crush.
  - exists (tail ++ []). rewrite app_nil_r. split; [rewrite Gp; rewrite app_nil_r; reflexivity|]. intros Hs. rewrite (Gt Hs). reflexivity.
  - exists (tail ++ b0 :: br). split; [rewrite Gp, app_assoc; reflexivity|]. intros Hs. rewrite (Gt Hs). reflexivity.
Qed.

Lemma step_sig_recv s o s' : Inv s -> nstep s (LSigRecv o) = Some s' -> Inv s'.
Proof.
  intros HI Hst. start_step HI Hst.
  destruct (pc_sig s) as [| | | | |sg| | | | | | | |] eqn:En; try discriminate Hst.
  destruct sg; [|discriminate Hst]. inv_some Hst.
  destruct o; constructor; fin.
  all: try (unfold delivered_net, pending; crush; exact G1).
Qed.

Lemma step_lock s t s' : Inv s -> nstep s (LLock t) = Some s' -> Inv s'.
Proof.
  intros HI Hst. start_step HI Hst.
  destruct (lock s) eqn:El; [discriminate Hst|].
  destruct t; cbn [get_pc] in Hst; try discriminate Hst.
  - destruct (pc_net s) as [| |e| |evs| | | | | | | | |] eqn:En; try discriminate Hst.
    + destruct (mode s) eqn:Em; [discriminate Hst|]. inv_some Hst. constructor; fin.
      all: try (unfold delivered_net, pending; crush; exact G1).
    + destruct evs as [|e r]; [discriminate Hst|]. inv_some Hst. constructor; fin.
      all: try (unfold delivered_net, pending; crush; exact G1).
  - destruct (pc_sig s) as [| | | | |sg| | | | | | | |] eqn:En; try discriminate Hst.
    destruct sg as [|p]; [discriminate Hst|]. inv_some Hst. constructor; fin.
    all: try (unfold delivered_net, pending; crush; exact G1).
Qed.

Lemma step_check s t s' : Inv s -> nstep s (LCheck t) = Some s' -> Inv s'.
Proof.
  intros HI Hst. start_step HI Hst.
  destruct t; cbn [get_pc] in Hst; try discriminate Hst.
  - (* the network thread *)
    destruct (pc_net s) as [| |e| | | |e r rp| | | | | | |] eqn:En; try discriminate Hst.
    + (* Sync replay: no lock *)
      destruct (mode s) eqn:Em; [|discriminate Hst]. inv_some Hst.
      destruct (running s) eqn:Er; constructor; fin.
      all: try (unfold delivered_net, pending; crush; exact G1).
      all: try (destruct G1 as (tail & Gp & Gt); exists tail; split; [exact Gp|]; intros Hs; crush; destruct (skipped s); crush).
    + inv_some Hst. destruct (running s) eqn:Er; destruct rp; constructor; fin.
      all: try (unfold delivered_net, pending; crush; exact G1).
      all: try (destruct G1 as (tail & Gp & Gt); exists tail; split; [exact Gp|]; intros Hs; crush; destruct (skipped s); crush).
  - destruct (pc_sig s) as [| |e| | | |e r rp| | | | | | |] eqn:En; try discriminate Hst.
    + exfalso. destruct D3 as (_ & D3b & _). exact (D3b e eq_refl).
    + inv_some Hst. destruct (running s) eqn:Er; destruct rp; constructor; fin.
      all: try (unfold delivered_net, pending; crush; rewrite ?orb_false_r in *; exact G1).
Qed.

Lemma filter_net_app dl t e :
  map snd (filter (fun x : thr * N => is_net (fst x)) (dl ++ [(t, e)])) =
  map snd (filter (fun x : thr * N => is_net (fst x)) dl) ++ (if is_net t then [e] else []).
Proof. rewrite filter_app, map_app. cbn. destruct (is_net t); reflexivity. Qed.

Lemma step_cb_enter s t s' : Inv s -> nstep s (LCbEnter t) = Some s' -> Inv s'.
Proof.
  intros HI Hst. start_step HI Hst.
  destruct t; cbn [get_pc] in Hst; try discriminate Hst.
  - (* the network thread delivers the event at the head of what is pending *)
    destruct (pc_net s) as [| | | | | | |e r rp| | | |e| |] eqn:En; try discriminate Hst; inv_some Hst.
    + destruct rp; constructor; fin.
      all: try (intros Hb; rewrite (B1 Hb) in *; destruct (proj1 (F1 (or_intror Hb))); fin; fail).
      all: destruct G1 as (tail & Gp & Gt); unfold delivered_net, pending; crush; rewrite filter_net_app; cbn [is_net];
        (destruct (skipped s) eqn:Es; [destruct (H1 eq_refl); crush|]);
        rewrite (Gt eq_refl) in Gp; eexists; (split; [rewrite Gp, <- app_assoc; reflexivity|reflexivity]).
    + constructor; fin.
      all: try (intros Hb; rewrite (B1 Hb) in *; destruct (proj1 (F1 (or_intror Hb))); fin; fail).
      all: destruct G1 as (tail & Gp & Gt); unfold delivered_net, pending; crush; rewrite filter_net_app; cbn [is_net];
        (destruct (skipped s) eqn:Es; [destruct (H1 eq_refl); crush|]);
        rewrite (Gt eq_refl) in Gp; eexists; (split; [rewrite Gp, <- app_assoc; reflexivity|reflexivity]).
  - (* the signal thread: a signal, not a network event *)
    destruct (pc_sig s) as [| | | | | | |e r rp| | | |e| |] eqn:En; try discriminate Hst; inv_some Hst.
    + destruct rp; constructor; fin.
      all: try (intros Hb; destruct (F1 (or_intror Hb)); fin; fail).
      all: try (unfold delivered_net, pending; crush; rewrite filter_net_app; cbn [is_net]; rewrite app_nil_r; exact G1).
    + exfalso. destruct D3 as (D3a & _). crush.
Qed.

Lemma step_cb_stop s t s' : Inv s -> nstep s (LCbStop t) = Some s' -> Inv s'.
Proof.
  intros HI Hst. start_step HI Hst.
  destruct t; cbn [get_pc] in Hst; try discriminate Hst.
  - destruct (pc_net s) as [| | | | | | | |e r rp| | | |e|] eqn:En; try discriminate Hst; inv_some Hst.
    + (* inside a callback under the lock: the other thread cannot hold it *)
      assert (Hl : lock s = Some TNet) by (apply A1; reflexivity).
      assert (Hsig : can_enter (pc_sig s) = false).
      { destruct (pc_sig s) eqn:Es; try reflexivity; exfalso.
        - assert (lock s = Some TSig) by (apply A2; reflexivity). congruence.
        - destruct D3 as (D3a & _). crush. }
      destruct rp; constructor; crush; rewrite ?En; fin.
      all: try (unfold delivered_net, pending; crush; rewrite ?En; exact G1).
    + (* synchronous replay: the signal thread does not exist yet *)
      assert (Hm : mode s = Sync) by (apply D1; reflexivity).
      assert (Hsig : pc_sig s = NotStarted) by (apply D2; [exact Hm|reflexivity]).
      rewrite Hsig in *. constructor; crush; rewrite ?En, ?Hsig; fin.
      all: try (unfold delivered_net, pending; crush; rewrite ?En; exact G1).
  - destruct (pc_sig s) as [| | | | | | | |e r rp| | | |e|] eqn:En; try discriminate Hst; inv_some Hst.
    + assert (Hl : lock s = Some TSig) by (apply A2; reflexivity).
      assert (Hnet : can_enter (pc_net s) = false).
      { destruct (pc_net s) eqn:Es; try reflexivity; exfalso.
        - assert (lock s = Some TNet) by (apply A1; reflexivity). congruence.
        - assert (Hm : mode s = Sync) by (apply D1; reflexivity).
          specialize (D2 Hm eq_refl). discriminate D2. }
      destruct rp; constructor; crush; rewrite ?En; fin.
      all: try (unfold delivered_net, pending; crush; rewrite ?En; exact G1).
    + exfalso. destruct D3 as (D3a & _). crush.
Qed.

Lemma step_cb_exit s t s' : Inv s -> nstep s (LCbExit t) = Some s' -> Inv s'.
Proof.
  intros HI Hst. start_step HI Hst.
  destruct t; cbn [get_pc] in Hst; try discriminate Hst.
  - destruct (pc_net s) as [| | | | | | | |e r rp| | | |e|] eqn:En; try discriminate Hst; inv_some Hst.
    + destruct rp; constructor; fin.
      all: try (unfold delivered_net, pending; crush; exact G1).
    + constructor; fin.
      all: try (unfold delivered_net, pending; crush; exact G1).
  - destruct (pc_sig s) as [| | | | | | | |e r rp| | | |e|] eqn:En; try discriminate Hst; inv_some Hst.
    + destruct rp; constructor; fin.
      all: try (unfold delivered_net, pending; crush; exact G1).
    + exfalso. destruct D3 as (D3a & _). crush.
Qed.

Lemma step_unlock s t s' : Inv s -> nstep s (LUnlock t) = Some s' -> Inv s'.
Proof.
  intros HI Hst. start_step HI Hst.
  destruct (lock s) as [o|] eqn:El; [|discriminate Hst].
  destruct (thr_eqb o t) eqn:Eo; [|discriminate Hst].
  assert (o = t) by (destruct o, t; crush). subst o.
  destruct t; cbn [get_pc] in Hst; try discriminate Hst.
  - destruct (pc_net s) as [| | | | | | | | |r rp| | | |] eqn:En; try discriminate Hst; inv_some Hst.
    + assert (Hs0 : holds_lock (pc_sig s) = false) by (destruct (holds_lock (pc_sig s)) eqn:Eh; [specialize (A2 eq_refl); congruence|reflexivity]).
      destruct rp; [|destruct r]; constructor; fin.
      all: try (rewrite Hs0 in *; fin; fail).
      all: try (unfold delivered_net, pending; crush; exact G1).
    + assert (Hs0 : holds_lock (pc_sig s) = false) by (destruct (holds_lock (pc_sig s)) eqn:Eh; [specialize (A2 eq_refl); congruence|reflexivity]).
      constructor; fin.
      all: try (rewrite Hs0 in *; fin; fail).
      all: try (destruct G1 as (tail & Gp & Gt); exists tail; split; [exact Gp|]; intros Hs; crush; destruct (skipped s); crush; fail).
  - destruct (pc_sig s) as [| | | | | | | | |r rp| | | |] eqn:En; try discriminate Hst; inv_some Hst.
    + assert (Hn0 : holds_lock (pc_net s) = false) by (destruct (holds_lock (pc_net s)) eqn:Eh; [specialize (A1 eq_refl); congruence|reflexivity]).
      constructor; fin.
      all: try (rewrite Hn0 in *; fin; fail).
      all: try (unfold delivered_net, pending; crush; exact G1).
    + assert (Hn0 : holds_lock (pc_net s) = false) by (destruct (holds_lock (pc_net s)) eqn:Eh; [specialize (A1 eq_refl); congruence|reflexivity]).
      constructor; fin.
      all: try (rewrite Hn0 in *; fin; fail).
      all: try (unfold delivered_net, pending; crush; exact G1).
Qed.

Lemma step_ext_stop s s' : Inv s -> nstep s LExtStop = Some s' -> Inv s'.
Proof.
  intros HI Hst. start_step HI Hst. inv_some Hst. constructor; fin.
  all: try (unfold delivered_net, pending; crush; exact G1).
Qed.

Theorem Inv_step s l s' : Inv s -> nstep s l = Some s' -> Inv s'.
Proof.
  intros HI Hst. destruct l.
  - eapply step_cache_poll; eauto.
  - eapply step_start; eauto.
  - eapply step_replay_pop; eauto.
  - eapply step_replay_empty; eauto.
  - eapply step_loop_check; eauto.
  - eapply step_poll; eauto.
  - eapply step_sig_recv; eauto.
  - eapply step_lock; eauto.
  - eapply step_check; eauto.
  - eapply step_cb_enter; eauto.
  - eapply step_cb_stop; eauto.
  - eapply step_cb_exit; eauto.
  - eapply step_unlock; eauto.
  - eapply step_ext_stop; eauto.
Qed.

Theorem Inv_run ls : forall s s', Inv s -> nrun s ls = Some s' -> Inv s'.
Proof.
  induction ls as [|l r IH]; intros s s' HI H; cbn [nrun] in H; [inversion H; subst; exact HI|].
  destruct (nstep s l) as [s1|] eqn:E; [|discriminate H]. eapply IH; [eapply Inv_step; eauto|exact H].
Qed.

Theorem Inv_reachable m ls s : nrun (ninit m) ls = Some s -> Inv s.
Proof. apply Inv_run. apply Inv_init. Qed.

(* ---- C05: never two threads between callback entry and exit ---- *)
Theorem callback_mutex s : Inv s -> ~ (incb (pc_net s) = true /\ incb (pc_sig s) = true).
Proof.
  intros HI [Hn Hs]. destruct HI as [A1 A2 A3 A4 A5 D1 D2 D3 D4 C1 C2 E1 F1 B1 H1 G1 R1].
  destruct (pc_sig s) eqn:Es; try discriminate Hs.
  - assert (Hl : lock s = Some TSig) by (apply A2; reflexivity).
    destruct (pc_net s) eqn:En; try discriminate Hn.
    + assert (lock s = Some TNet) by (apply A1; reflexivity). congruence.
    + assert (Hm : mode s = Sync) by (apply D1; reflexivity). specialize (D2 Hm eq_refl). discriminate D2.
  - destruct D3 as (D3a & _). discriminate D3a.
Qed.

(* a callback can only be entered while no other thread is inside it *)
Theorem enter_excludes s t s' :
  Inv s -> nstep s (LCbEnter t) = Some s' ->
  match t with TNet => incb (pc_sig s) = false | TSig => incb (pc_net s) = false | TExt => False end.
Proof.
  intros HI Hst. pose proof (Inv_step _ _ _ HI Hst) as HI'. pose proof (callback_mutex _ HI') as Hm.
  cbn [nstep] in Hst. destruct t; cbn [get_pc] in Hst.
  - destruct (pc_net s) eqn:En; try discriminate Hst; inv_some Hst; cbn in Hm;
      (destruct (incb (pc_sig s)); [exfalso; apply Hm; split; reflexivity|reflexivity]).
  - destruct (pc_sig s) eqn:En; try discriminate Hst; inv_some Hst; cbn in Hm;
      (destruct (incb (pc_net s)); [exfalso; apply Hm; split; reflexivity|reflexivity]).
  - discriminate Hst.
Qed.

(* ---- C09: once stop() was called inside a callback, or before the listener call, no callback
   invocation ever begins ---- *)
Lemma enter_needs_can_enter s t s' : nstep s (LCbEnter t) = Some s' -> can_enter (get_pc s t) = true.
Proof. cbn [nstep]. destruct (get_pc s t); intros H; try discriminate H; reflexivity. Qed.

Theorem no_enter_after_stop s t :
  Inv s -> stopped_in_cb s = true \/ stopped_before s = true -> nstep s (LCbEnter t) = None.
Proof.
  intros HI Hs. destruct (nstep s (LCbEnter t)) as [s'|] eqn:E; [|reflexivity]. exfalso.
  pose proof (enter_needs_can_enter _ _ _ E) as Hc. destruct (I_stop_final _ HI Hs) as [F1 F2].
  destruct t; cbn [get_pc] in Hc; try congruence. discriminate Hc.
Qed.

Lemma stop_flags_persist s l s' :
  nstep s l = Some s' ->
  (stopped_in_cb s = true -> stopped_in_cb s' = true) /\
  (caching s = false -> stopped_before s = true -> stopped_before s' = true) /\
  (caching s = false -> caching s' = false).
Proof.
  intros H. destruct l; cbn [nstep] in H;
    repeat match type of H with
           | context [match ?x with _ => _ end] => destruct x eqn:?; try discriminate H
           | context [if ?x then _ else _] => destruct x eqn:?; try discriminate H
           end; try inv_some H; cbn; auto; try congruence;
    try (repeat match goal with t : thr |- _ => destruct t end; cbn; auto; congruence);
    try (repeat split; intros; try discriminate; auto; fail).
Qed.

Theorem stop_in_callback_final ls : forall s s' t l1 l2,
  Inv s -> nrun s ls = Some s' -> ls = l1 ++ LCbStop t :: l2 -> forall t', ~ In (LCbEnter t') l2.
Proof.
  intros s s' t l1 l2 HI Hrun -> t' Hin.
  (* run the prefix up to and including the stop *)
  assert (Hsplit : exists s1, nrun s (l1 ++ [LCbStop t]) = Some s1 /\ nrun s1 l2 = Some s').
  { clear Hin. revert s HI Hrun. induction l1 as [|a r IH]; intros s HI Hrun; cbn [app nrun] in *.
    - destruct (nstep s (LCbStop t)) as [s1|]; [|discriminate Hrun]. exists s1. split; [reflexivity|exact Hrun].
    - destruct (nstep s a) as [s1|] eqn:E; [|discriminate Hrun]. apply (IH s1); [eapply Inv_step; eauto|exact Hrun]. }
  destruct Hsplit as (s1 & H1 & H2).
  assert (HI1 : Inv s1) by (eapply Inv_run; eauto).
  assert (Hst : stopped_in_cb s1 = true).
  { clear - H1. revert s H1. induction l1 as [|a r IH]; intros s H1; cbn [app nrun] in H1.
    - destruct (nstep s (LCbStop t)) as [s2|] eqn:E; [|discriminate H1]. inversion H1; subst.
      cbn [nstep] in E. destruct (get_pc s t); try discriminate E; inversion E; reflexivity.
    - destruct (nstep s a); [|discriminate H1]. eapply IH; eauto. }
  clear H1 Hrun. revert s1 HI1 Hst H2. induction l2 as [|a r IH]; intros s1 HI1 Hst H2; [contradiction|].
  cbn [nrun] in H2. destruct (nstep s1 a) as [s2|] eqn:E; [|discriminate H2].
  destruct Hin as [->|Hin].
  - rewrite (no_enter_after_stop s1 t' HI1 (or_introl Hst)) in E. discriminate E.
  - apply (IH Hin s2); [eapply Inv_step; eauto|exact (proj1 (stop_flags_persist _ _ _ E) Hst)|exact H2].
Qed.

(* stop() before the listener call: the callback is never invoked *)
Theorem stop_before_start ls : forall m s' l1 l2,
  nrun (ninit m) ls = Some s' -> ls = l1 ++ LStart :: l2 ->
  (forall s1, nrun (ninit m) l1 = Some s1 -> running s1 = false) ->
  forall t', ~ In (LCbEnter t') l2.
Proof.
  intros m s' l1 l2 Hrun -> Hstopped t' Hin.
  assert (Hsplit : forall s, Inv s -> nrun s (l1 ++ LStart :: l2) = Some s' ->
            exists s0 s1, nrun s l1 = Some s0 /\ nstep s0 LStart = Some s1 /\ nrun s1 l2 = Some s').
  { clear. induction l1 as [|a r IH]; intros s HI H; cbn [app nrun] in *.
    - destruct (nstep s LStart) as [s1|] eqn:E; [|discriminate H]. exists s, s1. auto.
    - destruct (nstep s a) as [s1|] eqn:E; [|discriminate H].
      destruct (IH s1 (Inv_step _ _ _ HI E) H) as (s0 & s2 & A & B & C). exists s0, s2. auto. }
  destruct (Hsplit _ (Inv_init m) Hrun) as (s0 & s1 & H0 & Hs & H2).
  assert (HI0 : Inv s0) by (eapply Inv_run; [apply Inv_init|exact H0]).
  assert (HI1 : Inv s1) by (eapply Inv_step; eauto).
  assert (Hb : stopped_before s1 = true /\ caching s1 = false).
  { cbn [nstep] in Hs. destruct (caching s0); [|discriminate Hs]. inversion Hs; subst. cbn.
    rewrite (Hstopped s0 H0). destruct (mode s0); split; reflexivity. }
  destruct Hb as [Hb Hc]. clear Hrun H0 Hs Hsplit.
  revert s1 HI1 Hb Hc H2. induction l2 as [|a r IH]; intros s1 HI1 Hb Hc H2; [contradiction|].
  cbn [nrun] in H2. destruct (nstep s1 a) as [s2|] eqn:E; [|discriminate H2].
  destruct Hin as [->|Hin].
  - rewrite (no_enter_after_stop s1 t' HI1 (or_intror Hb)) in E. discriminate E.
  - destruct (stop_flags_persist _ _ _ E) as (_ & P2 & P3).
    apply (IH Hin s2); [eapply Inv_step; eauto|exact (P2 Hc Hb)|exact (P3 Hc)|exact H2].
Qed.

(* ---- C15: the network events handed to the callback are always a prefix of the events the
   processor emitted, in that order (the cached ones are the first of them); and as long as no event
   was dropped because of a stop, delivered ++ (what is still waiting, in order) = emitted ---- *)
Theorem delivery_order s :
  Inv s ->
  (exists tail, produced s = delivered_net s ++ tail) /\
  (skipped s = false -> produced s = delivered_net s ++ pending s).
Proof.
  intros HI. destruct (I_order _ HI) as (tail & Gp & Gt). split; [exists tail; exact Gp|].
  intros Hs. rewrite <- (Gt Hs). exact Gp.
Qed.

(* Node.v — model of node.rs: the cache thread, the network thread, the signal thread, the callback
   mutex and the `running` flag, as a program-counter LTS.  One label = one atomic action of one
   thread at the granularity of: lock / unlock, one load or store of `running`, callback entry /
   exit, one cache push / pop, one poll batch, one signal reception.  The environment chooses
   the interleaving, the poll batches, the signals, and where stop() is called. *)
From MIO Require Import Base.
Local Open Scope N_scope.

Inductive lmode := Sync | Async.          (* for_each | for_each_async (enqueue = Async) *)
Inductive thr := TNet | TSig | TExt.      (* network thread, signal thread, any other thread *)

Definition thr_eqb (a b : thr) : bool :=
  match a, b with TNet, TNet | TSig, TSig | TExt, TExt => true | _, _ => false end.

(* what a thread of the listener is doing *)
Inductive pc :=
| NotStarted
| ReplayHead                 (* network thread: top of the cache replay loop *)
| ReplayPopped (e : N)       (* popped a cached event (Sync: about to check running; Async: about to lock) *)
| LoopHead                   (* top of the `while is_running()` loop *)
| Batch (evs : list N)       (* network thread: inside process_poll_event, events still to dispatch *)
| HaveSignal (s : N)         (* signal thread: receive_timeout returned Some(s) *)
| Locked (e : N) (rest : list N) (replay : bool)   (* holds the callback lock, about to check running *)
| Checked (e : N) (rest : list N) (replay : bool)  (* running was true: about to invoke the callback *)
| InCb (e : N) (rest : list N) (replay : bool)     (* inside the callback *)
| AfterCb (rest : list N) (replay : bool)          (* callback returned (or was skipped), lock still held *)
| Returning                  (* Async replay: the node is stopped, the thread returns (lock still held) *)
| SyncChecked (e : N)        (* Sync replay: running was true, no lock is needed yet *)
| SyncInCb (e : N)
| Done.

Record nstate := {
  mode : lmode;
  running : bool;
  lock : option thr;            (* owner of the callback mutex *)
  cache : list N;               (* events cached before the listener call, oldest first *)
  caching : bool;               (* the cache thread still owns the processor *)
  pc_net : pc;
  pc_sig : pc;
  (* ghost *)
  produced : list N;            (* network events the processor emitted, in order *)
  delivered : list (thr * N);   (* callback invocations, in order: (thread, event) *)
  in_cb : list thr;             (* threads currently between callback entry and exit *)
  stopped_in_cb : bool;         (* stop() was called from inside a callback *)
  stopped_before : bool;        (* running was already false when the listener call began *)
  skipped : bool                (* a network event was dropped because the node was stopped *)
}.

Definition ninit (m : lmode) : nstate :=
  {| mode := m; running := true; lock := None; cache := []; caching := true;
     pc_net := NotStarted; pc_sig := NotStarted; produced := []; delivered := []; in_cb := [];
     stopped_in_cb := false; stopped_before := false; skipped := false |}.

Inductive nlabel :=
| LCachePoll (batch : list N)          (* cache thread: one process_poll_event, events pushed to the cache *)
| LStart                               (* for_each / for_each_async: cache_running := false, join, threads exist *)
| LReplayPop                           (* cache.pop_front() *)
| LReplayEmpty                         (* the cache is empty: go to the live loop *)
| LLoopCheck (t : thr)                 (* `while is_running()` at the loop head *)
| LPoll (batch : list N)               (* network thread: one poll, these events are dispatched in order *)
| LSigRecv (s : option N)              (* signal thread: receive_timeout(SAMPLING_TIMEOUT) *)
| LLock (t : thr)
| LCheck (t : thr)                     (* is_running() just before the callback *)
| LCbEnter (t : thr)
| LCbStop (t : thr)                    (* handler.stop() from inside the callback *)
| LCbExit (t : thr)
| LUnlock (t : thr)
| LExtStop.                            (* handler.stop() from an unrelated thread (or before the listener call) *)

Definition get_pc (s : nstate) (t : thr) : pc :=
  match t with TNet => pc_net s | TSig => pc_sig s | TExt => Done end.

Definition set_pc (s : nstate) (t : thr) (p : pc) : nstate :=
  match t with
  | TNet => {| mode := mode s; running := running s; lock := lock s; cache := cache s; caching := caching s;
               pc_net := p; pc_sig := pc_sig s; produced := produced s; delivered := delivered s; in_cb := in_cb s;
               stopped_in_cb := stopped_in_cb s; stopped_before := stopped_before s; skipped := skipped s |}
  | TSig => {| mode := mode s; running := running s; lock := lock s; cache := cache s; caching := caching s;
               pc_net := pc_net s; pc_sig := p; produced := produced s; delivered := delivered s; in_cb := in_cb s;
               stopped_in_cb := stopped_in_cb s; stopped_before := stopped_before s; skipped := skipped s |}
  | TExt => s
  end.

Definition upd (s : nstate) (run : bool) (lk : option thr) (ca : list N) (cg : bool) (pr : list N)
               (dl : list (thr * N)) (ic : list thr) (sc sb : bool) : nstate :=
  {| mode := mode s; running := run; lock := lk; cache := ca; caching := cg; pc_net := pc_net s; pc_sig := pc_sig s;
     produced := pr; delivered := dl; in_cb := ic; stopped_in_cb := sc; stopped_before := sb; skipped := skipped s |}.

Definition set_skipped (s : nstate) (b : bool) : nstate :=
  {| mode := mode s; running := running s; lock := lock s; cache := cache s; caching := caching s; pc_net := pc_net s; pc_sig := pc_sig s;
     produced := produced s; delivered := delivered s; in_cb := in_cb s; stopped_in_cb := stopped_in_cb s;
     stopped_before := stopped_before s; skipped := b |}.

Definition is_net (t : thr) : bool := match t with TNet => true | _ => false end.

Definition remove_thr (t : thr) (l : list thr) : list thr := filter (fun x => negb (thr_eqb x t)) l.

(* the network thread continues its batch, or goes back to its loop head *)
Definition after_event (rest : list N) (replay : bool) : pc :=
  if replay then ReplayHead else match rest with [] => LoopHead | _ => Batch rest end.

Definition nstep (s : nstate) (l : nlabel) : option nstate :=
  match l with
  | LCachePoll batch =>
      if caching s then Some (upd s (running s) (lock s) (cache s ++ batch) true (produced s ++ batch) (delivered s) (in_cb s) (stopped_in_cb s) (stopped_before s))
      else None
  | LStart =>
      if caching s then
        let s1 := upd s (running s) (lock s) (cache s) false (produced s) (delivered s) (in_cb s) (stopped_in_cb s) (negb (running s)) in
        (* Async: both threads exist when the call returns; Sync: the signal thread is spawned after the replay *)
        Some (set_pc (set_pc s1 TNet ReplayHead) TSig (match mode s with Async => LoopHead | Sync => NotStarted end))
      else None
  | LReplayPop =>
      match pc_net s, cache s with
      | ReplayHead, e :: r =>
          Some (set_pc (upd s (running s) (lock s) r (caching s) (produced s) (delivered s) (in_cb s) (stopped_in_cb s) (stopped_before s)) TNet (ReplayPopped e))
      | _, _ => None
      end
  | LReplayEmpty =>
      match pc_net s, cache s with
      | ReplayHead, [] =>
          (* Sync: the scope spawns the signal thread now *)
          Some (set_pc (set_pc s TNet LoopHead) TSig (match mode s, pc_sig s with Sync, NotStarted => LoopHead | _, p => p end))
      | _, _ => None
      end
  | LLoopCheck t =>
      match t, get_pc s t with
      | TNet, LoopHead | TSig, LoopHead => Some (set_pc s t (if running s then (match t with TNet => Batch [] | _ => HaveSignal 0 end) else Done))
      | _, _ => None
      end
  | LPoll batch =>
      (* reached from `Batch []` = "running was true at the loop head": poll, then dispatch *)
      match pc_net s with
      | Batch [] =>
          Some (set_pc (upd s (running s) (lock s) (cache s) (caching s) (produced s ++ batch) (delivered s) (in_cb s) (stopped_in_cb s) (stopped_before s))
                       TNet (match batch with [] => LoopHead | _ => Batch batch end))
      | _ => None
      end
  | LSigRecv o =>
      match pc_sig s with
      | HaveSignal 0 => Some (set_pc s TSig (match o with Some sg => HaveSignal (sg + 1) | None => LoopHead end))
      | _ => None
      end
  | LLock t =>
      match lock s with
      | Some _ => None
      | None =>
          match t, get_pc s t with
          | TNet, Batch (e :: r) => Some (set_pc (upd s (running s) (Some t) (cache s) (caching s) (produced s) (delivered s) (in_cb s) (stopped_in_cb s) (stopped_before s)) t (Locked e r false))
          | TNet, ReplayPopped e =>
              match mode s with
              | Async => Some (set_pc (upd s (running s) (Some t) (cache s) (caching s) (produced s) (delivered s) (in_cb s) (stopped_in_cb s) (stopped_before s)) t (Locked e [] true))
              | Sync => None
              end
          | TSig, HaveSignal (N.pos p) => Some (set_pc (upd s (running s) (Some t) (cache s) (caching s) (produced s) (delivered s) (in_cb s) (stopped_in_cb s) (stopped_before s)) t (Locked (N.pos p) [] false))
          | _, _ => None
          end
      end
  | LCheck t =>
      match get_pc s t with
      | Locked e r rp =>
          (* replay in Async mode returns from the thread when the node is stopped *)
          Some (set_pc (set_skipped s (skipped s || (negb (running s) && is_net t))) t
                       (if running s then Checked e r rp else if rp then Returning else AfterCb r false))
      | ReplayPopped e =>
          match mode s, t with
          | Sync, TNet => Some (set_pc (set_skipped s (skipped s || negb (running s))) t (if running s then SyncChecked e else Done))
          | _, _ => None
          end
      | _ => None
      end
  | LCbEnter t =>
      match get_pc s t with
      | Checked e r rp =>
          Some (set_pc (upd s (running s) (lock s) (cache s) (caching s) (produced s) (delivered s ++ [(t, e)]) (t :: in_cb s) (stopped_in_cb s) (stopped_before s)) t (InCb e r rp))
      | SyncChecked e =>
          Some (set_pc (upd s (running s) (lock s) (cache s) (caching s) (produced s) (delivered s ++ [(t, e)]) (t :: in_cb s) (stopped_in_cb s) (stopped_before s)) t (SyncInCb e))
      | _ => None
      end
  | LCbStop t =>
      match get_pc s t with
      | InCb _ _ _ | SyncInCb _ => Some (upd s false (lock s) (cache s) (caching s) (produced s) (delivered s) (in_cb s) true (stopped_before s))
      | _ => None
      end
  | LCbExit t =>
      match get_pc s t with
      | InCb e r rp => Some (set_pc (upd s (running s) (lock s) (cache s) (caching s) (produced s) (delivered s) (remove_thr t (in_cb s)) (stopped_in_cb s) (stopped_before s)) t (AfterCb r rp))
      | SyncInCb e => Some (set_pc (upd s (running s) (lock s) (cache s) (caching s) (produced s) (delivered s) (remove_thr t (in_cb s)) (stopped_in_cb s) (stopped_before s)) t ReplayHead)
      | _ => None
      end
  | LUnlock t =>
      match lock s with
      | Some o =>
          if thr_eqb o t then
            match get_pc s t with
            | AfterCb r rp =>
                let next := match t with
                            | TSig => LoopHead
                            | _ => if rp then ReplayHead else after_event r false
                            end in
                Some (set_pc (upd s (running s) None (cache s) (caching s) (produced s) (delivered s) (in_cb s) (stopped_in_cb s) (stopped_before s)) t next)
            | Returning =>
                Some (set_pc (upd s (running s) None (cache s) (caching s) (produced s) (delivered s) (in_cb s) (stopped_in_cb s) (stopped_before s)) t Done)
            | _ => None
            end
          else None
      | None => None
      end
  | LExtStop => Some (upd s false (lock s) (cache s) (caching s) (produced s) (delivered s) (in_cb s) (stopped_in_cb s) (stopped_before s))
  end.

Fixpoint nrun (s : nstate) (ls : list nlabel) : option nstate :=
  match ls with
  | [] => Some s
  | l :: r => match nstep s l with Some s' => nrun s' r | None => None end
  end.

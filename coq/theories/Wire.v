(* Wire.v — the send / receive loops of the adapters over oracle sockets.
   A connection direction is a byte FIFO.  What a write accepts, what a read returns and what the
   websocket library hands over are chosen by the environment (lists of oracle answers). *)
From MIO Require Import Base Gen ListN Varint Decoder Driver.
Local Open Scope N_scope.

(* ---- write side ---- *)
Inductive wres :=
| WAccept (k : N)        (* Ok(k): the kernel took k bytes (at most what was offered) *)
| WWouldBlock
| WErr.

(* tcp.rs::send:  loop { match write(&data[sent..]) { Ok(n) => { sent += n; if sent == len { Sent } } WouldBlock => continue, Err => ResourceNotFound } } *)
Fixpoint tcp_send (data : list N) (sent : N) (sched : list wres) : list N * option send_status :=
  match sched with
  | [] => ([], None)                           (* the schedule ends while the loop is still running *)
  | WWouldBlock :: r => tcp_send data sent r
  | WErr :: _ => ([], Some ResourceNotFound)
  | WAccept k :: r =>
      let offered := drop sent data in
      let k' := N.min k (len offered) in
      let sent' := sent + k' in
      if sent' =? len data then (take k' offered, Some Sent)
      else let '(w, st) := tcp_send data sent' r in (take k' offered ++ w, st)
  end.

(* framed_tcp.rs::send: the same loop over  encode_size(data) ++ data, written from two slices *)
Fixpoint framed_send (prefix data : list N) (sent : N) (sched : list wres) : list N * option send_status :=
  match sched with
  | [] => ([], None)
  | WWouldBlock :: r => framed_send prefix data sent r
  | WErr :: _ => ([], Some ResourceNotFound)
  | WAccept k :: r =>
      let to_send := if sent <? len prefix then drop sent prefix else drop (sent - len prefix) data in
      let k' := N.min k (len to_send) in
      let sent' := sent + k' in
      if sent' =? len prefix + len data then (take k' to_send, Some Sent)
      else let '(w, st) := framed_send prefix data sent' r in (take k' to_send ++ w, st)
  end.

Definition framed_send_msg (m : list N) (sched : list wres) : option (list N * option send_status) :=
  match encode_size m with
  | Some prefix => Some (framed_send prefix m 0 sched)
  | None => None
  end.

(* ---- read side ---- *)
Inductive rres :=
| RData (chunk : list N)   (* Ok(n), n > 0 *)
| REof                     (* Ok(0) *)
| RInterrupted
| RWouldBlock
| RReset
| ROtherErr.

(* tcp.rs::receive: returns the chunks handed to the callback and the ReadStatus
   (None: the oracle list ended while the loop was still running) *)
Fixpoint tcp_receive (reads : list rres) : list (list N) * option read_status :=
  match reads with
  | [] => ([], None)
  | RData c :: r => let '(cs, st) := tcp_receive r in (c :: cs, st)
  | RInterrupted :: r => tcp_receive r
  | RWouldBlock :: _ => ([], Some RWaitNextEvent)
  | REof :: _ | RReset :: _ | ROtherErr :: _ => ([], Some RDisconnected)
  end.

(* framed_tcp.rs::receive: every chunk goes through the decoder *)
Definition framed_receive (m : mode) (stored : list N) (reads : list rres) : dres * option read_status :=
  let '(chunks, st) := tcp_receive reads in (feed_from m stored chunks [], st).

(* ---- websocket: the library as far as the adapter depends on it ---- *)
Record wslib := {
  ws_buffered : list (list N);   (* complete messages already parsed out of bytes read earlier *)
  ws_socket : list (list N)      (* complete messages whose bytes are still in the kernel socket *)
}.

(* WebSocket::read(): a buffered message if there is one; otherwise pull from the socket (the
   oracle says how many of the waiting messages one pull brings in, at least one); WouldBlock when
   both are empty *)
Definition ws_read (l : wslib) (pull : nat) : wslib * option (list N) :=
  match ws_buffered l with
  | m :: r => ({| ws_buffered := r; ws_socket := ws_socket l |}, Some m)
  | [] =>
      match ws_socket l with
      | [] => (l, None)
      | m :: r =>
          let extra := firstn pull r in
          ({| ws_buffered := extra; ws_socket := skipn pull r |}, Some m)
      end
  end.

(* ws.rs::receive (binary messages): loop { match read() { Ok(msg) => callback, continue; WouldBlock => WaitNextEvent } }
   `pulls` = the oracle's batch sizes; fuel only bounds the oracle list *)
Fixpoint ws_receive (l : wslib) (pulls : list nat) : wslib * list (list N) * option read_status :=
  match pulls with
  | [] => (l, [], None)
  | p :: r =>
      match ws_read l p with
      | (l', Some m) => let '(l'', ms, st) := ws_receive l' r in (l'', m :: ms, st)
      | (l', None) => (l', [], Some RWaitNextEvent)
      end
  end.

(* ---- UDP ---- *)
(* recv into a buffer of B bytes: the kernel truncates what does not fit *)
Definition udp_recv (bufsize : N) (datagram : list N) : list N := take bufsize datagram.

Inductive udp_err := EConnRefused | EWouldBlock | EOther | EAny.
(* udp.rs::send_packet *)
Fixpoint udp_send_packet (data : list N) (answers : list (option udp_err)) : option send_status * bool (* reached the socket *) :=
  if UDP_MAX_LOCAL_PAYLOAD_LEN <? len data then (Some MaxPacketSizeExceeded, false)
  else
    match answers with
    | [] => (None, true)
    | None :: _ => (Some Sent, true)
    | Some EConnRefused :: _ => (Some ResourceNotFound, true)
    | Some EWouldBlock :: r => let '(st, _) := udp_send_packet data r in (st, true)
    | Some EOther :: _ => (Some MaxPacketSizeExceeded, true)
    | Some EAny :: _ => (Some ResourceNotFound, true)
    end.

(* ---- size limits: what each adapter accepts, as read from the sources ---- *)
Definition adapter_accepts (t : transport) (n : N) : bool :=
  match t with
  | TTcp | TFramedTcp => true
  | TUdp => n <=? UDP_SEND_PRECHECK
  | TWs => (n <=? WS_SEND_PRECHECK) && (n <=? WS_LIB_MAX_FRAME_SIZE) && (n <=? WS_LIB_MAX_MESSAGE_SIZE)
  end.

Definition limits_ok : bool :=
  forallb (fun t => match t with
                    | TTcp | TFramedTcp => transport_max_message_size t =? 2 ^ 64 - 1
                    | TUdp => (UDP_SEND_PRECHECK =? transport_max_message_size TUdp) && (transport_max_message_size TUdp <=? UDP_RECV_BUF_MIN)
                    | TWs => (WS_SEND_PRECHECK =? transport_max_message_size TWs) &&
                             (transport_max_message_size TWs <=? WS_LIB_MAX_FRAME_SIZE) &&
                             (transport_max_message_size TWs <=? WS_LIB_MAX_MESSAGE_SIZE) &&
                             WS_CONFIG_ON_BOTH_HANDSHAKE_PATHS
                    end) all_transports.

(* the loop shapes this file models, as re-read from the adapter sources by the translator *)
Definition adapters_shape_ok : bool :=
  TCP_RECEIVE_LOOP_OK && FRAMED_RECEIVE_LOOP_OK && FRAMED_SEND_LOCKED && FRAMED_SEND_LOOP_OK && TCP_SEND_LOOP_OK && WS_RECEIVE_LOOP_OK &&
  WS_SEND_UNDER_STATE_LOCK && UDP_RECEIVE_NEVER_DISCONNECTS && UDP_PENDING_ALWAYS_READY &&
  KEEPALIVE_SOCKET_ALWAYS_FORGOTTEN && READY_TO_WRITE_CONST_TRUE.

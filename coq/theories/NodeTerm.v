(* NodeTerm.v — C09, "the listener returns": once the node is stopped (running = false) and the
   listener call has begun, every action of the two listener threads other than further stop()
   calls strictly uses up a finite budget, at most ONE more poll happens, and as long as a thread
   has not finished some action is enabled (a callback that was entered returns: LCbExit is always
   enabled inside a callback; a thread waiting for the callback lock waits for a thread that can
   move).  The budget is a constant per thread plus three steps (lock, check, unlock) per event of
   the batch that the last poll returned. *)
From MIO Require Import Base Node NodeProofs.
Local Open Scope nat_scope.

(* actions of the listener threads; stop() calls and the cache thread are the environment *)
Definition progress (l : nlabel) : bool :=
  match l with LCbStop _ | LExtStop | LCachePoll _ | LStart => false | _ => true end.

Definition w_net (m : lmode) (p : pc) : nat :=
  match p with
  | NotStarted | Done | HaveSignal _ => 0
  | LoopHead => 1
  | Batch [] => 2
  | Batch (_ :: r) => 3 * length r + 4
  | Locked _ r false => 3 * length r + 3
  | AfterCb r false => 3 * length r + 2
  | InCb _ r false => 3 * length r + 3
  | Checked _ r false => 3 * length r + 4
  | Returning => 1
  | Locked _ _ true => 2
  | ReplayHead => match m with Sync => 3 | Async => 5 end
  | ReplayPopped _ => match m with Sync => 1 | Async => 4 end
  | AfterCb _ true => 6
  | InCb _ _ true => 7
  | Checked _ _ true => 8
  | SyncInCb _ => 4
  | SyncChecked _ => 5
  end.

Definition w_sig (p : pc) : nat :=
  match p with
  | LoopHead => 1
  | HaveSignal 0%N => 6
  | HaveSignal _ => 5
  | Locked _ _ _ => 4
  | Checked _ _ _ => 5
  | InCb _ _ _ => 4
  | AfterCb _ _ => 3
  | Returning => 1
  | _ => 0
  end.

Definition mu (s : nstate) : nat := w_net (mode s) (pc_net s) + w_sig (pc_sig s).

Definition polls_left (s : nstate) : nat := match pc_net s with Batch [] => 1 | _ => 0 end.
Definition is_poll (l : nlabel) : nat := match l with LPoll _ => 1 | _ => 0 end.
Definition poll_credit (l : nlabel) : nat := match l with LPoll b => 3 * length b | _ => 0 end.

Definition finished (s : nstate) : Prop := pc_net s = Done /\ (pc_sig s = Done \/ pc_sig s = NotStarted).

Lemma mode_step s l s' : nstep s l = Some s' -> mode s' = mode s.
Proof.
  intros H. destruct l; cbn [nstep] in H;
    repeat match type of H with
           | context [match ?x with _ => _ end] => destruct x eqn:?; try discriminate H
           | context [if ?x then _ else _] => destruct x eqn:?; try discriminate H
           end; try inv_some H; cbn; auto;
    try (repeat match goal with t : thr |- _ => destruct t end; cbn; auto; congruence).
Qed.

Ltac tcrush :=
  cbn [mode running lock cache caching pc_net pc_sig set_pc upd set_skipped get_pc after_event thr_eqb is_net
       mu w_net w_sig polls_left is_poll poll_credit length negb andb orb] in *.

Lemma step_decreases s l s' :
  Inv s -> running s = false -> caching s = false -> progress l = true -> nstep s l = Some s' ->
  mu s' + 1 <= mu s + poll_credit l /\ running s' = false /\ caching s' = false /\
  polls_left s' + is_poll l <= polls_left s.
Proof.
  intros HI Hr Hc Hp H.
  pose proof (I_sig_pcs _ HI) as (S1 & S2 & S3 & S4). pose proof (I_net_sig _ HI) as N1.
  pose proof (I_sync_alone _ HI) as SA. pose proof (I_replay_async _ HI) as RA. pose proof (I_sync_mode _ HI) as SM.
  destruct l as [cb| | | |t|batch|osg|t|t|t|t|t|t|]; try discriminate Hp; cbn [nstep] in H.
  - (* LReplayPop *)
    destruct (pc_net s) eqn:En; try discriminate H. destruct (cache s) eqn:Eca; [discriminate H|]. inv_some H.
    unfold mu, polls_left. tcrush. rewrite En. destruct (mode s); tcrush; repeat split; try assumption; lia.
  - (* LReplayEmpty *)
    destruct (pc_net s) eqn:En; try discriminate H. destruct (cache s) eqn:Eca; [|discriminate H]. inv_some H.
    unfold mu, polls_left. tcrush. rewrite En.
    destruct (mode s) eqn:Em; tcrush.
    + (* Sync: the signal thread is spawned now *)
      assert (Es : pc_sig s = NotStarted) by (apply SA; reflexivity).
      rewrite Es. tcrush. repeat split; try assumption; lia.
    + destruct (pc_sig s); tcrush; repeat split; try assumption; lia.
  - (* LLoopCheck *)
    destruct t; cbn [get_pc] in H; try discriminate H.
    + destruct (pc_net s) eqn:En; try discriminate H. inv_some H. rewrite Hr. unfold mu, polls_left. tcrush. rewrite En. tcrush.
      repeat split; try assumption; lia.
    + destruct (pc_sig s) eqn:Es; try discriminate H. inv_some H. rewrite Hr. unfold mu, polls_left. tcrush. rewrite Es. tcrush.
      repeat split; try assumption; destruct (pc_net s) as [| | | |[|]| | | | | | | | |]; lia.
  - (* LPoll *)
    destruct (pc_net s) eqn:En; try discriminate H. destruct evs; [|discriminate H]. inv_some H.
    unfold mu, polls_left. tcrush. rewrite En. destruct batch as [|b0 br]; tcrush; repeat split; try assumption; lia.
  - (* LSigRecv *)
    destruct (pc_sig s) as [| | | | |sn| | | | | | | |] eqn:Es; try discriminate H. destruct sn; [|discriminate H]. inv_some H.
    unfold mu, polls_left. tcrush. rewrite Es. destruct osg as [sg|]; tcrush.
    + destruct (sg + 1)%N eqn:E1; [lia|]. tcrush. repeat split; try assumption; destruct (pc_net s) as [| | | |[|]| | | | | | | | |]; lia.
    + repeat split; try assumption; destruct (pc_net s) as [| | | |[|]| | | | | | | | |]; lia.
  - (* LLock *)
    destruct (lock s); [discriminate H|].
    destruct t; cbn [get_pc] in H; try discriminate H.
    + destruct (pc_net s) eqn:En; try discriminate H.
      * destruct (mode s) eqn:Em; [discriminate H|]. inv_some H. unfold mu, polls_left. tcrush. rewrite En, Em. tcrush.
        repeat split; try assumption; lia.
      * destruct evs as [|e r]; [discriminate H|]. inv_some H. unfold mu, polls_left. tcrush. rewrite En. tcrush.
        repeat split; try assumption; lia.
    + destruct (pc_sig s) as [| | | | |sn| | | | | | | |] eqn:Es; try discriminate H. destruct sn; [discriminate H|]. inv_some H.
      unfold mu, polls_left. tcrush. rewrite Es. tcrush. repeat split; try assumption; destruct (pc_net s) as [| | | |[|]| | | | | | | | |]; lia.
  - (* LCheck *)
    destruct t; cbn [get_pc] in H.
    + destruct (pc_net s) eqn:En; try discriminate H.
      * destruct (mode s) eqn:Em; [|discriminate H]. inv_some H. rewrite Hr. unfold mu, polls_left. tcrush. rewrite En, Em. tcrush.
        repeat split; try assumption; lia.
      * inv_some H. rewrite Hr. unfold mu, polls_left. tcrush. rewrite En.
        destruct replay; tcrush; repeat split; try assumption; lia.
    + destruct (pc_sig s) eqn:Es; try discriminate H.
      * destruct (mode s); discriminate H.
      * inv_some H. rewrite Hr. unfold mu, polls_left. tcrush. rewrite Es.
        destruct replay; tcrush; repeat split; try assumption; destruct (pc_net s) as [| | | |[|]| | | | | | | | |]; lia.
    + discriminate H.
  - (* LCbEnter *)
    destruct t; cbn [get_pc] in H; try discriminate H.
    + destruct (pc_net s) eqn:En; try discriminate H; inv_some H; unfold mu, polls_left; tcrush; rewrite En; tcrush.
      * destruct replay; tcrush; repeat split; try assumption; lia.
      * repeat split; try assumption; lia.
    + destruct (pc_sig s) eqn:Es; try discriminate H; inv_some H; unfold mu, polls_left; tcrush; rewrite Es; tcrush.
      * repeat split; try assumption; destruct (pc_net s) as [| | | |[|]| | | | | | | | |]; lia.
      * exfalso. cbn in S1. discriminate S1.
  - (* LCbExit *)
    destruct t; cbn [get_pc] in H; try discriminate H.
    + destruct (pc_net s) eqn:En; try discriminate H; inv_some H; unfold mu, polls_left; tcrush; rewrite En; tcrush.
      * destruct replay; tcrush; repeat split; try assumption; lia.
      * assert (Em : mode s = Sync) by (apply SM; reflexivity). rewrite Em. repeat split; try assumption; lia.
    + destruct (pc_sig s) eqn:Es; try discriminate H; inv_some H; unfold mu, polls_left; tcrush; rewrite Es; tcrush.
      * repeat split; try assumption; destruct (pc_net s) as [| | | |[|]| | | | | | | | |]; lia.
      * exfalso. cbn in S1. discriminate S1.
  - (* LUnlock *)
    destruct (lock s) as [o|]; [|discriminate H]. destruct (thr_eqb o t) eqn:Eo; [|discriminate H].
    destruct t; cbn [get_pc] in H; try discriminate H.
    + destruct (pc_net s) eqn:En; try discriminate H; inv_some H; unfold mu, polls_left; tcrush; rewrite En; tcrush.
      * destruct replay; tcrush.
        -- assert (Em : mode s = Async) by (apply RA; reflexivity). rewrite Em. repeat split; try assumption; lia.
        -- destruct rest as [|e r]; tcrush; repeat split; try assumption; lia.
      * repeat split; try assumption; lia.
    + destruct (pc_sig s) eqn:Es; try discriminate H; inv_some H; unfold mu, polls_left; tcrush; rewrite Es; tcrush.
      * repeat split; try assumption; destruct (pc_net s) as [| | | |[|]| | | | | | | | |]; lia.
      * repeat split; try assumption; destruct (pc_net s) as [| | | |[|]| | | | | | | | |]; lia.
Qed.

Fixpoint polled (ls : list nlabel) : nat := match ls with [] => 0 | l :: r => poll_credit l + polled r end.
Fixpoint npolls (ls : list nlabel) : nat := match ls with [] => 0 | l :: r => is_poll l + npolls r end.

(* every continuation of thread actions after the stop is bounded: by the constant budget of the
   state plus 3 steps per event of the (at most one) poll still to come *)
Theorem stop_terminates ls : forall s s',
  Inv s -> running s = false -> caching s = false -> forallb progress ls = true -> nrun s ls = Some s' ->
  length ls + mu s' <= mu s + polled ls /\ npolls ls <= polls_left s /\ running s' = false.
Proof.
  induction ls as [|l r IH]; intros s s' HI Hr Hc Hp H; cbn [nrun forallb length polled npolls] in *.
  - inversion H; subst. repeat split; [lia|lia|exact Hr].
  - apply andb_prop in Hp. destruct Hp as [Hp1 Hp2].
    destruct (nstep s l) as [s1|] eqn:E; [|discriminate H].
    destruct (step_decreases s l s1 HI Hr Hc Hp1 E) as (D1 & D2 & D3 & D4).
    destruct (IH s1 s' (Inv_step _ _ _ HI E) D2 D3 Hp2 H) as (I1 & I2 & I3).
    repeat split; [lia|lia|exact I3].
Qed.

Ltac enabled l := exists l; eexists; split; [reflexivity|cbn [nstep get_pc thr_eqb]].

(* ... and it cannot get stuck before both threads are through *)
Theorem stopped_not_stuck s :
  Inv s -> caching s = false -> ~ finished s -> exists l s', progress l = true /\ nstep s l = Some s'.
Proof.
  intros HI Hc Hnf.
  pose proof (I_sig_pcs _ HI) as (S1 & S2 & S3 & S4). pose proof (I_net_sig _ HI) as N1.
  pose proof (I_started _ HI Hc) as NS.
  destruct (lock s) as [[| |]|] eqn:El.
  - (* the network thread holds the callback lock *)
    pose proof (I_lock_net _ HI El) as Hh.
    destruct (pc_net s) eqn:En; try discriminate Hh.
    + enabled (LCheck TNet). rewrite En. reflexivity.
    + enabled (LCbEnter TNet). rewrite En. reflexivity.
    + enabled (LCbExit TNet). rewrite En. reflexivity.
    + enabled (LUnlock TNet). rewrite El. cbn [thr_eqb]. rewrite En. reflexivity.
    + enabled (LUnlock TNet). rewrite El. cbn [thr_eqb]. rewrite En. reflexivity.
  - (* the signal thread holds it *)
    pose proof (I_lock_sig _ HI El) as Hh.
    destruct (pc_sig s) eqn:Es; try discriminate Hh.
    + enabled (LCheck TSig). rewrite Es. reflexivity.
    + enabled (LCbEnter TSig). rewrite Es. reflexivity.
    + enabled (LCbExit TSig). rewrite Es. reflexivity.
    + enabled (LUnlock TSig). rewrite El. cbn [thr_eqb]. rewrite Es. reflexivity.
    + enabled (LUnlock TSig). rewrite El. cbn [thr_eqb]. rewrite Es. reflexivity.
  - exfalso. exact (I_lock_ext _ HI El).
  - (* the lock is free *)
    assert (Hn : holds_lock (pc_net s) = false).
    { destruct (holds_lock (pc_net s)) eqn:E; [|reflexivity]. rewrite (I_net_lock _ HI E) in El. discriminate El. }
    assert (Hs : holds_lock (pc_sig s) = false).
    { destruct (holds_lock (pc_sig s)) eqn:E; [|reflexivity]. rewrite (I_sig_lock _ HI E) in El. discriminate El. }
    destruct (pc_net s) as [| |e| |evs|sg|e r rp|e r rp|e r rp|r rp| |e|e|] eqn:En; try discriminate Hn.
    + contradiction.
    + destruct (cache s) eqn:Eca.
      * enabled LReplayEmpty. rewrite En, Eca. reflexivity.
      * enabled LReplayPop. rewrite En, Eca. reflexivity.
    + destruct (mode s) eqn:Em.
      * enabled (LCheck TNet). rewrite En, Em. reflexivity.
      * enabled (LLock TNet). rewrite El. cbn [get_pc]. rewrite En, Em. reflexivity.
    + enabled (LLoopCheck TNet). rewrite En. reflexivity.
    + destruct evs as [|e r].
      * enabled (LPoll []). rewrite En. reflexivity.
      * enabled (LLock TNet). rewrite El. cbn [get_pc]. rewrite En. reflexivity.
    + exfalso. exact (N1 sg eq_refl).
    + enabled (LCbEnter TNet). rewrite En. reflexivity.
    + enabled (LCbExit TNet). rewrite En. reflexivity.
    + (* the network thread is through: the signal thread is not *)
      destruct (pc_sig s) as [| |e| |evs|sg|e r rp|e r rp|e r rp|r rp| |e|e|] eqn:Es; try discriminate Hs.
      * exfalso. apply Hnf. split; [exact En|right; exact Es].
      * exfalso. apply S3. reflexivity.
      * exfalso. exact (S2 e eq_refl).
      * enabled (LLoopCheck TSig). rewrite Es. reflexivity.
      * exfalso. exact (S4 evs eq_refl).
      * destruct sg.
        -- enabled (LSigRecv None). rewrite Es. reflexivity.
        -- enabled (LLock TSig). rewrite El. cbn [get_pc]. rewrite Es. reflexivity.
      * cbn in S1. discriminate S1.
      * cbn in S1. discriminate S1.
      * exfalso. apply Hnf. split; [exact En|left; exact Es].
Qed.

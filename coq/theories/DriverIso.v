(* DriverIso.v — C17, layer 3: whatever one connection's adapter answers while it is processed
   (a hostile peer controls exactly that: pending status, the chunks "received", the read status),
   and as long as user code makes no controller calls of its own inside the callbacks, the
   processing touches no other registry entry, no listener, no id counter, and every event it
   emits is about that connection. *)
From MIO Require Import Base Gen ResId Driver.
Local Open Scope N_scope.

Definition quiet (a : answer) : Prop :=
  a_race0 a = [] /\ a_cb_conn a = [] /\ a_race a = [] /\ a_cb_disc a = [] /\
  Forall (fun c : N * list ucall => snd c = []) (a_chunks a).

Definition about (id : rid) (o : obs) : Prop :=
  match o with
  | OEv (Connected (i, _) _) | OEv (Accepted (i, _) _) | OEv (Message (i, _) _) | OEv (Disconnected (i, _)) => i = id
  | _ => False
  end.

(* everything except the entry of `id` *)
Definition same_elsewhere (id : rid) (s s' : dstate) : Prop :=
  (forall i, i <> id -> find_remote i (remotes s') = find_remote i (remotes s)) /\
  locals s' = locals s /\ next_remote s' = next_remote s /\ next_local s' = next_local s /\ adapter s' = adapter s.

Lemma same_refl id s : same_elsewhere id s s.
Proof. unfold same_elsewhere. repeat split; reflexivity. Qed.

Lemma same_trans id s1 s2 s3 : same_elsewhere id s1 s2 -> same_elsewhere id s2 s3 -> same_elsewhere id s1 s3.
Proof.
  intros (A1 & B1 & C1 & D1 & E1) (A2 & B2 & C2 & D2 & E2). unfold same_elsewhere.
  repeat split; try congruence. intros i Hi. rewrite A2 by exact Hi. apply A1. exact Hi.
Qed.

Lemma find_remove_other' id i l : i <> id -> find_remote i (remove_remote id l) = find_remote i l.
Proof.
  intros Hne. induction l as [|[k q] r IH]; cbn [remove_remote find_remote]; [reflexivity|].
  destruct (N.eqb_spec k id) as [->|Hk].
  - destruct (N.eqb_spec id i); [congruence|exact IH].
  - cbn [find_remote]. destruct (k =? i); [reflexivity|exact IH].
Qed.

Lemma find_set_ready_other' id i l : i <> id -> find_remote i (set_ready id l) = find_remote i l.
Proof.
  intros Hne. induction l as [|[k q] r IH]; cbn [set_ready find_remote]; [reflexivity|].
  destruct (N.eqb_spec k id) as [->|Hk]; cbn [find_remote].
  - destruct (N.eqb_spec id i); [congruence|exact IH].
  - destruct (k =? i); [reflexivity|exact IH].
Qed.

Lemma dereg_same id s : same_elsewhere id s (fst (deregister_remote s id)).
Proof.
  unfold deregister_remote. destruct (find_remote id (remotes s)); cbn [fst]; [|apply same_refl].
  unfold same_elsewhere, with_remotes. cbn. repeat split. intros i Hi. apply find_remove_other'. exact Hi.
Qed.

Lemma deliver_quiet id peer chunks : forall s,
  Forall (fun c : N * list ucall => snd c = []) chunks ->
  fst (deliver_chunks s (id, peer) chunks) = s /\ Forall (about id) (snd (deliver_chunks s (id, peer) chunks)).
Proof.
  induction chunks as [|[d cb] r IH]; intros s HF; cbn [deliver_chunks].
  - split; [reflexivity|constructor].
  - inversion HF as [|x l Hx Hr]; subst. cbn [snd] in Hx. subst cb. cbn [exec_ucalls].
    destruct (IH s Hr) as [E1 E2]. destruct (deliver_chunks s (id, peer) r) as [s2 o2]. cbn [fst snd app] in *.
    split; [exact E1|]. constructor; [reflexivity|exact E2].
Qed.

Theorem isolation s id rd a :
  resource_type gen_layout id = Remote -> quiet a ->
  same_elsewhere id s (fst (process s id rd a)) /\ Forall (about id) (snd (process s id rd a)).
Proof.
  intros Ht (Q0 & Q1 & Q2 & Q3 & Q4). unfold process. rewrite Ht.
  destruct (find_remote id (remotes s)) as [p|]; [|split; [apply same_refl|constructor]].
  rewrite Q0. cbn [exec_ucalls].
  (* pending phase *)
  assert (Hres : same_elsewhere id s (fst (fst (resolve_pending s id p a))) /\ Forall (about id) (snd (fst (resolve_pending s id p a)))).
  { unfold resolve_pending. destruct (r_ready p); [split; [apply same_refl|constructor]|].
    destruct (a_pending a).
    - rewrite Q1. cbn [exec_ucalls fst snd]. split.
      + unfold same_elsewhere, with_remotes. cbn. repeat split. intros i Hi. apply find_set_ready_other'. exact Hi.
      + constructor; [destruct (r_local p); reflexivity|constructor].
    - split; [apply same_refl|constructor].
    - pose proof (dereg_same id s) as Hd. destruct (deregister_remote s id) as [s' w]. cbn [fst] in Hd.
      destruct (r_local p).
      + split; [exact Hd|constructor].
      + rewrite Q1. cbn [exec_ucalls fst snd]. split; [exact Hd|]. constructor; [reflexivity|constructor]. }
  destruct (resolve_pending s id p a) as [[s1 o1] ready]. cbn [fst snd] in Hres. destruct Hres as [S1 F1].
  cbn [app]. destruct ready; [|split; assumption].
  (* read phase (a Read event, or a Write event that completed the handshake) *)
  assert (Hread : same_elsewhere id s (fst (read_from_remote s1 id p a)) /\ Forall (about id) (o1 ++ snd (read_from_remote s1 id p a))).
  { unfold read_from_remote. cbv zeta.
    match goal with |- context [deliver_chunks s1 ?e (a_chunks a)] =>
      pose proof (deliver_quiet id (r_peer p) (a_chunks a) s1 Q4) as [E2 F2];
      change (id, r_peer p) with e in E2, F2;
      destruct (deliver_chunks s1 e (a_chunks a)) as [s2 o2] end.
    cbn [fst snd] in E2, F2. subst s2.
    destruct (a_read a).
    - rewrite Q2. cbn [exec_ucalls].
      pose proof (dereg_same id s1) as Hd. destruct (deregister_remote s1 id) as [s4 won]. cbn [fst] in Hd.
      destruct won.
      + rewrite Q3. cbn [exec_ucalls fst snd]. split; [eapply same_trans; eauto|].
        apply Forall_app. split; [exact F1|]. apply Forall_app. split; [exact F2|]. cbn [app]. constructor; [reflexivity|constructor].
      + cbn [fst snd]. split; [eapply same_trans; eauto|].
        apply Forall_app. split; [exact F1|]. rewrite app_nil_r. exact F2.
    - cbn [fst snd]. split; [exact S1|]. apply Forall_app. split; assumption. }
  destruct rd.
  - destruct (read_from_remote s1 id p a) as [s2 o2]. cbn [fst snd] in *. exact Hread.
  - destruct (r_ready p); [split; assumption|].
    destruct (read_from_remote s1 id p a) as [s2 o2]. cbn [fst snd] in *. exact Hread.
Qed.

(* ---- F11 / C01: what the adapter holds when a connection becomes ready is delivered in that very
   call, whatever kind of event completed the handshake ---- *)
Fixpoint chunk_events (ep : endpoint) (chunks : list (N * list ucall)) : list obs :=
  match chunks with [] => [] | (d, _) :: r => OEv (Message ep d) :: chunk_events ep r end.

Lemma deliver_quiet_events id peer chunks : forall s,
  Forall (fun c : N * list ucall => snd c = []) chunks ->
  snd (deliver_chunks s (id, peer) chunks) = chunk_events (id, peer) chunks.
Proof.
  induction chunks as [|[d cb] r IH]; intros s HF; cbn [deliver_chunks chunk_events]; [reflexivity|].
  inversion HF as [|x l Hx Hr]; subst. cbn [snd] in Hx. subst cb. cbn [exec_ucalls].
  specialize (IH s Hr). destruct (deliver_chunks s (id, peer) r) as [s2 o2]. cbn [fst snd app] in *. rewrite IH. reflexivity.
Qed.

(* A pending connection whose adapter answers Ready (its handshake completes in this call), with no
   user interference: the Connected / Accepted event is followed, in the same call, by one Message
   event per chunk the adapter hands over -- for a READ event and for a WRITE event alike. *)
Theorem became_ready_delivers_buffered s id rd a p :
  resource_type gen_layout id = Remote -> find_remote id (remotes s) = Some p -> r_ready p = false ->
  a_pending a = PReady -> quiet a ->
  exists ev rest,
    snd (process s id rd a) = OEv ev :: chunk_events (id, r_peer p) (a_chunks a) ++ rest /\
    (ev = Connected (id, r_peer p) true \/ exists l, ev = Accepted (id, r_peer p) l).
Proof.
  intros Ht Hf Hr Hp (Q0 & Q1 & Q2 & Q3 & Q4). unfold process. rewrite Ht, Hf, Q0. cbn [exec_ucalls].
  unfold resolve_pending. rewrite Hr, Hp, Q1. cbn [exec_ucalls app].
  set (s' := with_remotes s (set_ready id (remotes s))).
  assert (Hread : snd (read_from_remote s' id p a) = chunk_events (id, r_peer p) (a_chunks a) ++
                  match a_read a with
                  | RWaitNextEvent => []
                  | RDisconnected => if snd (deregister_remote s' id) then [OEv (Disconnected (id, r_peer p))] else []
                  end).
  { unfold read_from_remote. cbv zeta.
    match goal with |- context [deliver_chunks s' ?e (a_chunks a)] =>
      pose proof (deliver_quiet id (r_peer p) (a_chunks a) s' Q4) as [E2 _];
      pose proof (deliver_quiet_events id (r_peer p) (a_chunks a) s' Q4) as E3;
      change (id, r_peer p) with e in E2, E3;
      destruct (deliver_chunks s' e (a_chunks a)) as [s2 o2] end.
    cbn [fst snd] in E2, E3. subst s2 o2.
    destruct (a_read a); [|rewrite app_nil_r; reflexivity].
    rewrite Q2. cbn [exec_ucalls]. destruct (deregister_remote s' id) as [s4 won]. cbn [snd]. destruct won.
    - rewrite Q3. cbn [exec_ucalls snd app]. reflexivity.
    - cbn [snd]. reflexivity. }
  eexists. eexists. split.
  - destruct rd.
    + destruct (read_from_remote s' id p a) as [s2 o2]. cbn [snd] in *. rewrite Hread. cbn [app]. reflexivity.
    + destruct (read_from_remote s' id p a) as [s2 o2]. cbn [snd] in *. rewrite Hread. cbn [app]. reflexivity.
  - destruct (r_local p) as [l|]; [right; exists l; reflexivity|left; reflexivity].
Qed.

(* ---- C04, the positive half: when the peer closes an established connection (the adapter's
   receive() answers Disconnected) and nobody interferes, the call delivers every chunk that
   preceded the close, then EXACTLY ONE Disconnected, and the registry entry is gone ---- *)
Lemma find_remove_same' id l : find_remote id (remove_remote id l) = None.
Proof.
  induction l as [|[k q] r IH]; cbn [remove_remote find_remote]; [reflexivity|].
  destruct (N.eqb_spec k id) as [->|Hk]; [exact IH|]. cbn [find_remote]. destruct (N.eqb_spec k id); [contradiction|exact IH].
Qed.

Theorem peer_close_delivers_data_then_one_disconnected s id a p :
  resource_type gen_layout id = Remote -> find_remote id (remotes s) = Some p -> r_ready p = true ->
  a_read a = RDisconnected -> quiet a ->
  snd (process s id Read a) = chunk_events (id, r_peer p) (a_chunks a) ++ [OEv (Disconnected (id, r_peer p))] /\
  find_remote id (remotes (fst (process s id Read a))) = None.
Proof.
  intros Ht Hf Hr Hd (Q0 & Q1 & Q2 & Q3 & Q4). unfold process. rewrite Ht, Hf, Q0. cbn [exec_ucalls].
  unfold resolve_pending. rewrite Hr. cbn [app].
  unfold read_from_remote. cbv zeta.
  match goal with |- context [deliver_chunks s ?e (a_chunks a)] =>
    pose proof (deliver_quiet id (r_peer p) (a_chunks a) s Q4) as [E2 _];
    pose proof (deliver_quiet_events id (r_peer p) (a_chunks a) s Q4) as E3;
    change (id, r_peer p) with e in E2, E3;
    destruct (deliver_chunks s e (a_chunks a)) as [s2 o2] end.
  cbn [fst snd] in E2, E3. subst s2 o2. rewrite Hd, Q2. cbn [exec_ucalls].
  unfold deregister_remote. rewrite Hf. rewrite Q3. cbn [exec_ucalls fst snd app].
  split; [reflexivity|]. unfold with_remotes. cbn [remotes]. apply find_remove_same'.
Qed.

(* ---- C03: a failed connect yields Connected(_, false) and nothing else; a failed inbound handshake
   yields no event at all; either way the resource is gone ---- *)
Theorem failed_pending_events s id rd a p :
  resource_type gen_layout id = Remote -> find_remote id (remotes s) = Some p -> r_ready p = false ->
  a_pending a = PDisconnected -> quiet a ->
  snd (process s id rd a) = match r_local p with None => [OEv (Connected (id, r_peer p) false)] | Some _ => [] end /\
  find_remote id (remotes (fst (process s id rd a))) = None.
Proof.
  intros Ht Hf Hr Hp (Q0 & Q1 & Q2 & Q3 & Q4). unfold process. rewrite Ht, Hf, Q0. cbn [exec_ucalls].
  unfold resolve_pending. rewrite Hr, Hp. unfold deregister_remote. rewrite Hf.
  destruct (r_local p) as [l|].
  - cbn [app fst snd]. split; [reflexivity|]. unfold with_remotes. cbn [remotes]. apply find_remove_same'.
  - rewrite Q1. cbn [exec_ucalls app fst snd]. split; [reflexivity|]. unfold with_remotes. cbn [remotes]. apply find_remove_same'.
Qed.

(* a pending connection whose adapter answers Incomplete stays silent and pending *)
Theorem incomplete_pending_silent s id rd a p :
  resource_type gen_layout id = Remote -> find_remote id (remotes s) = Some p -> r_ready p = false ->
  a_pending a = PIncomplete -> quiet a ->
  process s id rd a = (s, []).
Proof.
  intros Ht Hf Hr Hp (Q0 & Q1 & Q2 & Q3 & Q4). unfold process. rewrite Ht, Hf, Q0. cbn [exec_ucalls].
  unfold resolve_pending. rewrite Hr, Hp. reflexivity.
Qed.

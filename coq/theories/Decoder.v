(* Decoder.v — model of util/encoding.rs::Decoder, branch by branch, in both arithmetic modes.
   A decoder state is the `stored` vector.  Outputs are the payloads handed to the callback, in
   call order.  Panic is an explicit outcome; running out of fuel is a distinct outcome (None). *)
From MIO Require Import Base Gen Varint.
Local Open Scope N_scope.

(* fn try_decode(&mut self, data, callback): loop over complete frames in `data` *)
Fixpoint try_decode_f (fuel : nat) (stored next_data : list N) (outs : list (list N))
  : option (list N * list (list N)) :=
  match fuel with
  | O => None
  | S f =>
      match decode_size next_data with
      | Some (expected_size, used_bytes) =>
          let remaining := drop used_bytes next_data in
          if expected_size <=? len remaining then
            let decoded := take expected_size remaining in
            let not_decoded := drop expected_size remaining in
            match not_decoded with
            | [] => Some (stored, outs ++ [decoded])                 (* break *)
            | _ => try_decode_f f stored not_decoded (outs ++ [decoded]) (* continue *)
            end
          else Some (stored ++ next_data, outs)
      | None => Some (stored ++ next_data, outs)
      end
  end.

Definition try_decode (stored data : list N) : option (list N * list (list N)) :=
  try_decode_f (S (length data)) stored data [].

(* the header-completion loop of store_and_decoded_data (None arm):
     loop { if used == data.len() { return None }  stored.push(data[used]); used += 1;
            if let Some(x) = decode_size(&stored) { break x } }                               *)
Fixpoint complete_header (stored data : list N) : list N * option ((N * N) * list N) :=
  match data with
  | [] => (stored, None)
  | b :: rest =>
      let stored' := stored ++ [b] in
      match decode_size stored' with
      | Some x => (stored', Some (x, rest))
      | None => complete_header stored' rest
      end
  end.

(* fn store_and_decoded_data: returns the new `stored` and, when a message was completed,
   (the message = stored[used_bytes..], the rest of data) *)
Definition store_and_decoded_data (m : mode) (stored data : list N)
  : res (list N * option (list N * list N)) :=
  let '(stored1, hdr) :=
    match decode_size stored with
    | Some x => (stored, Some (x, data))
    | None => complete_header stored data
    end in
  match hdr with
  | None => Ok (stored1, None)
  | Some ((expected_size, used_bytes), data1) =>
      (* let remaining = expected_size - (self.stored.len() - used_bytes); *)
      res_bind (usub m (len stored1) used_bytes) (fun have =>
      res_bind (usub m expected_size have) (fun remaining =>
        if len data1 <? remaining then Ok (stored1 ++ data1, None)
        else
          let to_store := take remaining data1 in
          let rest := drop remaining data1 in
          let stored2 := stored1 ++ to_store in
          (* &self.stored[used_bytes..] panics when used_bytes > len *)
          if used_bytes <=? len stored2 then Ok (stored2, Some (drop used_bytes stored2, rest))
          else Panic))
  end.

Inductive dres :=
| DOk (stored : list N) (outs : list (list N))
| DPanic
| DOutOfFuel.

(* pub fn decode(&mut self, data, callback) *)
Definition decode (m : mode) (stored data : list N) : dres :=
  match stored with
  | [] =>
      match try_decode [] data with
      | Some (st, outs) => DOk st outs
      | None => DOutOfFuel
      end
  | _ =>
      match store_and_decoded_data m stored data with
      | Panic => DPanic
      | Ok (st, None) => DOk st []
      | Ok (_, Some (decoded, remaining)) =>
          (* callback(decoded); self.stored.clear(); self.try_decode(remaining, callback) *)
          match try_decode [] remaining with
          | Some (st, outs) => DOk st (decoded :: outs)
          | None => DOutOfFuel
          end
      end
  end.

(* feeding a sequence of chunks to one decoder, starting from `stored` *)
Fixpoint feed_from (m : mode) (stored : list N) (cs : list (list N)) (acc : list (list N)) : dres :=
  match cs with
  | [] => DOk stored acc
  | c :: cs' =>
      match decode m stored c with
      | DOk st outs => feed_from m st cs' (acc ++ outs)
      | DPanic => DPanic
      | DOutOfFuel => DOutOfFuel
      end
  end.

Definition feed (m : mode) (cs : list (list N)) : dres := feed_from m [] cs [].

(* ---------------- specification side (independent of the streaming code) ---------------- *)

(* a frame = canonical varint of the payload length, then the payload *)
Definition frame (p : list N) : option (list N) :=
  match enc (len p) with Some h => Some (h ++ p) | None => None end.

Fixpoint frames (ms : list (list N)) : option (list N) :=
  match ms with
  | [] => Some []
  | p :: r => match frame p, frames r with
              | Some f, Some fr => Some (f ++ fr)
              | _, _ => None
              end
  end.

(* one-shot reference parser of a whole buffer: complete frames, then the unparsed tail *)
Fixpoint parse_f (fuel : nat) (s : list N) : option (list (list N) * list N) :=
  match fuel with
  | O => None
  | S f =>
      match decode_size s with
      | Some (e, u) =>
          let body := drop u s in
          if e <=? len body then
            match parse_f f (drop e body) with
            | Some (outs, rest) => Some (take e body :: outs, rest)
            | None => None
            end
          else Some ([], s)
      | None => Some ([], s)
      end
  end.

Definition parse (s : list N) : option (list (list N) * list N) := parse_f (S (length s)) s.

(* ResId.v — model of network/resource_id.rs (id layout, accessors, generator) and of the two
   token conversions in network/poll.rs.  All constants come from Gen.v. *)
From MIO Require Import Base Gen.
Local Open Scope N_scope.

Record layout := {
  apos : N; tpos : N; bpos : N;
  amask : N; bmask : N;
  tlocal : N; tremote : N;           (* bits or-ed in by ResourceId::new for Local / Remote *)
  tmask : N; nonzero_is_local : bool; (* resource_type(): id & tmask != 0 => Local *)
  max_adapter : N; max_base : N;
  rbits : N; tok_or : N; waker : N;   (* poll.rs *)
  gen_init : N; gen_step : N
}.

Definition gen_layout : layout := {|
  apos := ADAPTER_ID_POS; tpos := RESOURCE_TYPE_POS; bpos := BASE_VALUE_POS;
  amask := ADAPTER_ID_MASK; bmask := BASE_VALUE_MASK;
  tlocal := TYPE_BITS_LOCAL; tremote := TYPE_BITS_REMOTE;
  tmask := TYPE_TEST_MASK; nonzero_is_local := TYPE_TEST_NONZERO_IS_LOCAL;
  max_adapter := MAX_ADAPTER_ID; max_base := MAX_BASE_VALUE;
  rbits := RESERVED_BITS; tok_or := TOKEN_OR; waker := WAKER_TOKEN;
  gen_init := GEN_INIT; gen_step := GEN_STEP |}.

Inductive rtype := Local | Remote.
Definition rtype_eqb (a b : rtype) : bool :=
  match a, b with Local, Local => true | Remote, Remote => true | _, _ => false end.

Section WithLayout.
  Variable L : layout.

  (* ResourceId::new without its debug assertions (what a release build computes) *)
  Definition mk_id_raw (a : N) (t : rtype) (b : N) : N :=
    N.lor (N.lor (ushl a (apos L)) (match t with Local => tlocal L | Remote => tremote L end))
          (ushl b (bpos L)).

  (* ResourceId::new: the two debug_assert!s fire in debug builds only *)
  Definition mk_id (m : mode) (a : N) (t : rtype) (b : N) : res N :=
    match m with
    | Checked => if (a <=? max_adapter L) && (b <=? max_base L) then Ok (mk_id_raw a t b) else Panic
    | Wrapping => Ok (mk_id_raw a t b)
    end.

  Definition resource_type (id : N) : rtype :=
    if negb (N.land id (tmask L) =? 0)
    then (if nonzero_is_local L then Local else Remote)
    else (if nonzero_is_local L then Remote else Local).

  Definition adapter_id (id : N) : N := (N.shiftr (N.land id (amask L)) (apos L)) mod 256.  (* `as u8` *)
  Definition base_value (id : N) : N := N.shiftr (N.land id (bmask L)) (bpos L).

  (* poll.rs: From<ResourceId> for Token, From<Token> for ResourceId *)
  Definition token_of_id (id : N) : N := N.lor (ushl id (rbits L)) (tok_or L).
  Definition id_of_token (tok : N) : N := N.shiftr tok (rbits L).

  (* ResourceIdGenerator: fetch_add wraps at 2^64 *)
  Definition generate (m : mode) (a : N) (t : rtype) (last : N) : res N * N :=
    (mk_id m a t last, (last + gen_step L) mod USIZE_MOD).

  (* one width parameter describes every consistent layout: adapter in bits [0,w), kind at bit w,
     base value in bits [w+1,64) *)
  Definition layout_ok : bool :=
    let w := tpos L in
    (apos L =? 0) && (amask L =? N.ones w) && (w <=? 8) &&
    (tlocal L =? 2 ^ w) && (tremote L =? 0) && (tmask L =? 2 ^ w) && nonzero_is_local L &&
    (bpos L =? w + 1) && (bmask L =? N.shiftl (N.ones (63 - w)) (w + 1)) &&
    (max_adapter L =? N.ones w) && (max_base L =? N.ones (63 - w)) &&
    (1 <=? rbits L) && (rbits L <? 64) && (1 <=? tok_or L) && (tok_or L <? 2 ^ rbits L) &&
    (waker L =? 0) && (gen_init L =? 0) && (gen_step L =? 1).
End WithLayout.

(* ---- id allocation history: one generator per (adapter, kind), as PollRegistry holds ---- *)
Definition gkey := (N * rtype)%type.
Definition gkey_eqb (x y : gkey) : bool := (fst x =? fst y) && rtype_eqb (snd x) (snd y).

Fixpoint counter_of (cs : list (gkey * N)) (k : gkey) (dflt : N) : N :=
  match cs with
  | [] => dflt
  | (k', v) :: r => if gkey_eqb k k' then v else counter_of r k dflt
  end.

Fixpoint counter_set (cs : list (gkey * N)) (k : gkey) (v : N) : list (gkey * N) :=
  match cs with
  | [] => [(k, v)]
  | (k', v') :: r => if gkey_eqb k k' then (k, v) :: r else (k', v') :: counter_set r k v
  end.

(* issue ids for a sequence of requests (which generator is asked next is arbitrary) *)
Fixpoint issue (L : layout) (cs : list (gkey * N)) (reqs : list gkey) : list N :=
  match reqs with
  | [] => []
  | k :: r =>
      let last := counter_of cs k (gen_init L) in
      mk_id_raw L (fst k) (snd k) last :: issue L (counter_set cs k ((last + gen_step L) mod USIZE_MOD)) r
  end.

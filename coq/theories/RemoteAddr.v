(* RemoteAddr.v — model of network/remote_addr.rs.  The arms come from Gen.v (regenerated from
   the source on every run).  Rust's `str::parse::<SocketAddr>` is the *definition* of
   "parses as ip:port": it is a Section variable (oracle), never an axiom. *)
From MIO Require Import Base Gen.

Section RemoteAddr.
  Variable sockaddr : Type.
  Variable text : Type.        (* the caller's string type; Rust: &str / String *)
  Variable parse : text -> option sockaddr.

  Inductive remote_addr :=
  | Socket (a : sockaddr)
  | Str (s : text).

  Definition ctor_eqb (a b : ra_ctor) : bool :=
    match a, b with CSocket, CSocket => true | CStr, CStr => true | _, _ => false end.

  Definition ctor_of (r : remote_addr) : ra_ctor :=
    match r with Socket _ => CSocket | Str _ => CStr end.

  (* the shape the translator read from the source *)
  Record shape := {
    sh_is_socket_addr : ra_ctor;   (* constructor matched by is_socket_addr() *)
    sh_is_string : ra_ctor;        (* constructor matched by is_string() *)
    sh_socket_addr : ra_ctor;      (* constructor whose payload socket_addr() returns *)
    sh_string : ra_ctor;           (* constructor whose payload string() returns *)
    sh_parse_ok : ra_ctor;         (* constructor built when the text parses *)
    sh_parse_err : ra_ctor;        (* constructor built when it does not *)
    sh_lossless : bool             (* SocketAddr/V4/V6/RemoteAddr impls wrap *self unchanged *)
  }.

  Definition is_socket_addr (S : shape) (r : remote_addr) : bool :=
    ctor_eqb (ctor_of r) (sh_is_socket_addr S).
  Definition is_string (S : shape) (r : remote_addr) : bool :=
    ctor_eqb (ctor_of r) (sh_is_string S).

  (* accessors: the payload of the matching constructor, otherwise panic!().  An accessor whose
     arm names the other constructor would not type-check in Rust; modelled as Panic. *)
  Definition socket_addr (S : shape) (r : remote_addr) : res sockaddr :=
    match sh_socket_addr S, r with CSocket, Socket a => Ok a | _, _ => Panic end.
  Definition string_of (S : shape) (r : remote_addr) : res text :=
    match sh_string S, r with CStr, Str s => Ok s | _, _ => Panic end.

  (* <&str as ToRemoteAddr>::to_remote_addr — None only for an arm pairing that cannot be typed *)
  Definition to_remote_addr (S : shape) (s : text) : option remote_addr :=
    match parse s with
    | Some a => match sh_parse_ok S with CSocket => Some (Socket a) | CStr => Some (Str s) end
    | None => match sh_parse_err S with CStr => Some (Str s) | CSocket => None end
    end.

  Definition from_socket (S : shape) (a : sockaddr) : option remote_addr :=
    if sh_lossless S then Some (Socket a) else None.

  Definition shape_ok (S : shape) : bool :=
    ctor_eqb (sh_is_socket_addr S) CSocket && ctor_eqb (sh_is_string S) CStr &&
    ctor_eqb (sh_socket_addr S) CSocket && ctor_eqb (sh_string S) CStr &&
    ctor_eqb (sh_parse_ok S) CSocket && ctor_eqb (sh_parse_err S) CStr && sh_lossless S.
End RemoteAddr.

Arguments Socket {sockaddr text} a.
Arguments Str {sockaddr text} s.

Definition gen_shape : shape := {|
  sh_is_socket_addr := ra_is_socket_addr_ctor;
  sh_is_string := ra_is_string_ctor;
  sh_socket_addr := ra_socket_addr_ctor;
  sh_string := ra_string_ctor;
  sh_parse_ok := ra_parse_ok_ctor;
  sh_parse_err := ra_parse_err_ctor;
  sh_lossless := RA_SOCKET_TYPES_WRAP_LOSSLESS |}.

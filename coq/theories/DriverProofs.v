(* DriverProofs.v — invariants of the driver/registry model under ANY adapter behaviour, ANY user
   calls inside callbacks and ANY racing controller calls. *)
From MIO Require Import Base Gen Bits ResId ResIdProofs Driver.
Local Open Scope N_scope.

Section Proofs.
  Hypothesis HL : layout_ok gen_layout = true.

  Notation mk := (mk_id_raw gen_layout).

  (* ---- registry list lemmas ---- *)
  Lemma find_remove_same id l : find_remote id (remove_remote id l) = None.
  Proof.
    induction l as [|[k p] r IH]; cbn [remove_remote find_remote]; [reflexivity|].
    destruct (N.eqb_spec k id); [exact IH|]. cbn [find_remote].
    destruct (N.eqb_spec k id); [contradiction|exact IH].
  Qed.

  Lemma find_remove_other id id' l : id' <> id -> find_remote id' (remove_remote id l) = find_remote id' l.
  Proof.
    intros Hne. induction l as [|[k p] r IH]; cbn [remove_remote find_remote]; [reflexivity|].
    destruct (N.eqb_spec k id) as [->|Hk].
    - destruct (N.eqb_spec id id'); [congruence|exact IH].
    - cbn [find_remote]. destruct (N.eqb_spec k id'); [reflexivity|exact IH].
  Qed.

  Lemma find_set_ready_same id l p :
    find_remote id l = Some p ->
    find_remote id (set_ready id l) = Some {| r_peer := r_peer p; r_local := r_local p; r_ready := true |}.
  Proof.
    induction l as [|[k q] r IH]; cbn [set_ready find_remote]; [discriminate|].
    destruct (N.eqb_spec k id) as [->|Hk]; cbn [find_remote].
    - rewrite N.eqb_refl. intros H. inversion H; subst. reflexivity.
    - destruct (N.eqb_spec k id); [contradiction|exact IH].
  Qed.

  Lemma find_set_ready_none id l : find_remote id l = None -> find_remote id (set_ready id l) = None.
  Proof.
    induction l as [|[k q] r IH]; cbn [set_ready find_remote]; [reflexivity|].
    destruct (N.eqb_spec k id) as [->|Hk]; cbn [find_remote]; [discriminate|].
    destruct (N.eqb_spec k id); [contradiction|exact IH].
  Qed.

  Lemma find_set_ready_other id id' l : id' <> id -> find_remote id' (set_ready id l) = find_remote id' l.
  Proof.
    intros Hne. induction l as [|[k q] r IH]; cbn [set_ready find_remote]; [reflexivity|].
    destruct (N.eqb_spec k id) as [->|Hk]; cbn [find_remote].
    - destruct (N.eqb_spec id id'); [congruence|exact IH].
    - destruct (N.eqb_spec k id'); [reflexivity|exact IH].
  Qed.

  Lemma mem_n_true x l : mem_n x l = true <-> In x l.
  Proof.
    unfold mem_n. rewrite existsb_exists. split.
    - intros (y & Hy & He). apply N.eqb_eq in He. subst. exact Hy.
    - intros H. exists x. split; [exact H|apply N.eqb_refl].
  Qed.

  (* ---- ids ---- *)
  Definition bound_ok (s : dstate) : Prop :=
    adapter s <= max_adapter gen_layout /\ next_remote s <= max_base gen_layout + 1 /\ next_local s <= max_base gen_layout + 1.

  Definition issued_remote (s : dstate) (id : rid) : Prop :=
    exists n, n < next_remote s /\ id = mk (adapter s) Remote n.
  Definition issued_local (s : dstate) (id : rid) : Prop :=
    exists n, n < next_local s /\ id = mk (adapter s) Local n.

  Lemma fresh_remote_not_issued s :
    bound_ok s -> next_remote s <= max_base gen_layout -> ~ issued_remote s (mk (adapter s) Remote (next_remote s)).
  Proof.
    intros (Ha & Hr & _) Hb (n & Hn & Heq).
    apply (mk_id_injective gen_layout HL) in Heq; [destruct Heq as (_ & _ & Heq); lia| | | |]; lia.
  Qed.

  Lemma issued_remote_type s id : bound_ok s -> issued_remote s id -> resource_type gen_layout id = Remote.
  Proof.
    intros (Ha & Hr & _) (n & Hn & ->).
    destruct (id_fields_roundtrip gen_layout HL (adapter s) Remote n Ha) as (_ & H & _); [lia|exact H].
  Qed.

  Lemma issued_local_type s id : bound_ok s -> issued_local s id -> resource_type gen_layout id = Local.
  Proof.
    intros (Ha & _ & Hl) (n & Hn & ->).
    destruct (id_fields_roundtrip gen_layout HL (adapter s) Local n Ha) as (_ & H & _); [lia|exact H].
  Qed.

  (* ---- how many registrations a script can perform (ids must stay below 2^56) ---- *)
  Definition cost_ucall (c : ucall) : N :=
    match c with UConnect true _ | UListen true => 1 | _ => 0 end.
  Fixpoint cost_ucalls (cs : list ucall) : N :=
    match cs with [] => 0 | c :: r => cost_ucall c + cost_ucalls r end.
  Fixpoint cost_chunks (l : list (N * list ucall)) : N :=
    match l with [] => 0 | (_, cb) :: r => cost_ucalls cb + cost_chunks r end.
  Fixpoint cost_accepts (l : list accepted) : N :=
    match l with
    | [] => 0
    | AccRemote _ :: r => 1 + cost_accepts r
    | AccData _ _ cb :: r => cost_ucalls cb + cost_accepts r
    end.
  Definition cost_answer (a : answer) : N :=
    cost_ucalls (a_race0 a) + cost_ucalls (a_cb_conn a) + cost_chunks (a_chunks a) +
    cost_ucalls (a_race a) + cost_ucalls (a_cb_disc a) + cost_accepts (a_accepts a).
  Definition cost_label (l : dlabel) : N :=
    match l with LCall c => cost_ucall c | LProcess _ _ a => cost_answer a end.
  Fixpoint cost_labels (ls : list dlabel) : N :=
    match ls with [] => 0 | l :: r => cost_label l + cost_labels r end.

  (* a connection that was announced or is being connected and has not ended *)
  Definition live_phase (st : lstate) (id : rid) : Prop :=
    match phase_of id (ph st) with Some (PendingC _) | Some (Est _) => True | _ => False end.

  (* ---- the invariant tying the registries to the lifecycle checker ---- *)
  Record J (s : dstate) (st : lstate) (budget : N) : Prop := {
    J_adapter : adapter s <= max_adapter gen_layout;
    J_budget_r : next_remote s + budget <= max_base gen_layout + 1;
    J_budget_l : next_local s + budget <= max_base gen_layout + 1;
    J_rem_issued : forall id p, find_remote id (remotes s) = Some p -> issued_remote s id;
    J_ph_issued : forall id, phase_of id (ph st) <> None -> issued_remote s id;
    J_loc : forall id, In id (locals s) -> In id (listeners st);
    J_lis_issued : forall id, In id (listeners st) -> issued_local s id;
    J_entry : forall id p, find_remote id (remotes s) = Some p ->
        match r_ready p, r_local p with
        | true, _ => phase_of id (ph st) = Some (Est (r_peer p))
        | false, None => phase_of id (ph st) = Some (PendingC (r_peer p))
        | false, Some l => phase_of id (ph st) = None /\ In l (listeners st)
        end;
    (* a connection the user removed has no entry, for good *)
    J_removed : forall id, In id (removed st) -> find_remote id (remotes s) = None /\ issued_remote s id;
    (* an ended connection (Disconnected / failed connect) has no entry *)
    J_dead : forall id, phase_of id (ph st) = Some Dead -> find_remote id (remotes s) = None;
    (* and conversely: a connection that has not ended and was not removed by the user still has its entry *)
    J_live : forall id, live_phase st id -> ~ In id (removed st) -> find_remote id (remotes s) <> None
  }.

  Lemma J_bound s st b : J s st b -> bound_ok s.
  Proof. intros H. destruct H. unfold bound_ok. repeat split; [assumption|lia|lia]. Qed.

  Lemma consts_gen : GEN_STEP = 1 /\ GEN_INIT = 0 /\ max_base gen_layout + 1 < USIZE_MOD.
  Proof.
    pose proof HL as H. unfold layout_ok in H.
    repeat match type of H with _ && _ = true => let H' := fresh in apply andb_prop in H; destruct H as [H H'] end.
    repeat match goal with H : (_ =? _) = true |- _ => apply N.eqb_eq in H | H : (_ <=? _) = true |- _ => apply N.leb_le in H end.
    split; [assumption|]. split; [assumption|].
    match goal with H : max_base gen_layout = _ |- _ => rewrite H end.
    unfold USIZE_MOD. rewrite N.ones_equiv.
    assert (2 ^ (63 - tpos gen_layout) <= 2 ^ 63) by (apply N.pow_le_mono_r; lia).
    assert (0 < 2 ^ (63 - tpos gen_layout)) by (apply N.neq_0_lt_0, N.pow_nonzero; lia).
    assert (2 ^ 63 < 2 ^ 64) by (apply N.pow_lt_mono_r; lia). lia.
  Qed.

  Lemma J_init a b : a <= max_adapter gen_layout -> b <= max_base gen_layout + 1 -> J (dinit a) {| ph := []; listeners := []; removed := [] |} b.
  Proof.
    intros Ha Hb. destruct consts_gen as (_ & G0 & _).
    constructor; cbn [dinit adapter next_remote next_local remotes locals ph listeners removed find_remote phase_of]; try rewrite G0;
      try lia; try (intros; discriminate); try (intros; contradiction); try (intros id H; contradiction H; reflexivity).
  Qed.

  Lemma issued_remote_mono s s' id :
    adapter s' = adapter s -> next_remote s <= next_remote s' -> issued_remote s id -> issued_remote s' id.
  Proof. intros Ha Hn (n & Hlt & ->). exists n. rewrite Ha. split; [lia|reflexivity]. Qed.

  Lemma issued_local_mono s s' id :
    adapter s' = adapter s -> next_local s <= next_local s' -> issued_local s id -> issued_local s' id.
  Proof. intros Ha Hn (n & Hlt & ->). exists n. rewrite Ha. split; [lia|reflexivity]. Qed.

  (* what one controller call guarantees *)
  Definition ext (s s' : dstate) (st st' : lstate) : Prop :=
    adapter s' = adapter s /\ next_remote s <= next_remote s' /\ next_local s <= next_local s' /\
    (forall id, issued_remote s id -> phase_of id (ph st') = phase_of id (ph st)) /\
    (forall id, In id (listeners st) -> In id (listeners st')) /\
    (forall id, issued_remote s id -> find_remote id (remotes s) = None -> find_remote id (remotes s') = None) /\
    (forall id p', find_remote id (remotes s') = Some p' -> issued_remote s id ->
                   exists p, find_remote id (remotes s) = Some p /\ p' = p) /\
    (forall id, In id (removed st) -> In id (removed st')) /\
    (* an entry disappears during controller calls only through a successful remove() *)
    (forall id, issued_remote s id -> find_remote id (remotes s) <> None -> find_remote id (remotes s') = None -> In id (removed st')).

  Lemma ext_refl s st : ext s s st st.
  Proof. unfold ext. repeat split; auto; try lia; [intros id p' H _; exists p'; auto|intros id _ H1 H2; contradiction]. Qed.

  Lemma ext_trans s1 s2 s3 st1 st2 st3 : ext s1 s2 st1 st2 -> ext s2 s3 st2 st3 -> ext s1 s3 st1 st3.
  Proof.
    intros (A1 & B1 & C1 & D1 & E1 & F1 & G1 & R1 & X1) (A2 & B2 & C2 & D2 & E2 & F2 & G2 & R2 & X2). unfold ext.
    assert (Hm : forall id, issued_remote s1 id -> issued_remote s2 id) by (intros id; apply issued_remote_mono; auto).
    repeat split; try lia; try congruence.
    - intros id Hi. rewrite D2 by auto. auto.
    - auto.
    - intros id Hi Hn. apply F2; auto.
    - intros id p' H3 Hi. destruct (G2 id p' H3 (Hm id Hi)) as (p2 & H2 & ->). exact (G1 id p2 H2 Hi).
    - auto.
    - intros id Hi H1 H3. destruct (find_remote id (remotes s2)) eqn:E2'.
      + apply (X2 id (Hm id Hi)); [congruence|exact H3].
      + apply R2. apply (X1 id Hi H1 E2').
  Qed.

  Lemma exec_ucall_J s st b c :
    J s st b -> cost_ucall c <= b ->
    exists st', lifecycle_run st (snd (exec_ucall s c)) = Some st' /\
                J (fst (exec_ucall s c)) st' (b - cost_ucall c) /\ ext s (fst (exec_ucall s c)) st st'.
  Proof.
    intros HJ Hc. destruct consts_gen as (G1 & G0 & Gm). pose proof (J_bound _ _ _ HJ) as Hb.
    destruct c as [ok peer|ok|[id to] len ans|id|id]; cbn [exec_ucall].
    - (* connect *)
      destruct ok; cbn [cost_ucall] in *.
      + unfold register_remote. cbn [fst snd lifecycle_run lifecycle_step].
        set (nid := mk (adapter s) Remote (next_remote s)).
        assert (Hfresh : ~ issued_remote s nid).
        { apply fresh_remote_not_issued; [exact Hb|]. destruct HJ. lia. }
        assert (Hph : phase_of nid (ph st) = None).
        { destruct (phase_of nid (ph st)) eqn:E; [|reflexivity]. exfalso. apply Hfresh. apply (J_ph_issued _ _ _ HJ). congruence. }
        rewrite Hph. eexists. split; [reflexivity|].
        assert (Hnext : (next_remote s + GEN_STEP) mod USIZE_MOD = next_remote s + 1).
        { rewrite G1. apply N.mod_small. destruct HJ. lia. }
        rewrite Hnext.
        assert (Hmono : forall i, issued_remote s i -> issued_remote {| remotes := (nid, {| r_peer := peer; r_local := None; r_ready := false |}) :: remotes s;
                   locals := locals s; next_remote := next_remote s + 1; next_local := next_local s; adapter := adapter s |} i).
        { intros i. apply issued_remote_mono; cbn; [reflexivity|lia]. }
        split.
        * destruct HJ. constructor; cbn [adapter next_remote next_local remotes locals ph listeners set_phase]; try assumption; try lia.
          -- intros i p. cbn [find_remote]. destruct (N.eqb_spec nid i) as [<-|Hne].
             ++ intros _. exists (next_remote s). cbn. split; [lia|reflexivity].
             ++ intros H. apply Hmono. eapply J_rem_issued0; eauto.
          -- intros i. cbn [set_phase phase_of]. destruct (N.eqb_spec nid i) as [<-|Hne].
             ++ intros _. exists (next_remote s). cbn. split; [lia|reflexivity].
             ++ intros H. apply Hmono. auto.
          -- intros i p. cbn [find_remote set_phase phase_of]. destruct (N.eqb_spec nid i) as [<-|Hne].
             ++ intros H. inversion H; subst. cbn. reflexivity.
             ++ intros H. apply J_entry0. exact H.
          -- intros i Hi. destruct (J_removed0 i Hi) as [Hn Hiss]. cbn [removed] in *. split; [|apply Hmono; exact Hiss].
             cbn [find_remote]. destruct (N.eqb_spec nid i) as [<-|Hne]; [contradiction|exact Hn].
          -- intros i. cbn [set_phase phase_of find_remote]. destruct (N.eqb_spec nid i) as [<-|Hne]; [discriminate|]. apply J_dead0.
          -- intros i Hl Hr. unfold live_phase in Hl. cbn [ph removed set_phase phase_of find_remote] in Hl, Hr |- *.
             destruct (N.eqb_spec nid i) as [Heq|Hne]; [discriminate|]. apply J_live0; assumption.
        * unfold ext. cbn [adapter next_remote next_local remotes ph listeners set_phase]. repeat split; try lia; auto.
          -- intros i Hi. cbn [set_phase phase_of]. destruct (N.eqb_spec nid i) as [<-|Hne]; [contradiction|reflexivity].
          -- intros i Hi Hn. cbn [find_remote]. destruct (N.eqb_spec nid i) as [<-|Hne]; [contradiction|exact Hn].
          -- intros i p'. cbn [find_remote]. destruct (N.eqb_spec nid i) as [<-|Hne]; [intros _ Hi; contradiction|]. intros H _. eauto.
          -- intros i Hi H1. cbn [find_remote]. destruct (N.eqb_spec nid i) as [Heq|Hne]; [discriminate|]. intros H2. contradiction.
      + cbn [fst snd lifecycle_run lifecycle_step]. eexists. split; [reflexivity|]. rewrite N.sub_0_r. split; [exact HJ|apply ext_refl].
    - (* listen *)
      destruct ok; cbn [cost_ucall] in *.
      + unfold register_local. cbn [fst snd lifecycle_run lifecycle_step].
        set (nid := mk (adapter s) Local (next_local s)).
        assert (Hfresh : ~ In nid (listeners st)).
        { intros Hin. destruct (J_lis_issued _ _ _ HJ _ Hin) as (n & Hn & Heq). unfold nid in Heq.
          destruct HJ. apply (mk_id_injective gen_layout HL) in Heq; [destruct Heq as (_ & _ & Heq); lia| | | |]; lia. }
        replace (mem_n nid (listeners st)) with false
          by (symmetry; destruct (mem_n nid (listeners st)) eqn:E; [apply mem_n_true in E; contradiction|reflexivity]).
        eexists. split; [reflexivity|].
        assert (Hnext : (next_local s + GEN_STEP) mod USIZE_MOD = next_local s + 1).
        { rewrite G1. apply N.mod_small. destruct HJ. lia. }
        rewrite Hnext. split.
        * destruct HJ. constructor; cbn [adapter next_remote next_local remotes locals ph listeners]; try assumption; try lia.
          -- intros i [<-|Hi]; [left; reflexivity|right; auto].
          -- intros i [<-|Hi].
             ++ exists (next_local s). cbn. split; [lia|reflexivity].
             ++ specialize (J_lis_issued0 i Hi). revert J_lis_issued0. apply issued_local_mono; cbn; [reflexivity|lia].
          -- intros i p H. specialize (J_entry0 i p H). destruct (r_ready p); [exact J_entry0|].
             destruct (r_local p); [|exact J_entry0]. destruct J_entry0. split; [assumption|right; assumption].
        * unfold ext. cbn [adapter next_remote next_local remotes ph listeners]. repeat split; try lia; auto.
          -- intros i Hi. right. exact Hi.
          -- intros i p' H _. eauto.
          -- intros i _ H1 H2. contradiction.
      + cbn [fst snd lifecycle_run lifecycle_step]. eexists. split; [reflexivity|]. rewrite N.sub_0_r. split; [exact HJ|apply ext_refl].
    - (* send: no state change, no lifecycle-relevant observation *)
      cbn [cost_ucall]. rewrite N.sub_0_r.
      destruct (resource_type gen_layout id).
      + destruct (mem_n id (locals s)); cbn [fst snd lifecycle_run lifecycle_step]; eexists; (split; [reflexivity|]); (split; [exact HJ|apply ext_refl]).
      + destruct (find_remote id (remotes s)) as [p|]; [destruct (r_ready p)|]; cbn [fst snd lifecycle_run lifecycle_step]; eexists; (split; [reflexivity|]); (split; [exact HJ|apply ext_refl]).
    - (* remove *)
      cbn [cost_ucall]. rewrite N.sub_0_r.
      destruct (resource_type gen_layout id) eqn:Ht.
      + destruct (mem_n id (locals s)) eqn:Em; cbn [fst snd lifecycle_run lifecycle_step]; rewrite ?Ht; eexists; (split; [reflexivity|]).
        * split.
          -- destruct HJ. constructor; cbn [adapter next_remote next_local remotes locals]; try assumption.
             intros i Hi. apply J_loc0. unfold remove_n in Hi. apply filter_In in Hi. apply Hi.
          -- unfold ext. cbn [adapter next_remote next_local remotes]. repeat split; try lia; auto; [intros i p' H _; eauto|intros i _ H1 H2; contradiction].
        * split; [exact HJ|apply ext_refl].
      + unfold deregister_remote. destruct (find_remote id (remotes s)) as [p|] eqn:Ef; cbn [fst snd lifecycle_run lifecycle_step].
        * (* the entry exists: not removed before, not ended before *)
          rewrite Ht.
          assert (Hnr : mem_n id (removed st) = false).
          { destruct (mem_n id (removed st)) eqn:E; [|reflexivity]. apply mem_n_true in E.
            destruct (J_removed _ _ _ HJ _ E) as [Hn _]. congruence. }
          rewrite Hnr.
          assert (Hnd : phase_of id (ph st) <> Some Dead) by (intros Hd; rewrite (J_dead _ _ _ HJ _ Hd) in Ef; discriminate).
          assert (Hst : (match phase_of id (ph st) with
                         | Some Dead => None
                         | _ => Some {| ph := ph st; listeners := listeners st; removed := id :: removed st |}
                         end) = Some {| ph := ph st; listeners := listeners st; removed := id :: removed st |}).
          { destruct (phase_of id (ph st)) as [[| |]|]; try reflexivity. contradiction Hnd. reflexivity. }
          rewrite Hst. eexists. split; [reflexivity|]. split.
          -- pose proof (J_rem_issued _ _ _ HJ _ _ Ef) as Hiss.
             destruct HJ. constructor; cbn [with_remotes adapter next_remote next_local remotes locals ph listeners removed]; try assumption.
             ++ intros i q H. destruct (N.eq_dec i id) as [->|Hne]; [rewrite find_remove_same in H; discriminate|].
                rewrite find_remove_other in H by exact Hne. exact (J_rem_issued0 i q H).
             ++ intros i q H. destruct (N.eq_dec i id) as [->|Hne]; [rewrite find_remove_same in H; discriminate|].
                rewrite find_remove_other in H by exact Hne. apply J_entry0. exact H.
             ++ intros i [<-|Hi].
                ** split; [apply find_remove_same|exact Hiss].
                ** destruct (J_removed0 i Hi) as [Hn Hi']. split; [|exact Hi'].
                   destruct (N.eq_dec i id) as [->|Hne]; [apply find_remove_same|]. rewrite find_remove_other by exact Hne. exact Hn.
             ++ intros i Hd. destruct (N.eq_dec i id) as [->|Hne]; [apply find_remove_same|]. rewrite find_remove_other by exact Hne. apply J_dead0. exact Hd.
             ++ intros i Hl Hr. assert (Hne : i <> id) by (intros ->; apply Hr; left; reflexivity).
                rewrite find_remove_other by exact Hne. apply J_live0; [exact Hl|]. intros Hin. apply Hr. right. exact Hin.
          -- unfold ext. cbn [with_remotes adapter next_remote next_local remotes ph listeners removed]. repeat split; try lia; auto.
             ++ intros i Hi Hn. destruct (N.eq_dec i id) as [->|Hne]; [apply find_remove_same|]. rewrite find_remove_other by exact Hne. exact Hn.
             ++ intros i p' H _. destruct (N.eq_dec i id) as [->|Hne]; [rewrite find_remove_same in H; discriminate|].
                rewrite find_remove_other in H by exact Hne. eauto.
             ++ intros i Hi. right. exact Hi.
             ++ intros i _ H1 H2. destruct (N.eq_dec i id) as [->|Hne]; [left; reflexivity|]. rewrite find_remove_other in H2 by exact Hne. contradiction.
        * eexists. split; [reflexivity|]. split; [exact HJ|apply ext_refl].
    - (* is_ready *)
      cbn [cost_ucall]. rewrite N.sub_0_r.
      destruct (resource_type gen_layout id); cbn [fst snd lifecycle_run lifecycle_step]; eexists; (split; [reflexivity|]); (split; [exact HJ|apply ext_refl]).
  Qed.


  Lemma lifecycle_run_app st o1 o2 st1 :
    lifecycle_run st o1 = Some st1 -> lifecycle_run st (o1 ++ o2) = lifecycle_run st1 o2.
  Proof.
    revert st. induction o1 as [|o r IH]; intros st H; cbn [lifecycle_run app] in *; [inversion H; reflexivity|].
    destruct (lifecycle_step st o); [apply IH; exact H|discriminate].
  Qed.

  Lemma exec_ucalls_J cs : forall s st b,
    J s st b -> cost_ucalls cs <= b ->
    exists st', lifecycle_run st (snd (exec_ucalls s cs)) = Some st' /\
                J (fst (exec_ucalls s cs)) st' (b - cost_ucalls cs) /\ ext s (fst (exec_ucalls s cs)) st st'.
  Proof.
    induction cs as [|c r IH]; intros s st b HJ Hc; cbn [exec_ucalls cost_ucalls] in *.
    - exists st. rewrite N.sub_0_r. cbn. split; [reflexivity|]. split; [exact HJ|apply ext_refl].
    - destruct (exec_ucall_J s st b c HJ) as (st1 & H1 & J1 & E1); [lia|].
      destruct (exec_ucall s c) as [s1 o1]. cbn [fst snd] in *.
      destruct (IH s1 st1 (b - cost_ucall c) J1) as (st2 & H2 & J2 & E2); [lia|].
      destruct (exec_ucalls s1 r) as [s2 o2]. cbn [fst snd] in *.
      exists st2. split; [rewrite (lifecycle_run_app _ _ _ _ H1); exact H2|].
      split; [replace (b - (cost_ucall c + cost_ucalls r)) with (b - cost_ucall c - cost_ucalls r) by lia; exact J2|].
      eapply ext_trans; eauto.
  Qed.

  (* budget bookkeeping: J with a larger budget implies J with a smaller one *)
  Lemma J_weaken s st b b' : J s st b -> b' <= b -> J s st b'.
  Proof. intros H Hb. destruct H. constructor; try assumption; lia. Qed.


  (* ---- small state changes preserve J ---- *)
  Definition st_set (st : lstate) (id : rid) (p : phase) : lstate :=
    {| ph := set_phase id p (ph st); listeners := listeners st; removed := removed st |}.

  Lemma phase_set_same st id p : phase_of id (ph (st_set st id p)) = Some p.
  Proof. cbn. rewrite N.eqb_refl. reflexivity. Qed.

  Lemma phase_set_other st id p i : i <> id -> phase_of i (ph (st_set st id p)) = phase_of i (ph st).
  Proof. intros H. cbn. destruct (N.eqb_spec id i); [congruence|reflexivity]. Qed.

  Lemma live_set_other st id p i : i <> id -> live_phase (st_set st id p) i <-> live_phase st i.
  Proof. intros H. unfold live_phase. rewrite phase_set_other by exact H. reflexivity. Qed.

  (* the entry of a connection that was never announced (a failed inbound handshake) is dropped *)
  Lemma J_dereg_silent s st b id :
    J s st b -> phase_of id (ph st) = None -> J (with_remotes s (remove_remote id (remotes s))) st b.
  Proof.
    intros HJ Hnone. destruct HJ. constructor; cbn [with_remotes adapter next_remote next_local remotes locals]; try assumption.
    - intros i q H. destruct (N.eq_dec i id) as [->|Hne]; [rewrite find_remove_same in H; discriminate|].
      rewrite find_remove_other in H by exact Hne. exact (J_rem_issued0 i q H).
    - intros i q H. destruct (N.eq_dec i id) as [->|Hne]; [rewrite find_remove_same in H; discriminate|].
      rewrite find_remove_other in H by exact Hne. apply J_entry0. exact H.
    - intros i Hi. destruct (J_removed0 i Hi) as [Hn Hi']. split; [|exact Hi'].
      destruct (N.eq_dec i id) as [->|Hne]; [apply find_remove_same|]. rewrite find_remove_other by exact Hne. exact Hn.
    - intros i Hd. destruct (N.eq_dec i id) as [->|Hne]; [apply find_remove_same|]. rewrite find_remove_other by exact Hne. apply J_dead0. exact Hd.
    - intros i Hl Hr. destruct (N.eq_dec i id) as [->|Hne]; [unfold live_phase in Hl; rewrite Hnone in Hl; contradiction|].
      rewrite find_remove_other by exact Hne. apply J_live0; assumption.
  Qed.

  (* the end of a connection: its entry (if still there) is dropped and its phase becomes Dead *)
  Lemma J_dereg_end s st b id :
    J s st b -> issued_remote s id -> J (with_remotes s (remove_remote id (remotes s))) (st_set st id Dead) b.
  Proof.
    intros HJ Hi. destruct HJ. constructor; cbn [with_remotes adapter next_remote next_local remotes locals]; try assumption.
    - intros i q H. destruct (N.eq_dec i id) as [->|Hne]; [rewrite find_remove_same in H; discriminate|].
      rewrite find_remove_other in H by exact Hne. exact (J_rem_issued0 i q H).
    - intros i H. destruct (N.eq_dec i id) as [->|Hne]; [exact Hi|]. rewrite phase_set_other in H by exact Hne. exact (J_ph_issued0 i H).
    - intros i q H. destruct (N.eq_dec i id) as [->|Hne]; [rewrite find_remove_same in H; discriminate|].
      rewrite find_remove_other in H by exact Hne. rewrite phase_set_other by exact Hne. cbn [listeners st_set]. apply J_entry0. exact H.
    - intros i Hrm. cbn [removed st_set] in Hrm. destruct (J_removed0 i Hrm) as [Hn Hi']. split; [|exact Hi'].
      destruct (N.eq_dec i id) as [->|Hne]; [apply find_remove_same|]. rewrite find_remove_other by exact Hne. exact Hn.
    - intros i Hd. destruct (N.eq_dec i id) as [->|Hne]; [apply find_remove_same|].
      rewrite phase_set_other in Hd by exact Hne. rewrite find_remove_other by exact Hne. apply J_dead0. exact Hd.
    - intros i Hl Hr. cbn [removed st_set] in Hr. destruct (N.eq_dec i id) as [->|Hne].
      + unfold live_phase in Hl. rewrite phase_set_same in Hl. contradiction.
      + rewrite find_remove_other by exact Hne. apply J_live0; [apply (live_set_other st id Dead i Hne); exact Hl|exact Hr].
  Qed.

  (* an issued id that has no registry entry any more is marked Dead *)
  Lemma J_set_dead_noentry s st b id :
    J s st b -> issued_remote s id -> find_remote id (remotes s) = None -> J s (st_set st id Dead) b.
  Proof.
    intros HJ Hi Hn. destruct HJ. constructor; try assumption.
    - intros i H. destruct (N.eq_dec i id) as [->|Hne]; [exact Hi|]. rewrite phase_set_other in H by exact Hne. auto.
    - intros i q H. assert (Hne : i <> id) by (intros ->; congruence).
      rewrite phase_set_other by exact Hne. cbn [listeners st_set]. apply J_entry0. exact H.
    - intros i Hd. destruct (N.eq_dec i id) as [->|Hne]; [exact Hn|]. rewrite phase_set_other in Hd by exact Hne. apply J_dead0. exact Hd.
    - intros i Hl Hr. cbn [removed st_set] in Hr. destruct (N.eq_dec i id) as [->|Hne].
      + unfold live_phase in Hl. rewrite phase_set_same in Hl. contradiction.
      + apply J_live0; [apply (live_set_other st id Dead i Hne); exact Hl|exact Hr].
  Qed.

  (* mark ready + phase Est, whether or not the entry is still there *)
  Lemma J_set_ready s st b id peer :
    J s st b -> issued_remote s id ->
    (forall q, find_remote id (remotes s) = Some q -> r_peer q = peer) ->
    (find_remote id (remotes s) = None -> In id (removed st)) ->
    J (with_remotes s (set_ready id (remotes s))) (st_set st id (Est peer)) b.
  Proof.
    intros HJ Hi Hpeer Hgone. destruct HJ. constructor; cbn [with_remotes adapter next_remote next_local remotes locals]; try assumption.
    - intros i q H. destruct (N.eq_dec i id) as [->|Hne]; [exact Hi|].
      rewrite find_set_ready_other in H by exact Hne. exact (J_rem_issued0 i q H).
    - intros i H. destruct (N.eq_dec i id) as [->|Hne]; [exact Hi|]. rewrite phase_set_other in H by exact Hne. exact (J_ph_issued0 i H).
    - intros i q H. destruct (N.eq_dec i id) as [->|Hne].
      + destruct (find_remote id (remotes s)) as [q0|] eqn:Ef.
        * rewrite (find_set_ready_same _ _ _ Ef) in H. inversion H; subst. cbn [r_ready r_peer]. rewrite phase_set_same.
          rewrite (Hpeer q0 eq_refl). reflexivity.
        * rewrite (find_set_ready_none _ _ Ef) in H. discriminate.
      + rewrite find_set_ready_other in H by exact Hne. rewrite phase_set_other by exact Hne. cbn [listeners st_set]. apply J_entry0. exact H.
    - intros i Hrm. cbn [removed st_set] in Hrm. destruct (J_removed0 i Hrm) as [Hn Hi']. split; [|exact Hi'].
      destruct (N.eq_dec i id) as [->|Hne]; [apply find_set_ready_none; exact Hn|]. rewrite find_set_ready_other by exact Hne. exact Hn.
    - intros i Hd. destruct (N.eq_dec i id) as [->|Hne]; [rewrite phase_set_same in Hd; discriminate|].
      rewrite phase_set_other in Hd by exact Hne. rewrite find_set_ready_other by exact Hne. apply J_dead0. exact Hd.
    - intros i Hl Hr. cbn [removed st_set] in Hr. destruct (N.eq_dec i id) as [->|Hne].
      + destruct (find_remote id (remotes s)) as [q0|] eqn:Ef; [rewrite (find_set_ready_same _ _ _ Ef); discriminate|].
        exfalso. apply Hr. apply Hgone. reflexivity.
      + rewrite find_set_ready_other by exact Hne. apply J_live0; [apply (live_set_other st id (Est peer) i Hne); exact Hl|exact Hr].
  Qed.

  Lemma ext_find_same s s' st st' id p :
    ext s s' st st' -> issued_remote s id -> find_remote id (remotes s) = Some p ->
    forall q, find_remote id (remotes s') = Some q -> q = p.
  Proof.
    intros (_ & _ & _ & _ & _ & _ & G & _) Hi Hf q Hq. destruct (G id q Hq Hi) as (p0 & Hp0 & ->). congruence.
  Qed.

  Lemma ext_issued s s' st st' id : ext s s' st st' -> issued_remote s id -> issued_remote s' id.
  Proof. intros (A & B & _) H. eapply issued_remote_mono; eauto. Qed.

  Lemma ext_phase s s' st st' id : ext s s' st st' -> issued_remote s id -> phase_of id (ph st') = phase_of id (ph st).
  Proof. intros (_ & _ & _ & D & _) H. auto. Qed.

  Lemma ext_gone s s' st st' id :
    ext s s' st st' -> issued_remote s id -> find_remote id (remotes s) <> None -> find_remote id (remotes s') = None -> In id (removed st').
  Proof. intros (_ & _ & _ & _ & _ & _ & _ & _ & X) H1 H2 H3. exact (X id H1 H2 H3). Qed.

  Lemma ext_removed s s' st st' id : ext s s' st st' -> In id (removed st) -> In id (removed st').
  Proof. intros (_ & _ & _ & _ & _ & _ & _ & R & _) H. exact (R id H). Qed.

  Lemma ext_listener s s' st st' l : ext s s' st st' -> In l (listeners st) -> In l (listeners st').
  Proof. intros (_ & _ & _ & _ & E & _) H. auto. Qed.

  (* Message events of an established connection, with arbitrary user calls in between *)
  Lemma deliver_chunks_J chunks : forall s st b id peer,
    J s st b -> cost_chunks chunks <= b -> issued_remote s id -> resource_type gen_layout id = Remote ->
    phase_of id (ph st) = Some (Est peer) ->
    exists st', lifecycle_run st (snd (deliver_chunks s (id, peer) chunks)) = Some st' /\
                J (fst (deliver_chunks s (id, peer) chunks)) st' (b - cost_chunks chunks) /\
                ext s (fst (deliver_chunks s (id, peer) chunks)) st st'.
  Proof.
    induction chunks as [|[d cb] r IH]; intros s st b id peer HJ Hc Hi Ht Hp; cbn [deliver_chunks cost_chunks] in *.
    - exists st. rewrite N.sub_0_r. cbn. split; [reflexivity|]. split; [exact HJ|apply ext_refl].
    - destruct (exec_ucalls_J cb s st b HJ) as (st1 & H1 & J1 & E1); [lia|].
      destruct (exec_ucalls s cb) as [s1 o1]. cbn [fst snd] in *.
      destruct (IH s1 st1 (b - cost_ucalls cb) id peer J1) as (st2 & H2 & J2 & E2); try lia.
      + eapply ext_issued; eauto.
      + exact Ht.
      + rewrite (ext_phase _ _ _ _ _ E1 Hi). exact Hp.
      + destruct (deliver_chunks s1 (id, peer) r) as [s2 o2]. cbn [fst snd] in *.
        exists st2. split.
        * cbn [lifecycle_run lifecycle_step]. rewrite Ht, Hp, N.eqb_refl. rewrite (lifecycle_run_app _ _ _ _ H1). exact H2.
        * split; [replace (b - (cost_ucalls cb + cost_chunks r)) with (b - cost_ucalls cb - cost_chunks r) by lia; exact J2|].
          eapply ext_trans; eauto.
  Qed.


  Lemma J_register_accept s st b peer lid :
    J s st b -> 1 <= b -> In lid (listeners st) ->
    J (fst (register_remote s peer (Some lid))) st (b - 1) /\ ext s (fst (register_remote s peer (Some lid))) st st.
  Proof.
    intros HJ Hb Hl. destruct consts_gen as (G1 & G0 & Gm). pose proof (J_bound _ _ _ HJ) as Hbd.
    unfold register_remote. cbn [fst].
    set (nid := mk (adapter s) Remote (next_remote s)).
    assert (Hfresh : ~ issued_remote s nid) by (apply fresh_remote_not_issued; [exact Hbd|destruct HJ; lia]).
    assert (Hph : phase_of nid (ph st) = None).
    { destruct (phase_of nid (ph st)) eqn:E; [|reflexivity]. exfalso. apply Hfresh. apply (J_ph_issued _ _ _ HJ). congruence. }
    assert (Hnext : (next_remote s + GEN_STEP) mod USIZE_MOD = next_remote s + 1).
    { rewrite G1. apply N.mod_small. destruct HJ. lia. }
    rewrite Hnext.
    assert (Hmono : forall i, issued_remote s i -> issued_remote {| remotes := (nid, {| r_peer := peer; r_local := Some lid; r_ready := false |}) :: remotes s;
               locals := locals s; next_remote := next_remote s + 1; next_local := next_local s; adapter := adapter s |} i).
    { intros i. apply issued_remote_mono; cbn; [reflexivity|lia]. }
    split.
    - destruct HJ. constructor; cbn [adapter next_remote next_local remotes locals]; try assumption; try lia.
      + intros i p. cbn [find_remote]. destruct (N.eqb_spec nid i) as [<-|Hne].
        * intros _. exists (next_remote s). cbn. split; [lia|reflexivity].
        * intros H. apply Hmono. eapply J_rem_issued0; eauto.
      + intros i H. apply Hmono. auto.
      + intros i p. cbn [find_remote]. destruct (N.eqb_spec nid i) as [<-|Hne].
        * intros H. inversion H; subst. cbn. split; assumption.
        * intros H. apply J_entry0. exact H.
      + intros i Hrm. destruct (J_removed0 i Hrm) as [Hn Hiss]. split; [|apply Hmono; exact Hiss].
        cbn [find_remote]. destruct (N.eqb_spec nid i) as [<-|Hne]; [contradiction|exact Hn].
      + intros i Hd. cbn [find_remote]. destruct (N.eqb_spec nid i) as [<-|Hne]; [rewrite Hph in Hd; discriminate|]. apply J_dead0. exact Hd.
      + intros i Hlv Hr. cbn [find_remote]. destruct (N.eqb_spec nid i) as [Heq|Hne]; [discriminate|]. apply J_live0; [exact Hlv|exact Hr].
    - unfold ext. cbn [adapter next_remote next_local remotes]. repeat split; try lia; auto.
      + intros i Hi Hn. cbn [find_remote]. destruct (N.eqb_spec nid i) as [<-|Hne]; [contradiction|exact Hn].
      + intros i p'. cbn [find_remote]. destruct (N.eqb_spec nid i) as [<-|Hne]; [intros _ Hi; contradiction|]. intros H _. eauto.
      + intros i Hi H1. cbn [find_remote]. destruct (N.eqb_spec nid i) as [Heq|Hne]; [discriminate|]. intros H2. contradiction.
  Qed.

  Lemma do_accepts_J items : forall s st b lid,
    J s st b -> cost_accepts items <= b -> In lid (listeners st) -> resource_type gen_layout lid = Local ->
    exists st', lifecycle_run st (snd (do_accepts s lid items)) = Some st' /\
                J (fst (do_accepts s lid items)) st' (b - cost_accepts items).
  Proof.
    induction items as [|it r IH]; intros s st b lid HJ Hc Hl Ht; cbn [do_accepts cost_accepts] in *.
    - exists st. rewrite N.sub_0_r. cbn. split; [reflexivity|exact HJ].
    - destruct it as [peer|peer d cb].
      + destruct (J_register_accept s st b peer lid HJ) as (J1 & E1); [lia|exact Hl|].
        destruct (register_remote s peer (Some lid)) as [s1 nid]. cbn [fst] in *.
        destruct (IH s1 st (b - 1) lid J1) as (st2 & H2 & J2); [lia|exact Hl|exact Ht|].
        exists st2. split; [exact H2|]. replace (b - (1 + cost_accepts r)) with (b - 1 - cost_accepts r) by lia. exact J2.
      + destruct (exec_ucalls_J cb s st b HJ) as (st1 & H1 & J1 & E1); [lia|].
        destruct (exec_ucalls s cb) as [s1 o1]. cbn [fst snd] in *.
        destruct (IH s1 st1 (b - cost_ucalls cb) lid J1) as (st2 & H2 & J2); [lia|eapply ext_listener; eauto|exact Ht|].
        destruct (do_accepts s1 lid r) as [s2 o2]. cbn [fst snd] in *.
        exists st2. split.
        * cbn [lifecycle_run lifecycle_step]. rewrite Ht.
          replace (mem_n lid (listeners st)) with true by (symmetry; apply mem_n_true; exact Hl).
          rewrite (lifecycle_run_app _ _ _ _ H1). exact H2.
        * replace (b - (cost_ucalls cb + cost_accepts r)) with (b - cost_ucalls cb - cost_accepts r) by lia. exact J2.
  Qed.


  Lemma lifecycle_run_app3 st o1 o2 st1 st2 :
    lifecycle_run st o1 = Some st1 -> lifecycle_run st1 o2 = Some st2 -> lifecycle_run st (o1 ++ o2) = Some st2.
  Proof. intros H1 H2. rewrite (lifecycle_run_app _ _ _ _ H1). exact H2. Qed.

  Definition phase_matches (st : lstate) (id : rid) (p : rprops) : Prop :=
    match r_ready p, r_local p with
    | true, _ => phase_of id (ph st) = Some (Est (r_peer p))
    | false, None => phase_of id (ph st) = Some (PendingC (r_peer p))
    | false, Some l => phase_of id (ph st) = None /\ In l (listeners st)
    end.

  Lemma resolve_pending_J s0 st0 b0 id p a :
    J s0 st0 b0 -> cost_ucalls (a_cb_conn a) <= b0 -> issued_remote s0 id ->
    phase_matches st0 id p -> (forall q, find_remote id (remotes s0) = Some q -> q = p) ->
    (find_remote id (remotes s0) = None -> In id (removed st0)) ->
    exists st1, lifecycle_run st0 (snd (fst (resolve_pending s0 id p a))) = Some st1 /\
                J (fst (fst (resolve_pending s0 id p a))) st1 (b0 - cost_ucalls (a_cb_conn a)) /\
                issued_remote (fst (fst (resolve_pending s0 id p a))) id /\
                (snd (resolve_pending s0 id p a) = true -> phase_of id (ph st1) = Some (Est (r_peer p))).
  Proof.
    intros J0 Hc Hiss0 Hpm0 Hsame0 Hgone0. unfold resolve_pending, phase_matches in *. cbv zeta.
    destruct (r_ready p) eqn:Er.
    - exists st0. cbn [fst snd]. split; [reflexivity|]. split; [eapply J_weaken; [exact J0|lia]|]. split; [exact Hiss0|]. intros _. exact Hpm0.
    - destruct (a_pending a).
      + (* Ready: Connected(true) / Accepted *)
        assert (Hpeer : forall q, find_remote id (remotes s0) = Some q -> r_peer q = r_peer p) by (intros q Hq; rewrite (Hsame0 q Hq); reflexivity).
        pose proof (J_set_ready s0 st0 b0 id (r_peer p) J0 Hiss0 Hpeer Hgone0) as J0'.
        destruct (exec_ucalls_J (a_cb_conn a) _ _ b0 J0') as (st1 & H1 & J1 & E1); [lia|].
        destruct (exec_ucalls (with_remotes s0 (set_ready id (remotes s0))) (a_cb_conn a)) as [s1 o1]. cbn [fst snd] in *.
        assert (Hiss' : issued_remote (with_remotes s0 (set_ready id (remotes s0))) id) by exact Hiss0.
        exists st1. split.
        * cbn [lifecycle_run lifecycle_step]. destruct (r_local p) as [l|].
          -- destruct Hpm0 as [Hn Hl]. rewrite Hn. replace (mem_n l (listeners st0)) with true by (symmetry; apply mem_n_true; exact Hl). exact H1.
          -- rewrite Hpm0, N.eqb_refl. exact H1.
        * split; [exact J1|]. split; [eapply ext_issued; eauto|]. intros _.
          rewrite (ext_phase _ _ _ _ _ E1 Hiss'). apply phase_set_same.
      + exists st0. cbn [fst snd]. split; [reflexivity|]. split; [eapply J_weaken; [exact J0|lia]|]. split; [exact Hiss0|discriminate].
      + (* Disconnected while pending *)
        assert (Hdereg : fst (deregister_remote s0 id) = with_remotes s0 (remove_remote id (remotes s0)) \/
                         (fst (deregister_remote s0 id) = s0 /\ find_remote id (remotes s0) = None)).
        { unfold deregister_remote. destruct (find_remote id (remotes s0)) eqn:Ef0; cbn [fst]; [left; reflexivity|right; split; reflexivity]. }
        destruct (r_local p) as [l|].
        * (* an accepted connection that never became ready: dropped silently *)
          destruct Hpm0 as [Hnone _].
          assert (Jd : J (fst (deregister_remote s0 id)) st0 b0).
          { destruct Hdereg as [->|[-> _]]; [apply J_dereg_silent; assumption|exact J0]. }
          assert (Hissd : issued_remote (fst (deregister_remote s0 id)) id) by (destruct Hdereg as [->|[-> _]]; exact Hiss0).
          destruct (deregister_remote s0 id) as [sd won]. cbn [fst snd] in *.
          exists st0. split; [reflexivity|]. split; [eapply J_weaken; [exact Jd|lia]|]. split; [exact Hissd|discriminate].
        * (* an explicit connect that failed: Connected(_, false) *)
          assert (Jd' : J (fst (deregister_remote s0 id)) (st_set st0 id Dead) b0).
          { destruct Hdereg as [->|[-> Hn]]; [apply J_dereg_end; assumption|apply J_set_dead_noentry; assumption]. }
          assert (Hissd : issued_remote (fst (deregister_remote s0 id)) id) by (destruct Hdereg as [->|[-> _]]; exact Hiss0).
          destruct (deregister_remote s0 id) as [sd won]. cbn [fst snd] in *.
          destruct (exec_ucalls_J (a_cb_conn a) _ _ b0 Jd') as (st1 & H1 & J1 & E1); [lia|].
          destruct (exec_ucalls sd (a_cb_conn a)) as [s1 o1]. cbn [fst snd] in *.
          exists st1. split.
          -- cbn [lifecycle_run lifecycle_step]. rewrite Hpm0, N.eqb_refl. exact H1.
          -- split; [exact J1|]. split; [eapply ext_issued; eauto|discriminate].
  Qed.

  Lemma read_from_remote_J s1 st1 b1 id p a :
    J s1 st1 b1 -> cost_chunks (a_chunks a) + cost_ucalls (a_race a) + cost_ucalls (a_cb_disc a) <= b1 ->
    issued_remote s1 id -> resource_type gen_layout id = Remote ->
    phase_of id (ph st1) = Some (Est (r_peer p)) ->
    exists st', lifecycle_run st1 (snd (read_from_remote s1 id p a)) = Some st' /\
                J (fst (read_from_remote s1 id p a)) st' (b1 - (cost_chunks (a_chunks a) + cost_ucalls (a_race a) + cost_ucalls (a_cb_disc a))).
  Proof.
    intros J1 Hc Hiss1 Ht Hready. unfold read_from_remote. cbv zeta.
    destruct (deliver_chunks_J (a_chunks a) s1 st1 b1 id (r_peer p) J1) as (st2 & H2 & J2 & E2); try assumption; [lia|].
    destruct (deliver_chunks s1 (id, r_peer p) (a_chunks a)) as [s2 o2]. cbn [fst snd] in *.
    pose proof (ext_issued _ _ _ _ _ E2 Hiss1) as Hiss2.
    assert (Hp2 : phase_of id (ph st2) = Some (Est (r_peer p))) by (rewrite (ext_phase _ _ _ _ _ E2 Hiss1); exact Hready).
    set (b2 := b1 - cost_chunks (a_chunks a)) in *.
    destruct (a_read a).
    - destruct (exec_ucalls_J (a_race a) s2 st2 b2 J2) as (st3 & H3 & J3 & E3); [unfold b2; lia|].
      destruct (exec_ucalls s2 (a_race a)) as [s3 o3]. cbn [fst snd] in *.
      pose proof (ext_issued _ _ _ _ _ E3 Hiss2) as Hiss3.
      assert (Hp3 : phase_of id (ph st3) = Some (Est (r_peer p))) by (rewrite (ext_phase _ _ _ _ _ E3 Hiss2); exact Hp2).
      set (b3 := b2 - cost_ucalls (a_race a)) in *.
      unfold deregister_remote. destruct (find_remote id (remotes s3)) as [q|] eqn:Ef3.
      + assert (J4 : J (with_remotes s3 (remove_remote id (remotes s3))) (st_set st3 id Dead) b3).
        { apply J_dereg_end; [exact J3|exact Hiss3]. }
        destruct (exec_ucalls_J (a_cb_disc a) _ _ b3 J4) as (st5 & H5 & J5 & E5); [unfold b3, b2; lia|].
        destruct (exec_ucalls (with_remotes s3 (remove_remote id (remotes s3))) (a_cb_disc a)) as [s5 o5]. cbn [fst snd] in *.
        exists st5. split.
        * eapply lifecycle_run_app3; [exact H2|]. eapply lifecycle_run_app3; [exact H3|].
          cbn [lifecycle_run lifecycle_step]. rewrite Hp3, N.eqb_refl.
          assert (Hnr : mem_n id (removed st3) = false).
          { destruct (mem_n id (removed st3)) eqn:E; [|reflexivity]. apply mem_n_true in E.
            destruct (J_removed _ _ _ J3 _ E) as [Hn _]. congruence. }
          rewrite Hnr. cbn [andb negb]. exact H5.
        * eapply J_weaken; [exact J5|]. unfold b3, b2. lia.
      + exists st3. cbn [fst snd]. split.
        * eapply lifecycle_run_app3; [exact H2|exact H3].
        * eapply J_weaken; [exact J3|]. unfold b3, b2. lia.
    - exists st2. cbn [fst snd]. split; [exact H2|]. eapply J_weaken; [exact J2|]. unfold b2. lia.
  Qed.

  (* one poll event handed to the driver, any adapter answer, any user code in the callbacks *)
  Lemma process_J s st b id rd a :
    J s st b -> cost_answer a <= b ->
    exists st', lifecycle_run st (snd (process s id rd a)) = Some st' /\
                J (fst (process s id rd a)) st' (b - cost_answer a).
  Proof.
    intros HJ Hc. unfold cost_answer in Hc. unfold process.
    destruct (resource_type gen_layout id) eqn:Ht.
    - (* a listener *)
      destruct (mem_n id (locals s)) eqn:Em; [|exists st; cbn; split; [reflexivity|eapply J_weaken; [exact HJ|lia]]].
      destruct rd; [|exists st; cbn; split; [reflexivity|eapply J_weaken; [exact HJ|lia]]].
      apply mem_n_true in Em.
      destruct (do_accepts_J (a_accepts a) s st b id HJ) as (st' & H1 & J1); [lia|exact (J_loc _ _ _ HJ _ Em)|exact Ht|].
      exists st'. split; [exact H1|]. eapply J_weaken; [exact J1|]. unfold cost_answer. lia.
    - (* a connection *)
      destruct (find_remote id (remotes s)) as [p|] eqn:Ef; [|exists st; cbn; split; [reflexivity|eapply J_weaken; [exact HJ|lia]]].
      pose proof (J_rem_issued _ _ _ HJ _ _ Ef) as Hiss.
      assert (Hpm : phase_matches st id p) by (unfold phase_matches; exact (J_entry _ _ _ HJ _ _ Ef)).
      destruct (exec_ucalls_J (a_race0 a) s st b HJ) as (st0 & H0 & J0 & E0); [lia|].
      destruct (exec_ucalls s (a_race0 a)) as [s0 o0]. cbn [fst snd] in *.
      pose proof (ext_issued _ _ _ _ _ E0 Hiss) as Hiss0.
      assert (Hpm0 : phase_matches st0 id p).
      { unfold phase_matches in *. rewrite (ext_phase _ _ _ _ _ E0 Hiss). destruct (r_ready p); [exact Hpm|].
        destruct (r_local p); [|exact Hpm]. destruct Hpm. split; [assumption|eapply ext_listener; eauto]. }
      assert (Hsame0 : forall q, find_remote id (remotes s0) = Some q -> q = p) by (eapply ext_find_same; eauto).
      set (b0 := b - cost_ucalls (a_race0 a)) in *.
      assert (Hgone0 : find_remote id (remotes s0) = None -> In id (removed st0)).
      { intros Hn. apply (ext_gone _ _ _ _ _ E0 Hiss); [congruence|exact Hn]. }
      destruct (resolve_pending_J s0 st0 b0 id p a J0) as (st1 & H1 & J1 & Hiss1 & Hready); try assumption; [unfold b0; lia|].
      destruct (resolve_pending s0 id p a) as [[s1 o1] ready]. cbn [fst snd] in *.
      set (b1 := b0 - cost_ucalls (a_cb_conn a)) in *.
      destruct ready.
      + specialize (Hready eq_refl).
        assert (Hread : exists st', lifecycle_run st (o0 ++ o1 ++ snd (read_from_remote s1 id p a)) = Some st' /\
                                    J (fst (read_from_remote s1 id p a)) st' (b - cost_answer a)).
        { destruct (read_from_remote_J s1 st1 b1 id p a J1) as (st2 & H2 & J2); try assumption; [unfold b1, b0; lia|].
          exists st2. split.
          - eapply lifecycle_run_app3; [exact H0|]. eapply lifecycle_run_app3; [exact H1|exact H2].
          - eapply J_weaken; [exact J2|]. unfold b1, b0, cost_answer. lia. }
        destruct rd.
        * destruct Hread as (st2 & H2 & J2). destruct (read_from_remote s1 id p a) as [s2 o2]. cbn [fst snd] in *. eauto.
        * destruct (r_ready p).
          -- exists st1. cbn [fst snd]. split; [eapply lifecycle_run_app3; [exact H0|exact H1]|].
             eapply J_weaken; [exact J1|]. unfold b1, b0, cost_answer. lia.
          -- destruct Hread as (st2 & H2 & J2). destruct (read_from_remote s1 id p a) as [s2 o2]. cbn [fst snd] in *. eauto.
      + exists st1. cbn [fst snd]. split; [eapply lifecycle_run_app3; [exact H0|exact H1]|].
        eapply J_weaken; [exact J1|]. unfold b1, b0, cost_answer. lia.
  Qed.

  (* C03: every trace of the driver, for any script whatsoever, satisfies the lifecycle automaton *)
  Lemma drun_J ls : forall s st b,
    J s st b -> cost_labels ls <= b ->
    exists st', lifecycle_run st (snd (drun s ls)) = Some st' /\ J (fst (drun s ls)) st' (b - cost_labels ls).
  Proof.
    induction ls as [|l r IH]; intros s st b HJ Hc; cbn [drun cost_labels] in *.
    - exists st. rewrite N.sub_0_r. cbn. split; [reflexivity|exact HJ].
    - assert (H1 : exists st1, lifecycle_run st (snd (dstep s l)) = Some st1 /\ J (fst (dstep s l)) st1 (b - cost_label l)).
      { destruct l as [c|id rd a]; cbn [dstep cost_label] in *.
        - destruct (exec_ucall_J s st b c HJ) as (st1 & H1 & J1 & _); [lia|]. eauto.
        - apply process_J; [exact HJ|lia]. }
      destruct H1 as (st1 & H1 & J1). destruct (dstep s l) as [s1 o1]. cbn [fst snd] in *.
      destruct (IH s1 st1 (b - cost_label l) J1) as (st2 & H2 & J2); [lia|].
      destruct (drun s1 r) as [s2 o2]. cbn [fst snd] in *.
      exists st2. split; [eapply lifecycle_run_app3; eauto|].
      replace (b - (cost_label l + cost_labels r)) with (b - cost_label l - cost_labels r) by lia. exact J2.
  Qed.

  Theorem lifecycle_regular a ls :
    a <= max_adapter gen_layout -> cost_labels ls <= max_base gen_layout + 1 ->
    lifecycle_ok_b (snd (drun (dinit a) ls)) = true.
  Proof.
    intros Ha Hc. unfold lifecycle_ok_b.
    destruct (drun_J ls (dinit a) {| ph := []; listeners := []; removed := [] |} (max_base gen_layout + 1)) as (st' & H & _).
    - apply J_init; [exact Ha|lia].
    - exact Hc.
    - rewrite H. reflexivity.
  Qed.


  (* ---- C04: a connection ends at most once: (successful removes) + (Disconnected events) <= 1 ---- *)
  Definition ended (st : lstate) (id : rid) : bool :=
    mem_n id (removed st) || match phase_of id (ph st) with Some Dead => true | _ => false end.

  Lemma phase_set_cases id p m i : phase_of i (set_phase id p m) = if id =? i then Some p else phase_of i m.
  Proof. reflexivity. Qed.

  Lemma lifecycle_step_ends st o st' id :
    resource_type gen_layout id = Remote ->
    lifecycle_step st o = Some st' ->
    (ends_of id o = 1%nat -> ended st id = false /\ ended st' id = true) /\
    (ends_of id o = 0%nat \/ ends_of id o = 1%nat) /\
    (ended st id = true -> ended st' id = true).
  Proof.
    intros Ht H. unfold ended.
    destruct o as [[[i peer] ok|[i peer] l|[i peer] d|[i peer]]|c r|i len|i to len].
    - (* Connected *) cbn [lifecycle_step ends_of] in *. destruct (phase_of i (ph st)) as [[p|p|]|] eqn:Ep; try discriminate H.
      destruct (p =? peer); [|discriminate H]. inversion H; subst. cbn [ph removed]. rewrite phase_set_cases.
      split; [discriminate|]. split; [left; reflexivity|]. destruct (N.eqb_spec i id) as [->|Hne]; [rewrite Ep|]; intros Hx; [|exact Hx].
      rewrite orb_false_r in Hx. rewrite Hx. reflexivity.
    - (* Accepted *) cbn [lifecycle_step ends_of] in *. destruct (phase_of i (ph st)) eqn:Ep; [discriminate H|]. destruct (mem_n l (listeners st)); [|discriminate H].
      inversion H; subst. cbn [ph removed]. rewrite phase_set_cases.
      split; [discriminate|]. split; [left; reflexivity|]. destruct (N.eqb_spec i id) as [->|Hne]; [rewrite Ep|]; intros Hx; [|exact Hx].
      rewrite orb_false_r in Hx. rewrite Hx. reflexivity.
    - (* Message *) cbn [lifecycle_step ends_of] in *. assert (st' = st).
      { destruct (resource_type gen_layout i); [destruct (mem_n i (listeners st)); inversion H; reflexivity|].
        destruct (phase_of i (ph st)) as [[p|p|]|]; try discriminate H. destruct (p =? peer); inversion H; reflexivity. }
      subst. split; [discriminate|]. split; [left; reflexivity|auto].
    - (* Disconnected *)
      cbn [lifecycle_step ends_of] in *. destruct (phase_of i (ph st)) as [[p|p|]|] eqn:Ep; try discriminate H.
      destruct ((p =? peer) && negb (mem_n i (removed st))) eqn:Ec; [|discriminate H]. inversion H; subst. cbn [ph removed].
      apply andb_prop in Ec. destruct Ec as [_ Enr]. apply negb_true_iff in Enr. rewrite phase_set_cases.
      destruct (N.eqb_spec i id) as [->|Hne].
      + split; [intros _; rewrite Enr, Ep; split; [reflexivity|apply orb_true_r]|]. split; [right; reflexivity|]. intros _. apply orb_true_r.
      + split; [discriminate|]. split; [left; reflexivity|auto].
    - (* a return value *)
      destruct r as [[[i2 p2]|]|[i2|]|s0|[|]|r0].
      + (* RConnect (Some _): a fresh id gets its phase *)
        destruct c; cbn [lifecycle_step ends_of] in *;
          (destruct (phase_of i2 (ph st)) eqn:Ep; [discriminate H|]); inversion H; subst; cbn [ph removed]; rewrite phase_set_cases;
          (split; [discriminate|]); (split; [left; reflexivity|]);
          (destruct (N.eqb_spec i2 id) as [->|Hne]; [rewrite Ep|]; intros Hx; [|exact Hx]);
          rewrite orb_false_r in Hx; rewrite Hx; reflexivity.
      + destruct c; cbn [lifecycle_step ends_of] in *; inversion H; subst; (split; [discriminate|]); (split; [left; reflexivity|auto]).
      + destruct c; cbn [lifecycle_step ends_of] in *; (destruct (mem_n i2 (listeners st)); [discriminate H|]); inversion H; subst; cbn [ph removed];
          (split; [discriminate|]); (split; [left; reflexivity|auto]).
      + destruct c; cbn [lifecycle_step ends_of] in *; inversion H; subst; (split; [discriminate|]); (split; [left; reflexivity|auto]).
      + destruct c; cbn [lifecycle_step ends_of] in *; inversion H; subst; (split; [discriminate|]); (split; [left; reflexivity|auto]).
      + (* RRemove true *)
        destruct c as [ok0 peer0|ok0|ep0 len0 ans0|i|i];
          try (cbn [ends_of lifecycle_step] in *; inversion H; subst; split; [discriminate|]; split; [left; reflexivity|auto]; fail).
        cbn [ends_of lifecycle_step] in *.
        destruct (N.eqb_spec i id) as [->|Hne].
        * rewrite Ht in H. destruct (mem_n id (removed st)) eqn:Er; [discriminate H|].
          destruct (phase_of id (ph st)) as [[p|p|]|] eqn:Ep; try discriminate H; inversion H; subst; cbn [ph removed mem_n existsb];
            rewrite N.eqb_refl, ?Ep; cbn [orb]; (split; [intros _; split; reflexivity|]); (split; [right; reflexivity|auto]).
        * split; [discriminate|]. split; [left; reflexivity|].
          destruct (resource_type gen_layout i); [inversion H; subst; auto|].
          destruct (mem_n i (removed st)); [discriminate H|].
          destruct (phase_of i (ph st)) as [[p|p|]|]; try discriminate H; inversion H; subst; cbn [ph removed mem_n existsb];
            (destruct (N.eqb_spec id i); [congruence|]); cbn [orb]; auto.
      + destruct c; cbn [lifecycle_step ends_of] in *; inversion H; subst; (split; [discriminate|]); (split; [left; reflexivity|auto]).
      + destruct c; cbn [lifecycle_step ends_of] in *; inversion H; subst; (split; [discriminate|]); (split; [left; reflexivity|auto]).
    - cbn [lifecycle_step ends_of] in *. inversion H; subst. split; [discriminate|]. split; [left; reflexivity|auto].
    - cbn [lifecycle_step ends_of] in *. inversion H; subst. split; [discriminate|]. split; [left; reflexivity|auto].
  Qed.

  Lemma lifecycle_run_ends tr : forall st st' id,
    resource_type gen_layout id = Remote -> lifecycle_run st tr = Some st' ->
    (count_ends id tr + (if ended st id then 1 else 0) <= 1)%nat /\
    (ended st id = true -> ended st' id = true) /\
    (count_ends id tr = 1%nat -> ended st' id = true).
  Proof.
    induction tr as [|o r IH]; intros st st' id Ht H; cbn [lifecycle_run count_ends fold_right] in *.
    - inversion H; subst. split; [destruct (ended st' id); lia|]. split; [auto|discriminate].
    - destruct (lifecycle_step st o) as [st1|] eqn:Es; [|discriminate H].
      destruct (lifecycle_step_ends _ _ _ id Ht Es) as (H1 & H01 & Hmono).
      destruct (IH st1 st' id Ht H) as (Hb & Hm & Hc). fold (count_ends id r) in *.
      destruct H01 as [E0|E1].
      + rewrite E0. cbn [Nat.add]. split.
        * destruct (ended st id) eqn:Ee; [rewrite (Hmono eq_refl) in Hb; lia|destruct (ended st1 id); lia].
        * split; [intros He; apply Hm; apply Hmono; exact He|exact Hc].
      + rewrite E1. destruct (H1 E1) as [Hf Ht1]. rewrite Hf, Ht1 in *. split; [lia|]. split; [discriminate|]. intros _. apply Hm. reflexivity.
  Qed.

  Theorem end_exactly_once a ls id :
    a <= max_adapter gen_layout -> cost_labels ls <= max_base gen_layout + 1 ->
    resource_type gen_layout id = Remote ->
    (count_ends id (snd (drun (dinit a) ls)) <= 1)%nat /\
    (* and once it has ended the registry has forgotten it: send / is_ready / remove see nothing *)
    (count_ends id (snd (drun (dinit a) ls)) = 1%nat -> find_remote id (remotes (fst (drun (dinit a) ls))) = None).
  Proof.
    intros Ha Hc Ht.
    destruct (drun_J ls (dinit a) {| ph := []; listeners := []; removed := [] |} (max_base gen_layout + 1)) as (st' & H & HJ);
      [apply J_init; [exact Ha|lia]|exact Hc|].
    destruct (lifecycle_run_ends _ _ _ id Ht H) as (Hb & _ & He). split; [cbn in Hb; lia|].
    intros H1. specialize (He H1). unfold ended in He. apply orb_prop in He. destruct He as [He|He].
    - apply mem_n_true in He. exact (proj1 (J_removed _ _ _ HJ _ He)).
    - destruct (phase_of id (ph st')) as [[| |]|] eqn:Ep; try discriminate He. exact (J_dead _ _ _ HJ _ Ep).
  Qed.

  (* ---- connect_sync: what is_ready() answers, against what the trace says about the connection ---- *)
  Definition R (id : rid) (st : lstate) (m : summ) : Prop :=
    mem_n id (removed st) = c_removed m /\
    match phase_of id (ph st) with
    | None => c_issued m = false /\ c_est m = false /\ c_failed m = false /\ c_disc m = false /\ c_acc m = false
    | Some (PendingC _) => c_issued m = true /\ c_est m = false /\ c_failed m = false /\ c_disc m = false /\ c_acc m = false
    | Some (Est _) => c_failed m = false /\ c_disc m = false /\ c_est m = c_issued m /\ c_acc m = negb (c_issued m)
    | Some Dead => c_acc m = negb (c_issued m) /\
                   ((c_failed m = true /\ c_est m = false /\ c_disc m = false /\ c_issued m = true) \/
                    (c_disc m = true /\ c_failed m = false /\ c_est m = c_issued m))
    end.

  Ltac rfin := cbn [c_issued c_est c_failed c_disc c_removed c_acc negb ph removed] in *; intuition (try congruence); repeat match goal with H : _ = true |- _ => rewrite H in * | H : _ = false |- _ => rewrite H in * end; cbn [negb] in *; try congruence; try reflexivity.

  Lemma R_step id st m o st' :
    resource_type gen_layout id = Remote -> R id st m -> lifecycle_step st o = Some st' -> R id st' (summ_step id m o).
  Proof.
    intros Ht [Hr Hp] H. unfold R.
    destruct o as [[[i peer] ok|[i peer] l|[i peer] d|[i peer]]|c r|i len|i to len]; cbn [lifecycle_step summ_step] in *.
    - (* Connected *)
      destruct (phase_of i (ph st)) as [[p|p|]|] eqn:Ep; try discriminate H.
      destruct (p =? peer); [|discriminate H]. inversion H; subst; clear H. cbn [ph removed]. rewrite phase_set_cases.
      destruct (N.eqb_spec i id) as [->|Hne]; [rewrite Ep in Hp; destruct ok; rfin|rfin].
    - (* Accepted *)
      destruct (phase_of i (ph st)) eqn:Ep; [discriminate H|]. destruct (mem_n l (listeners st)); [|discriminate H].
      inversion H; subst; clear H. cbn [ph removed]. rewrite phase_set_cases.
      destruct (N.eqb_spec i id) as [->|Hne]; [rewrite Ep in Hp; rfin|rfin].
    - (* Message *)
      assert (st' = st).
      { destruct (resource_type gen_layout i); [destruct (mem_n i (listeners st)); inversion H; reflexivity|].
        destruct (phase_of i (ph st)) as [[p|p|]|]; try discriminate H. destruct (p =? peer); inversion H; reflexivity. }
      subst. split; assumption.
    - (* Disconnected *)
      destruct (phase_of i (ph st)) as [[p|p|]|] eqn:Ep; try discriminate H.
      destruct ((p =? peer) && negb (mem_n i (removed st))) eqn:Ec; [|discriminate H]. inversion H; subst; clear H. cbn [ph removed].
      rewrite phase_set_cases. destruct (N.eqb_spec i id) as [->|Hne]; [rewrite Ep in Hp; rfin|rfin].
    - (* a return value *)
      destruct r as [[[i2 p2]|]|[i2|]|s0|[|]|r0].
      + destruct c; cbn [lifecycle_step summ_step] in *;
          (destruct (phase_of i2 (ph st)) eqn:Ep; [discriminate H|]); inversion H; subst; clear H; cbn [ph removed]; rewrite phase_set_cases;
          (destruct (N.eqb_spec i2 id) as [->|Hne]; [rewrite Ep in Hp; rfin|rfin]).
      + destruct c; cbn [lifecycle_step summ_step] in *; inversion H; subst; split; assumption.
      + destruct c; cbn [lifecycle_step summ_step] in *; (destruct (mem_n i2 (listeners st)); [discriminate H|]); inversion H; subst; cbn [ph removed]; split; assumption.
      + destruct c; cbn [lifecycle_step summ_step] in *; inversion H; subst; split; assumption.
      + destruct c; cbn [lifecycle_step summ_step] in *; inversion H; subst; split; assumption.
      + (* RRemove true *)
        destruct c as [ok0 peer0|ok0|ep0 len0 ans0|i|i];
          try (cbn [lifecycle_step summ_step] in *; inversion H; subst; split; assumption).
        cbn [lifecycle_step summ_step] in *.
        destruct (N.eqb_spec i id) as [->|Hne].
        * rewrite Ht in H. destruct (mem_n id (removed st)) eqn:Er; [discriminate H|].
          destruct (phase_of id (ph st)) as [[p|p|]|] eqn:Ep; try discriminate H; inversion H; subst; clear H; cbn [ph removed mem_n existsb];
            rewrite N.eqb_refl, ?Ep; rfin.
        * destruct (resource_type gen_layout i); [inversion H; subst; split; assumption|].
          destruct (mem_n i (removed st)); [discriminate H|].
          destruct (phase_of i (ph st)) as [[p|p|]|]; try discriminate H; inversion H; subst; clear H; cbn [ph removed mem_n existsb];
            (destruct (N.eqb_spec id i); [congruence|]); cbn [orb]; split; assumption.
      + destruct c; cbn [lifecycle_step summ_step] in *; inversion H; subst; split; assumption.
      + destruct c; cbn [lifecycle_step summ_step] in *; inversion H; subst; split; assumption.
    - inversion H; subst. split; assumption.
    - inversion H; subst. split; assumption.
  Qed.


  Lemma R_run id tr : forall st m st',
    resource_type gen_layout id = Remote -> R id st m -> lifecycle_run st tr = Some st' ->
    R id st' (fold_left (summ_step id) tr m).
  Proof.
    induction tr as [|o r IH]; intros st m st' Ht HR H; cbn [lifecycle_run fold_left] in *.
    - inversion H; subst. exact HR.
    - destruct (lifecycle_step st o) as [st1|] eqn:Es; [|discriminate H].
      eapply IH; [exact Ht| |exact H]. eapply R_step; eauto.
  Qed.

  Lemma R_init id : R id {| ph := []; listeners := []; removed := [] |} summ0.
  Proof. unfold R. cbn. repeat split. Qed.

  (* C03, connect_sync: for EVERY script, whenever connect_sync polls is_ready() for a connection
     that connect() returned and that the user did not remove() meanwhile, the answer is truthful
     about what was delivered so far -- except in the known class K1 (established, and already
     closed by the peer). *)
  Theorem connect_sync_truthful_outside_K1 a ls id :
    a <= max_adapter gen_layout -> cost_labels ls <= max_base gen_layout + 1 ->
    resource_type gen_layout id = Remote ->
    c_issued (summ_of id (snd (drun (dinit a) ls))) = true ->
    c_removed (summ_of id (snd (drun (dinit a) ls))) = false ->
    K1_class (summ_of id (snd (drun (dinit a) ls))) = false ->
    sync_truthful (summ_of id (snd (drun (dinit a) ls))) (is_ready_answer (fst (drun (dinit a) ls)) id).
  Proof.
    intros Ha Hc Ht Hiss Hnr HK.
    destruct (drun_J ls (dinit a) {| ph := []; listeners := []; removed := [] |} (max_base gen_layout + 1)) as (st' & H & HJ);
      [apply J_init; [exact Ha|lia]|exact Hc|].
    pose proof (R_run id _ _ _ _ Ht (R_init id) H) as [Hrm Hph]. fold (summ_of id (snd (drun (dinit a) ls))) in *.
    set (m := summ_of id (snd (drun (dinit a) ls))) in *. set (s := fst (drun (dinit a) ls)) in *.
    rewrite N.sub_diag in HJ || idtac.
    unfold is_ready_answer, sync_truthful. destruct (find_remote id (remotes s)) as [p|] eqn:Ef; cbn [option_map].
    - pose proof (J_entry _ _ _ HJ _ _ Ef) as He. destruct (r_ready p).
      + rewrite He in Hph. destruct Hph as (_ & Hd & He' & _). split; [congruence|exact Hd].
      + destruct (r_local p) as [l|].
        * destruct He as [Hn _]. rewrite Hn in Hph. destruct Hph as (Hi & _). congruence.
        * rewrite He in Hph. destruct Hph as (_ & He' & Hf & _). split; assumption.
    - assert (Hnotin : ~ In id (removed st')).
      { intros Hin. apply mem_n_true in Hin. congruence. }
      destruct (phase_of id (ph st')) as [[q|q|]|] eqn:Ep.
      + exfalso. apply (J_live _ _ _ HJ id); [unfold live_phase; rewrite Ep; exact I|exact Hnotin|exact Ef].
      + exfalso. apply (J_live _ _ _ HJ id); [unfold live_phase; rewrite Ep; exact I|exact Hnotin|exact Ef].
      + destruct Hph as (_ & [(_ & He' & _)|(Hd & _ & He')]); [exact He'|].
        unfold K1_class in HK. rewrite Hd, andb_true_r in HK. exact HK.
      + destruct Hph as (Hi & _). congruence.
  Qed.

  (* C13 / C04: what a call on an id without a registry entry answers, without reaching the adapter *)
  Lemma gone_answers s id to len ans :
    resource_type gen_layout id = Remote -> find_remote id (remotes s) = None ->
    exec_ucall s (USend (id, to) len ans) = (s, [ORet (USend (id, to) len ans) (RSend ResourceNotFound)]) /\
    exec_ucall s (UIsReady id) = (s, [ORet (UIsReady id) (RIsReady None)]) /\
    exec_ucall s (URemove id) = (s, [ORet (URemove id) (RRemove false)]).
  Proof.
    intros Ht Hn. cbn [exec_ucall]. unfold deregister_remote. rewrite Ht, Hn. repeat split.
  Qed.

  (* ---- C14, part 2: an endpoint kept after its connection ended addresses nothing, for good ---- *)
  Lemma drun_app l1 : forall s l2,
    drun s (l1 ++ l2) = (fst (drun (fst (drun s l1)) l2), snd (drun s l1) ++ snd (drun (fst (drun s l1)) l2)).
  Proof.
    induction l1 as [|l r IH]; intros s l2; cbn [app drun].
    - cbn [fst snd app]. destruct (drun s l2); reflexivity.
    - destruct (dstep s l) as [s1 o1]. rewrite (IH s1 l2).
      destruct (drun s1 r) as [s2 o2]. cbn [fst snd]. destruct (drun s2 l2) as [s3 o3]. cbn [fst snd].
      rewrite app_assoc. reflexivity.
  Qed.

  Lemma count_ends_app id a b : count_ends id (a ++ b) = (count_ends id a + count_ends id b)%nat.
  Proof. unfold count_ends. induction a as [|o r IH]; cbn [app fold_right]; [reflexivity|]. rewrite IH. lia. Qed.

  (* once a connection has ended (Disconnected, or remove() -> true) at some point of a history,
     then after ANY continuation of that history (new connects, accepts, traffic, other removals)
     send / is_ready / remove on its id answer ResourceNotFound / None / false, and the adapter's
     transmit function is not reached: a stale endpoint never addresses a newer connection *)
  Theorem stale_endpoint_forever a l1 l2 id to len ans :
    a <= max_adapter gen_layout -> cost_labels (l1 ++ l2) <= max_base gen_layout + 1 ->
    resource_type gen_layout id = Remote ->
    count_ends id (snd (drun (dinit a) l1)) = 1%nat ->
    let s := fst (drun (dinit a) (l1 ++ l2)) in
    exec_ucall s (USend (id, to) len ans) = (s, [ORet (USend (id, to) len ans) (RSend ResourceNotFound)]) /\
    exec_ucall s (UIsReady id) = (s, [ORet (UIsReady id) (RIsReady None)]) /\
    exec_ucall s (URemove id) = (s, [ORet (URemove id) (RRemove false)]).
  Proof.
    intros Ha Hc Ht H1 s. apply gone_answers; [exact Ht|].
    destruct (end_exactly_once a (l1 ++ l2) id Ha Hc Ht) as [Hle Hgone]. apply Hgone.
    rewrite drun_app in Hle |- *. cbn [snd] in Hle |- *. rewrite count_ends_app in Hle |- *. lia.
  Qed.

  (* C13: the decision table of Driver::send *)
  Lemma send_table s id to len ans :
    snd (exec_ucall s (USend (id, to) len ans)) =
      match resource_type gen_layout id with
      | Remote =>
          match find_remote id (remotes s) with
          | Some p => if r_ready p then [OAdapterSend id len; ORet (USend (id, to) len ans) (RSend ans)]
                      else [ORet (USend (id, to) len ans) (RSend ResourceNotAvailable)]
          | None => [ORet (USend (id, to) len ans) (RSend ResourceNotFound)]
          end
      | Local =>
          if mem_n id (locals s) then [OAdapterSendTo id to len; ORet (USend (id, to) len ans) (RSend ans)]
          else [ORet (USend (id, to) len ans) (RSend ResourceNotFound)]
      end /\ fst (exec_ucall s (USend (id, to) len ans)) = s.
  Proof.
    cbn [exec_ucall]. destruct (resource_type gen_layout id).
    - destruct (mem_n id (locals s)); split; reflexivity.
    - destruct (find_remote id (remotes s)) as [p|]; [destruct (r_ready p)|]; split; reflexivity.
  Qed.

  (* ---- C17, listener side: whatever arrives at a listener (any number of inbound connections,
     any datagrams), with no user calls in the callbacks, leaves every existing connection's
     registry entry untouched, the listeners untouched, and emits nothing but Message events of
     that listener (a new stream connection is announced only later, by its own Accepted) ---- *)
  Definition quiet_accept (it : accepted) : Prop :=
    match it with AccRemote _ => True | AccData _ _ cb => cb = [] end.

  Lemma register_preserves s st b peer lid i p :
    J s st b -> 1 <= b -> find_remote i (remotes s) = Some p ->
    find_remote i (remotes (fst (register_remote s peer (Some lid)))) = Some p.
  Proof.
    intros HJ Hb Hf. pose proof (J_bound _ _ _ HJ) as Hbd. unfold register_remote. cbn [fst remotes find_remote].
    destruct (N.eqb_spec (mk (adapter s) Remote (next_remote s)) i) as [Heq|Hne]; [|exact Hf].
    exfalso. apply (fresh_remote_not_issued s Hbd); [destruct HJ; lia|]. rewrite Heq. exact (J_rem_issued _ _ _ HJ _ _ Hf).
  Qed.

  Theorem accept_isolation items : forall s st b lid,
    J s st b -> cost_accepts items <= b -> In lid (listeners st) -> resource_type gen_layout lid = Local ->
    Forall quiet_accept items ->
    (forall i p, find_remote i (remotes s) = Some p -> find_remote i (remotes (fst (do_accepts s lid items))) = Some p) /\
    locals (fst (do_accepts s lid items)) = locals s /\
    Forall (fun o => exists peer d, o = OEv (Message (lid, peer) d)) (snd (do_accepts s lid items)).
  Proof.
    induction items as [|it r IH]; intros s st b lid HJ Hc Hl Ht HQ; cbn [do_accepts cost_accepts] in *.
    - cbn. repeat split; auto.
    - inversion HQ as [|x l Hx Hr]; subst. destruct it as [peer|peer d cb].
      + destruct (J_register_accept s st b peer lid HJ) as (J1 & E1); [lia|exact Hl|].
        pose proof (fun i p => register_preserves s st b peer lid i p HJ ltac:(lia)) as Hpres.
        assert (Hloc : locals (fst (register_remote s peer (Some lid))) = locals s) by reflexivity.
        destruct (register_remote s peer (Some lid)) as [s1 nid]. cbn [fst] in *.
        destruct (IH s1 st (b - 1) lid J1) as (A & B & C); [lia|exact Hl|exact Ht|exact Hr|].
        repeat split; [intros i p Hf; apply A; apply Hpres; exact Hf|rewrite B; exact Hloc|exact C].
      + cbn in Hx. subst cb. cbn [exec_ucalls]. cbn [cost_ucalls] in Hc.
        destruct (IH s st b lid HJ) as (A & B & C); [lia|exact Hl|exact Ht|exact Hr|].
        destruct (do_accepts s lid r) as [s2 o2]. cbn [fst snd app] in *.
        repeat split; [exact A|exact B|]. constructor; [exists peer, d; reflexivity|exact C].
  Qed.

  (* the same, for every reachable state of the driver *)
  Theorem listener_event_isolation a ls lid items :
    a <= max_adapter gen_layout -> cost_labels ls + cost_accepts items <= max_base gen_layout + 1 ->
    resource_type gen_layout lid = Local -> In lid (locals (fst (drun (dinit a) ls))) ->
    Forall quiet_accept items ->
    let s := fst (drun (dinit a) ls) in
    (forall i p, find_remote i (remotes s) = Some p -> find_remote i (remotes (fst (do_accepts s lid items))) = Some p) /\
    locals (fst (do_accepts s lid items)) = locals s /\
    Forall (fun o => exists peer d, o = OEv (Message (lid, peer) d)) (snd (do_accepts s lid items)).
  Proof.
    intros Ha Hc Ht Hin HQ s.
    destruct (drun_J ls (dinit a) {| ph := []; listeners := []; removed := [] |} (max_base gen_layout + 1)) as (st' & H & HJ);
      [apply J_init; [exact Ha|lia]|lia|].
    apply (accept_isolation items _ st' _ lid HJ); [lia|exact (J_loc _ _ _ HJ _ Hin)|exact Ht|exact HQ].
  Qed.

End Proofs.

(* ListN.v — take/drop/len over N-indexed slices *)
From MIO Require Import Base.
Local Open Scope N_scope.

Lemma len_app {A} (a b : list A) : len (a ++ b) = len a + len b.
Proof. unfold len. rewrite app_length. lia. Qed.

Lemma len_nil {A} : len (@nil A) = 0.
Proof. reflexivity. Qed.

Lemma len_cons {A} (x : A) l : len (x :: l) = 1 + len l.
Proof. unfold len. simpl length. lia. Qed.

Lemma len_0 {A} (l : list A) : len l = 0 -> l = [].
Proof. unfold len. destruct l; [reflexivity|simpl; lia]. Qed.

Lemma to_nat_len {A} (l : list A) : N.to_nat (len l) = length l.
Proof. unfold len. apply Nat2N.id. Qed.

Lemma take_app_exact {A} (a b : list A) : take (len a) (a ++ b) = a.
Proof.
  unfold take. rewrite to_nat_len. rewrite firstn_app, Nat.sub_diag, firstn_all. simpl. apply app_nil_r.
Qed.

Lemma drop_app_exact {A} (a b : list A) : drop (len a) (a ++ b) = b.
Proof. unfold drop. rewrite to_nat_len. rewrite skipn_app, Nat.sub_diag, skipn_all. reflexivity. Qed.

Lemma take_app_le {A} n (a b : list A) : n <= len a -> take n (a ++ b) = take n a.
Proof.
  unfold take, len. intros H. rewrite firstn_app.
  replace (N.to_nat n - length a)%nat with 0%nat by lia. simpl. apply app_nil_r.
Qed.

Lemma drop_app_le {A} n (a b : list A) : n <= len a -> drop n (a ++ b) = drop n a ++ b.
Proof.
  unfold drop, len. intros H. rewrite skipn_app.
  replace (N.to_nat n - length a)%nat with 0%nat by lia. reflexivity.
Qed.

Lemma take_app_ge {A} n (a b : list A) : len a <= n -> take n (a ++ b) = a ++ take (n - len a) b.
Proof.
  unfold take, len. intros H. rewrite firstn_app. rewrite firstn_all2 by lia.
  f_equal. f_equal. lia.
Qed.

Lemma drop_app_ge {A} n (a b : list A) : len a <= n -> drop n (a ++ b) = drop (n - len a) b.
Proof.
  unfold drop, len. intros H. rewrite skipn_app. rewrite skipn_all2 by lia. simpl.
  f_equal. lia.
Qed.

Lemma len_drop {A} n (l : list A) : len (drop n l) = len l - n.
Proof. unfold len, drop. rewrite skipn_length. lia. Qed.

Lemma len_take {A} n (l : list A) : n <= len l -> len (take n l) = n.
Proof. unfold len, take. intros H. rewrite firstn_length. lia. Qed.

Lemma take_drop {A} n (l : list A) : take n l ++ drop n l = l.
Proof. apply firstn_skipn. Qed.

Lemma take_all {A} n (l : list A) : len l <= n -> take n l = l.
Proof. unfold take, len. intros H. apply firstn_all2. lia. Qed.

Lemma drop_all {A} n (l : list A) : len l <= n -> drop n l = [].
Proof. unfold drop, len. intros H. apply skipn_all2. lia. Qed.

Lemma drop_0 {A} (l : list A) : drop 0 l = l.
Proof. reflexivity. Qed.

Lemma take_0 {A} (l : list A) : take 0 l = [].
Proof. reflexivity. Qed.

Lemma skipn_skipn' {A} n m (l : list A) : skipn n (skipn m l) = skipn (m + n) l.
Proof.
  revert l. induction m as [|m IH]; intros l; [reflexivity|].
  destruct l as [|x l]; [rewrite !skipn_nil; reflexivity|]. simpl. apply IH.
Qed.

Lemma drop_drop {A} n m (l : list A) : drop n (drop m l) = drop (m + n) l.
Proof. unfold drop. rewrite skipn_skipn'. f_equal. lia. Qed.

(* l ++ [b] = pre ++ post: either post is empty or pre is a prefix of l *)
Lemma app_unit_split {A} (l : list A) b pre post :
  l ++ [b] = pre ++ post -> post = [] \/ exists t, l = pre ++ t.
Proof.
  destruct post as [|c post'] using rev_ind; [left; reflexivity|]. intros H. right.
  rewrite app_assoc in H. apply app_inj_tail in H. destruct H as [H _]. exists post'. exact H.
Qed.

(* Varint.v — model of integer-encoding's LEB128 for u64 (src/varint.rs of the locked version),
   statement by statement.  Constants MSB / DROP_MSB / cut-off come from Gen.v. *)
From MIO Require Import Base Gen.
Local Open Scope N_scope.

(* u64::decode_var:
     for b in src { result |= ((b & DROP_MSB) as u64) << shift; shift += 7;
                    if b & MSB == 0 || shift > 9*7 { success = b & MSB == 0; break } }
     if success { Some((result, shift / 7)) } else { None }                                  *)
Fixpoint dec_aux (src : list N) (result shift : N) : option (N * N) :=
  match src with
  | [] => None
  | b :: rest =>
      let result' := N.lor result (ushl (N.land b VARINT_DROP_MSB) shift) in
      let shift' := shift + 7 in
      if (N.land b VARINT_MSB =? 0) || (VARINT_SHIFT_CUTOFF <? shift')
      then (if N.land b VARINT_MSB =? 0 then Some (result', shift' / 7) else None)
      else dec_aux rest result' shift'
  end.

(* encoding.rs::decode_size = usize::decode_var = u64::decode_var (usize is 64 bits) *)
Definition decode_size (data : list N) : option (N * N) := dec_aux data 0 0.

(* u64::encode_var:  while n >= 0x80 { dst[i] = MSB | (n as u8); i += 1; n >>= 7 }  dst[i] = n as u8
   The loop runs at most 10 times for a u64; the model recurses on explicit fuel and reports
   exhaustion as None (proved unreachable for n < 2^64 with the fuel used by `enc`). *)
Fixpoint enc_f (fuel : nat) (n : N) : option (list N) :=
  match fuel with
  | O => None
  | S f =>
      if 128 <=? n
      then match enc_f f (N.shiftr n 7) with
           | Some l => Some (N.lor VARINT_MSB (n mod 256) :: l)
           | None => None
           end
      else Some [n mod 256]
  end.

Definition ENC_FUEL : nat := 10.
Definition enc (n : N) : option (list N) := enc_f ENC_FUEL n.

(* encoding.rs::encode_size(message) = the varint of message.len() *)
Definition encode_size (message : list N) : option (list N) := enc (len message).

(* DecoderProofs.v — the streaming decoder equals the one-shot reference parser on EVERY byte
   stream and EVERY chunking (hence never panics), and the reference parser recovers exactly the
   message list from a concatenation of canonical frames. *)
From MIO Require Import Base Gen Bits ListN Varint VarintProofs Decoder.
Local Open Scope N_scope.

(* relational form of the reference parser (no fuel) *)
Inductive Parses : list N -> list (list N) -> list N -> Prop :=
| P_none s : decode_size s = None -> Parses s [] s
| P_short s e u : decode_size s = Some (e, u) -> len (drop u s) < e -> Parses s [] s
| P_frame s e u outs rest :
    decode_size s = Some (e, u) -> e <= len (drop u s) ->
    Parses (drop e (drop u s)) outs rest ->
    Parses s (take e (drop u s) :: outs) rest.

(* "nothing complete is buffered": the state invariant of the decoder *)
Definition Pending (st : list N) : Prop :=
  match decode_size st with
  | Some (e, u) => len (drop u st) < e
  | None => True
  end.

Section Proofs.
  Hypothesis Hc : varint_consts_ok = true.

  Lemma Parses_det s o1 r1 : Parses s o1 r1 -> forall o2 r2, Parses s o2 r2 -> o1 = o2 /\ r1 = r2.
  Proof.
    induction 1 as [s H|s e u H Hl|s e u outs rest H Hl Hp IH]; intros o2 r2 H2.
    - inversion H2; subst; try (split; reflexivity); congruence.
    - inversion H2 as [|? e' u' H' Hl'|? e' u' ? ? H' Hl' Hp']; subst; try (split; reflexivity).
      rewrite H in H'. inversion H'; subst. lia.
    - inversion H2 as [? H'|? e' u' H' Hl'|? e' u' outs' ? H' Hl' Hp']; subst.
      + congruence.
      + rewrite H in H'. inversion H'; subst. lia.
      + rewrite H in H'. inversion H'; subst. destruct (IH _ _ Hp') as [-> ->]. split; reflexivity.
  Qed.

  Lemma Pending_Parses st : Pending st -> Parses st [] st.
  Proof.
    unfold Pending. destruct (decode_size st) as [[e u]|] eqn:E; intros H.
    - eapply P_short; eauto.
    - apply P_none. exact E.
  Qed.

  Lemma Parses_rest_Pending s outs rest : Parses s outs rest -> Pending rest.
  Proof.
    induction 1 as [s H|s e u H Hl|s e u outs rest H Hl Hp IH]; unfold Pending.
    - rewrite H. exact I.
    - rewrite H. exact Hl.
    - exact IH.
  Qed.

  Lemma Pending_nil : Pending [].
  Proof. unfold Pending. rewrite decode_size_nil. exact I. Qed.

  (* the parser with enough fuel computes the relation, and always has enough fuel *)
  Lemma parse_f_sound fuel : forall s outs rest, parse_f fuel s = Some (outs, rest) -> Parses s outs rest.
  Proof.
    induction fuel as [|f IH]; intros s outs rest H; [discriminate H|].
    cbn [parse_f] in H. destruct (decode_size s) as [[e u]|] eqn:E.
    - destruct (N.leb_spec e (len (drop u s))) as [Hl|Hl].
      + destruct (parse_f f (drop e (drop u s))) as [[o r]|] eqn:Ep; [|discriminate H].
        inversion H; subst. eapply P_frame; eauto.
      + inversion H; subst. eapply P_short; eauto.
    - inversion H; subst. apply P_none. exact E.
  Qed.

  Lemma drop_shrinks s e u :
    decode_size s = Some (e, u) -> (length (drop e (drop u s)) < length s)%nat.
  Proof.
    intros H. destruct (decode_size_used Hc _ _ _ H) as [H1 H2].
    unfold drop, len in *. rewrite !skipn_length. lia.
  Qed.

  Lemma parse_f_total fuel : forall s, (length s < fuel)%nat -> exists outs rest, parse_f fuel s = Some (outs, rest).
  Proof.
    induction fuel as [|f IH]; intros s Hf; [lia|].
    cbn [parse_f]. destruct (decode_size s) as [[e u]|] eqn:E; [|eauto].
    destruct (e <=? len (drop u s)); [|eauto].
    destruct (IH (drop e (drop u s))) as (o & r & Ep).
    - pose proof (drop_shrinks _ _ _ E). lia.
    - rewrite Ep. eauto.
  Qed.

  Lemma parse_total s : exists outs rest, parse s = Some (outs, rest) /\ Parses s outs rest.
  Proof.
    destruct (parse_f_total (S (length s)) s) as (o & r & E); [lia|].
    exists o, r. split; [exact E|]. eapply parse_f_sound. exact E.
  Qed.

  Lemma parse_complete s outs rest : Parses s outs rest -> parse s = Some (outs, rest).
  Proof.
    intros H. destruct (parse_total s) as (o & r & E & Hp).
    destruct (Parses_det _ _ _ H _ _ Hp) as [-> ->]. exact E.
  Qed.

  (* parsing a buffer and then more data = parsing the concatenation *)
  Lemma Parses_app a o1 r1 : Parses a o1 r1 -> forall b o2 r2, Parses (r1 ++ b) o2 r2 -> Parses (a ++ b) (o1 ++ o2) r2.
  Proof.
    induction 1 as [s H|s e u H Hl|s e u outs rest H Hl Hp IH]; intros b o2 r2 H2; try exact H2.
    destruct (decode_size_used Hc _ _ _ H) as [Hu1 Hu2].
    assert (Hd : drop u (s ++ b) = drop u s ++ b) by (apply drop_app_le; exact Hu2).
    rewrite <- app_comm_cons.
    replace (take e (drop u s)) with (take e (drop u (s ++ b))) by (rewrite Hd; apply take_app_le; exact Hl).
    eapply P_frame.
    - apply decode_size_app; [exact Hc|exact H].
    - rewrite Hd, len_app. lia.
    - rewrite Hd, drop_app_le by exact Hl. apply IH. exact H2.
  Qed.

  (* T1: try_decode is the reference parser *)
  Lemma try_decode_f_spec data outs rest :
    Parses data outs rest ->
    forall fuel st acc, (length data < fuel)%nat ->
      try_decode_f fuel st data acc = Some (st ++ rest, acc ++ outs).
  Proof.
    induction 1 as [s H|s e u H Hl|s e u outs rest H Hl Hp IH]; intros fuel st acc Hf;
      (destruct fuel as [|f]; [lia|]); cbn [try_decode_f]; rewrite H.
    - rewrite app_nil_r. reflexivity.
    - replace (e <=? len (drop u s)) with false by (symmetry; apply N.leb_gt; exact Hl).
      rewrite app_nil_r. reflexivity.
    - replace (e <=? len (drop u s)) with true by (symmetry; apply N.leb_le; exact Hl).
      destruct (drop e (drop u s)) as [|x nd] eqn:End.
      + inversion Hp; subst; try (rewrite decode_size_nil in *; discriminate).
        rewrite app_nil_r. reflexivity.
      + rewrite <- End in *. rewrite (IH f st (acc ++ [take e (drop u s)])).
        * rewrite <- app_assoc. reflexivity.
        * pose proof (drop_shrinks _ _ _ H). lia.
  Qed.

  Lemma try_decode_spec data outs rest :
    Parses data outs rest -> try_decode [] data = Some (rest, outs).
  Proof. intros H. unfold try_decode. rewrite (try_decode_f_spec _ _ _ H) by lia. reflexivity. Qed.

  (* the header-completion loop stops exactly at the end of the size prefix *)
  Lemma complete_header_spec data : forall stored,
    decode_size stored = None ->
    match decode_size (stored ++ data) with
    | Some (e, u) => exists d1 d2, data = d1 ++ d2 /\ u = len (stored ++ d1) /\
                                   complete_header stored data = (stored ++ d1, Some ((e, u), d2))
    | None => complete_header stored data = (stored ++ data, None)
    end.
  Proof.
    induction data as [|b rest IH]; intros stored Hn.
    - rewrite app_nil_r, Hn. reflexivity.
    - cbn [complete_header]. replace (stored ++ b :: rest) with ((stored ++ [b]) ++ rest) by (rewrite <- app_assoc; reflexivity).
      destruct (decode_size (stored ++ [b])) as [[e u]|] eqn:E.
      + rewrite (decode_size_app Hc _ rest _ E).
        exists [b], rest. split; [reflexivity|]. split; [|reflexivity].
        destruct (decode_size_split Hc _ _ _ E) as (pre & post & Es & Hne & Hu & Hd).
        destruct (app_unit_split _ _ _ _ Es) as [->|[t Et]].
        * rewrite app_nil_r in Es. rewrite Es. exact Hu.
        * subst stored. rewrite (decode_size_app Hc _ t _ Hd) in Hn. discriminate Hn.
      + specialize (IH _ E). destruct (decode_size ((stored ++ [b]) ++ rest)) as [[e u]|].
        * destruct IH as (d1 & d2 & Ed & Hu & Hch). exists (b :: d1), d2.
          split; [rewrite Ed; reflexivity|].
          replace (stored ++ b :: d1) with ((stored ++ [b]) ++ d1) by (rewrite <- app_assoc; reflexivity).
          split; assumption.
        * exact IH.
  Qed.

  (* the central lemma: one decode call = re-parsing (buffered ++ chunk) from scratch *)
  Lemma decode_spec m st c outs rest :
    Pending st -> Parses (st ++ c) outs rest -> decode m st c = DOk rest outs.
  Proof.
    intros Hp Hs. destruct st as [|x st'].
    { cbn [decode app] in *. rewrite (try_decode_spec _ _ _ Hs). reflexivity. }
    remember (x :: st') as st eqn:Est.
    assert (Hdec : decode m st c =
      match store_and_decoded_data m st c with
      | Panic => DPanic
      | Ok (s, None) => DOk s []
      | Ok (_, Some (decoded, remaining)) =>
          match try_decode [] remaining with
          | Some (s, o) => DOk s (decoded :: o)
          | None => DOutOfFuel
          end
      end) by (rewrite Est; reflexivity).
    rewrite Hdec. clear Hdec Est x st'. unfold store_and_decoded_data.
    unfold Pending in Hp. destruct (decode_size st) as [[e u]|] eqn:E.
    - (* size already known: st = prefix ++ partial payload *)
      destruct (decode_size_used Hc _ _ _ E) as [Hu1 Hu2].
      pose proof (decode_size_app Hc _ c _ E) as Eapp.
      assert (Hd : drop u (st ++ c) = drop u st ++ c) by (apply drop_app_le; exact Hu2).
      rewrite len_drop in Hp.
      unfold usub. replace (u <=? len st) with true by (symmetry; apply N.leb_le; exact Hu2).
      cbn [res_bind]. replace (len st - u <=? e) with true by (symmetry; apply N.leb_le; lia).
      cbn [res_bind].
      destruct (N.ltb_spec (len c) (e - (len st - u))) as [Hlt|Hge].
      + (* still incomplete *)
        inversion Hs as [? Hn|? e' u' H' Hl'|? e' u' outs' ? H' Hl' Hp']; subst.
        * congruence.
        * reflexivity.
        * rewrite Eapp in H'. inversion H'; subst. rewrite Hd, len_app, len_drop in Hl'. lia.
      + (* the frame completes inside c *)
        inversion Hs as [? Hn|? e' u' H' Hl'|? e' u' outs' ? H' Hl' Hp']; subst.
        * congruence.
        * rewrite Eapp in H'. inversion H'; subst. rewrite Hd, len_app, len_drop in Hl'. lia.
        * rewrite Eapp in H'. inversion H'; subst e' u'.
          replace (u <=? len (st ++ take (e - (len st - u)) c)) with true
            by (symmetry; apply N.leb_le; rewrite len_app; lia).
          rewrite Hd in Hp'. rewrite drop_app_ge in Hp' by (rewrite len_drop; lia).
          rewrite len_drop in Hp'. rewrite (try_decode_spec _ _ _ Hp').
          rewrite Hd. rewrite take_app_ge by (rewrite len_drop; lia). rewrite len_drop.
          rewrite drop_app_le by exact Hu2. reflexivity.
    - (* size prefix incomplete (or invalid): complete it byte by byte *)
      pose proof (complete_header_spec c st E) as Hch.
      destruct (decode_size (st ++ c)) as [[e u]|] eqn:Eapp.
      + destruct Hch as (d1 & d2 & Ec & Hu & Hch). rewrite Hch. subst c.
        assert (Hd : drop u (st ++ d1 ++ d2) = d2).
        { rewrite app_assoc, Hu. apply drop_app_exact. }
        unfold usub. rewrite Hu, N.leb_refl. cbn [res_bind]. rewrite N.sub_diag.
        replace (0 <=? e) with true by (symmetry; apply N.leb_le; lia). cbn [res_bind]. rewrite N.sub_0_r.
        destruct (N.ltb_spec (len d2) e) as [Hlt|Hge].
        * inversion Hs as [? Hn|? e' u' H' Hl'|? e' u' outs' ? H' Hl' Hp']; subst.
          -- congruence.
          -- rewrite <- app_assoc. reflexivity.
          -- rewrite Eapp in H'. inversion H'; subst e' u'. rewrite Hd in Hl'. lia.
        * inversion Hs as [? Hn|? e' u' H' Hl'|? e' u' outs' ? H' Hl' Hp']; subst.
          -- congruence.
          -- rewrite Eapp in H'. inversion H'; subst e' u'. rewrite Hd in Hl'. lia.
          -- rewrite Eapp in H'. inversion H'; subst e' u'. rewrite Hd in *.
             replace (len (st ++ d1) <=? len ((st ++ d1) ++ take e d2)) with true
               by (symmetry; apply N.leb_le; rewrite (len_app (st ++ d1)); lia).
             rewrite (try_decode_spec _ _ _ Hp'). rewrite drop_app_exact. reflexivity.
      + rewrite Hch. inversion Hs as [? Hn|? e' u' H' Hl'|? e' u' outs' ? H' Hl' Hp']; subst; try congruence; try reflexivity.
  Qed.

  (* any chunk list, from any pending state *)
  Lemma feed_from_spec m : forall cs st acc,
    Pending st ->
    exists outs rest, Parses (st ++ concat cs) outs rest /\ feed_from m st cs acc = DOk rest (acc ++ outs).
  Proof.
    induction cs as [|c cs IH]; intros st acc Hp.
    - exists [], st. cbn [concat feed_from]. rewrite !app_nil_r. split; [apply Pending_Parses; exact Hp|reflexivity].
    - destruct (parse_total (st ++ c)) as (o1 & r1 & _ & H1).
      pose proof (Parses_rest_Pending _ _ _ H1) as Hp1.
      destruct (IH r1 (acc ++ o1) Hp1) as (o2 & r2 & H2 & Hf).
      exists (o1 ++ o2), r2. split.
      + cbn [concat]. rewrite app_assoc. eapply Parses_app; eauto.
      + cbn [feed_from]. rewrite (decode_spec m st c o1 r1 Hp H1). rewrite Hf, app_assoc. reflexivity.
  Qed.

  (* THEOREM A: for every byte stream and every chunking, the streaming decoder returns what the
     one-shot parser returns on the concatenation; in particular it never panics. *)
  Theorem feed_is_parse m cs :
    exists outs rest, parse (concat cs) = Some (outs, rest) /\ feed m cs = DOk rest outs.
  Proof.
    destruct (feed_from_spec m cs [] [] Pending_nil) as (o & r & Hp & Hf).
    exists o, r. split; [apply parse_complete; exact Hp|exact Hf].
  Qed.

  (* what stays buffered contains no complete frame and is a suffix of what was received *)
  Theorem feed_leftover m cs stored outs :
    feed m cs = DOk stored outs ->
    parse stored = Some ([], stored) /\ (length stored <= length (concat cs))%nat.
  Proof.
    intros Hf. destruct (feed_from_spec m cs [] [] Pending_nil) as (o & r & Hp & Hf').
    unfold feed in Hf. rewrite Hf' in Hf. inversion Hf; subst. split.
    - apply parse_complete. apply Pending_Parses. eapply Parses_rest_Pending; eauto.
    - clear - Hp. cbn [app] in Hp. induction Hp as [s H|s e u H Hl|s e u outs rest H Hl Hp IH]; try lia.
      unfold drop in IH. rewrite !skipn_length in IH. lia.
  Qed.

  (* THEOREM B: the reference parser recovers the message list from canonical frames *)
  Lemma frames_Parses : forall ms s,
    Forall (fun p => len p < 2 ^ 64) ms -> frames ms = Some s -> Parses s ms [].
  Proof.
    induction ms as [|p ms IH]; intros s Hwf Hfr.
    - cbn in Hfr. inversion Hfr. apply P_none. apply decode_size_nil.
    - cbn [frames] in Hfr. unfold frame in Hfr. inversion Hwf as [|? ? Hp Hwf']; subst.
      destruct (dec_enc Hc (len p) (p ++ match frames ms with Some fr => fr | None => [] end) Hp) as (h & Eh & Hlen & Hdec).
      rewrite Eh in Hfr. destruct (frames ms) as [fr|] eqn:Efr; [|discriminate Hfr]. inversion Hfr; subst s. clear Hfr.
      rewrite <- app_assoc.
      assert (Hd : drop (len h) (h ++ p ++ fr) = p ++ fr) by apply drop_app_exact.
      replace p with (take (len p) (drop (len h) (h ++ p ++ fr))) at 2 by (rewrite Hd; apply take_app_exact).
      eapply P_frame.
      + exact Hdec.
      + rewrite Hd, len_app. lia.
      + rewrite Hd, drop_app_exact. apply IH; [exact Hwf'|reflexivity].
  Qed.

  (* frames of well-formed messages always exist (the encoder never runs out of fuel) *)
  Lemma frames_total ms : Forall (fun p => len p < 2 ^ 64) ms -> exists s, frames ms = Some s.
  Proof.
    induction 1 as [|p ms Hp _ [s IH]]; [eexists; reflexivity|].
    destruct (dec_enc Hc (len p) [] Hp) as (h & Eh & _).
    cbn [frames]. unfold frame. rewrite Eh, IH. eexists; reflexivity.
  Qed.

  (* THE PROPERTY: any chunking of the concatenated frames yields exactly the message list *)
  Theorem decoder_chunking m ms cs s :
    Forall (fun p => len p < 2 ^ 64) ms ->
    frames ms = Some s -> concat cs = s ->
    feed m cs = DOk [] ms.
  Proof.
    intros Hwf Hfr Hc'. destruct (feed_from_spec m cs [] [] Pending_nil) as (o & r & Hp & Hf).
    cbn [app] in Hp. rewrite Hc' in Hp.
    destruct (Parses_det _ _ _ (frames_Parses _ _ Hwf Hfr) _ _ Hp) as [<- <-]. exact Hf.
  Qed.

  (* prefix of a well-formed stream: the messages delivered so far are a prefix of the list, in
     order, and no complete frame is left in the buffer *)
  Theorem no_stranded_frame m ms cs s tail stored outs :
    Forall (fun p => len p < 2 ^ 64) ms ->
    frames ms = Some s -> concat cs ++ tail = s ->
    feed m cs = DOk stored outs ->
    parse stored = Some ([], stored) /\ exists later, ms = outs ++ later.
  Proof.
    intros Hwf Hfr Hcat Hf. split; [exact (proj1 (feed_leftover _ _ _ _ Hf))|].
    destruct (feed_from_spec m cs [] [] Pending_nil) as (o & r & Hp & Hf').
    unfold feed in Hf. rewrite Hf' in Hf. inversion Hf; subst stored outs. cbn [app] in Hp.
    destruct (parse_total (r ++ tail)) as (o2 & r2 & _ & H2).
    pose proof (Parses_app _ _ _ Hp _ _ _ H2) as Hall. rewrite Hcat in Hall.
    destruct (Parses_det _ _ _ (frames_Parses _ _ Hwf Hfr) _ _ Hall) as [-> _].
    exists o2. reflexivity.
  Qed.
End Proofs.

(* totality on arbitrary (peer-controlled) bytes, both arithmetic modes *)
Theorem decoder_total (Hc : varint_consts_ok = true) (m : mode) (cs : list (list N)) :
  exists stored outs,
    feed m cs = DOk stored outs /\
    (length stored <= length (concat cs))%nat /\
    parse stored = Some ([], stored) /\
    parse (concat cs) = Some (outs, stored).
Proof.
  destruct (feed_is_parse Hc m cs) as (o & r & Hp & Hf).
  destruct (feed_leftover Hc m cs r o Hf) as [H1 H2].
  exists r, o. repeat split; assumption.
Qed.

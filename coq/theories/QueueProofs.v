(* QueueProofs.v — the model of events.rs refines the reference SpecQueue on every
   single-threaded history (C07), plus the invariants used for C06 / C08 / C16. *)
From MIO Require Import Base Queue.
From Coq Require Import Sorting.Sorted.
Local Open Scope N_scope.

Section Proofs.
  Variable E : Type.
  Notation tid := Queue.tid.
  Notation qstate := (Queue.qstate E).
  Notation spec := (Queue.spec E).

  (* ---- the order on TimerId ---- *)
  Lemma tid_eqb_eq (a b : tid) : tid_eqb a b = true <-> a = b.
  Proof.
    destruct a as [a1 a2], b as [b1 b2]. unfold tid_eqb. cbn [fst snd].
    rewrite andb_true_iff, !N.eqb_eq. split; [intros [-> ->]; reflexivity|intros H; inversion H; auto].
  Qed.

  Lemma tid_eqb_refl a : tid_eqb a a = true.
  Proof. apply tid_eqb_eq. reflexivity. Qed.

  Lemma tid_eqb_neq (a b : tid) : tid_eqb a b = false <-> a <> b.
  Proof.
    split.
    - intros H Heq. apply tid_eqb_eq in Heq. congruence.
    - intros H. destruct (tid_eqb a b) eqn:Eq; [apply tid_eqb_eq in Eq; contradiction|reflexivity].
  Qed.

  Definition tlt (a b : tid) : Prop := tid_ltb a b = true.

  Lemma tlt_spec (a b : tid) : tlt a b <-> fst a < fst b \/ (fst a = fst b /\ snd a < snd b).
  Proof. unfold tlt, tid_ltb. lia. Qed.

  Lemma tlt_irrefl a : ~ tlt a a.
  Proof. rewrite tlt_spec. lia. Qed.

  Lemma tlt_trans a b c : tlt a b -> tlt b c -> tlt a c.
  Proof. rewrite !tlt_spec. lia. Qed.

  Lemma tlt_total (a b : tid) : tlt a b \/ a = b \/ tlt b a.
  Proof.
    rewrite !tlt_spec. destruct a as [a1 a2], b as [b1 b2]. cbn [fst snd].
    destruct (N.lt_trichotomy a1 b1) as [H|[H|H]]; [lia| |lia].
    destruct (N.lt_trichotomy a2 b2) as [H2|[H2|H2]]; [lia| |lia].
    right. left. subst. reflexivity.
  Qed.

  Lemma tid_ltb_false (a b : tid) : tid_ltb a b = false <-> a = b \/ tlt b a.
  Proof.
    split.
    - intros H. destruct (tlt_total a b) as [H1|[H1|H1]]; [unfold tlt in H1; congruence|auto|auto].
    - intros [Heq|H]; destruct (tid_ltb a b) eqn:Eb; try reflexivity; exfalso.
      + subst b. exact (tlt_irrefl a Eb).
      + apply (tlt_irrefl a). eapply tlt_trans; eauto.
  Qed.

  (* ---- the sorted map ---- *)
  Definition keylt (x y : tid * E) : Prop := tlt (fst x) (fst y).
  Definition SortedMap (l : list (tid * E)) : Prop := StronglySorted keylt l.

  Lemma tinsert_in id e l x :
    SortedMap l ->
    (In x (tinsert E id e l) <-> x = (id, e) \/ (In x l /\ fst x <> id)).
  Proof.
    induction 1 as [|[k v] r Hs IH Hall]; cbn [tinsert].
    - cbn [In]. intuition.
    - destruct (tid_ltb id k) eqn:Hlt.
      + cbn [In]. split; [intros [H|[H|H]]; auto|].
        * right. split; [left; exact H|]. subst x. cbn [fst]. intros Hx. rewrite Hx in Hlt. exact (tlt_irrefl _ Hlt).
        * right. split; [right; exact H|]. rewrite Forall_forall in Hall. specialize (Hall _ H).
          unfold keylt in Hall. cbn [fst] in Hall. intros Hx. rewrite Hx in Hall. apply (tlt_irrefl id). eapply tlt_trans; eauto.
        * intros [H|[[H|H] Hne]]; auto.
      + destruct (tid_eqb id k) eqn:Heq.
        * apply tid_eqb_eq in Heq. subst k. cbn [In]. split.
          -- intros [H|H]; [left; auto|]. right. split; [right; exact H|].
             rewrite Forall_forall in Hall. specialize (Hall _ H). unfold keylt in Hall. cbn [fst] in Hall.
             intros Hx. rewrite Hx in Hall. exact (tlt_irrefl _ Hall).
          -- intros [H|[[H|H] Hne]]; auto. subst x. cbn [fst] in Hne. contradiction.
        * apply tid_eqb_neq in Heq. cbn [In]. rewrite IH. split.
          -- intros [H|[H|[H Hne]]]; auto. right. split; [left; exact H|]. subst x. cbn [fst]. congruence.
          -- intros [H|[[H|H] Hne]]; auto.
  Qed.

  Lemma tinsert_sorted id e l : SortedMap l -> SortedMap (tinsert E id e l).
  Proof.
    induction 1 as [|[k v] r Hs IH Hall]; cbn [tinsert].
    - constructor; constructor.
    - destruct (tid_ltb id k) eqn:Hlt.
      + constructor; [constructor; assumption|]. constructor; [exact Hlt|].
        rewrite Forall_forall in *. intros y Hy. unfold keylt in *. cbn [fst] in *.
        eapply tlt_trans; [exact Hlt|]. apply Hall. exact Hy.
      + destruct (tid_eqb id k) eqn:Heq.
        * apply tid_eqb_eq in Heq. subst k. constructor; assumption.
        * constructor; [exact IH|]. rewrite Forall_forall in *. intros y Hy.
          apply (tinsert_in id e r y Hs) in Hy. destruct Hy as [->|[Hy _]]; [|apply Hall; exact Hy].
          unfold keylt. cbn [fst]. apply tid_ltb_false in Hlt. apply tid_eqb_neq in Heq.
          destruct Hlt as [->|Hlt]; [contradiction|exact Hlt].
  Qed.

  Lemma tremove_in id l x :
    SortedMap l -> (In x (tremove E id l) <-> In x l /\ fst x <> id).
  Proof.
    induction 1 as [|[k v] r Hs IH Hall]; cbn [tremove].
    - cbn [In]. intuition.
    - destruct (tid_eqb id k) eqn:Heq.
      + apply tid_eqb_eq in Heq. subst k. cbn [In]. split.
        * intros H. split; [right; exact H|]. rewrite Forall_forall in Hall. specialize (Hall _ H).
          unfold keylt in Hall. cbn [fst] in Hall. intros Hx. rewrite Hx in Hall. exact (tlt_irrefl _ Hall).
        * intros [[H|H] Hne]; [subst x; cbn [fst] in Hne; contradiction|exact H].
      + apply tid_eqb_neq in Heq. cbn [In]. rewrite IH. split.
        * intros [H|[H Hne]]; [|auto]. split; [left; exact H|]. subst x. cbn [fst]. congruence.
        * intros [[H|H] Hne]; auto.
  Qed.

  Lemma tremove_sorted id l : SortedMap l -> SortedMap (tremove E id l).
  Proof.
    induction 1 as [|[k v] r Hs IH Hall]; cbn [tremove]; [constructor|].
    destruct (tid_eqb id k); [exact Hs|]. constructor; [exact IH|].
    rewrite Forall_forall in *. intros y Hy. apply (tremove_in id r y Hs) in Hy. apply Hall. apply Hy.
  Qed.

  (* ---- the bag of the spec ---- *)
  Definition UniqueKeys (l : list (tid * E)) : Prop := NoDup (map fst l).

  Lemma sorted_unique l : SortedMap l -> UniqueKeys l.
  Proof.
    induction 1 as [|x r Hs IH Hall]; [constructor|]. unfold UniqueKeys. cbn [map]. constructor; [|exact IH].
    intros Hin. apply in_map_iff in Hin. destruct Hin as (y & Hy & Hin).
    rewrite Forall_forall in Hall. specialize (Hall _ Hin). unfold keylt in Hall. rewrite Hy in Hall.
    exact (tlt_irrefl _ Hall).
  Qed.

  Lemma lremove_in id (l : list (tid * E)) x : In x (lremove E id l) <-> In x l /\ fst x <> id.
  Proof.
    unfold lremove. rewrite filter_In. split; intros [H1 H2]; split; auto.
    - apply negb_true_iff, tid_eqb_neq in H2. congruence.
    - apply negb_true_iff, tid_eqb_neq. congruence.
  Qed.

  Lemma lremove_unique id l : UniqueKeys l -> UniqueKeys (lremove E id l).
  Proof.
    unfold UniqueKeys, lremove. induction l as [|x r IH]; intros H; [constructor|].
    cbn [map filter] in *. inversion H as [|? ? Hn Hr]; subst.
    destruct (negb (tid_eqb id (fst x))); [|apply IH; exact Hr].
    cbn [map]. constructor; [|apply IH; exact Hr].
    intros Hin. apply Hn. apply in_map_iff in Hin. destruct Hin as (y & Hy & Hin).
    apply filter_In in Hin. apply in_map_iff. exists y. split; [exact Hy|apply Hin].
  Qed.

  (* tmin returns a member that no member is smaller than *)
  Lemma tmin_spec (l : list (tid * E)) :
    match tmin E l with
    | Some y => In y l /\ forall x, In x l -> ~ tlt (fst x) (fst y)
    | None => l = []
    end.
  Proof.
    induction l as [|x r IH]; cbn [tmin]; [reflexivity|].
    destruct (tmin E r) as [y|].
    - destruct IH as [Hy Hmin]. destruct (tid_ltb (fst y) (fst x)) eqn:Hlt.
      + split; [right; exact Hy|]. intros z [<-|Hz]; [|apply Hmin; exact Hz].
        intros H. apply (tlt_irrefl (fst y)). eapply tlt_trans; eauto.
      + split; [left; reflexivity|]. intros z [<-|Hz]; [apply tlt_irrefl|].
        apply tid_ltb_false in Hlt. intros H. apply (Hmin z Hz).
        destruct Hlt as [Heq|Hlt]; [rewrite Heq; exact H|eapply tlt_trans; eauto].
    - subst r. split; [left; reflexivity|]. intros z [<-|[]]. apply tlt_irrefl.
  Qed.

  (* same members + unique keys: the head of the sorted map is the spec's minimum *)
  Lemma head_is_tmin (m live : list (tid * E)) :
    SortedMap m -> UniqueKeys live -> (forall x, In x m <-> In x live) ->
    tmin E live = hd_error m.
  Proof.
    intros Hs Hu Hm. pose proof (tmin_spec live) as Ht. destruct (tmin E live) as [y|].
    - destruct Ht as [Hy Hmin]. destruct m as [|h r]; [apply Hm in Hy; contradiction|].
      cbn [hd_error]. f_equal. inversion Hs as [|? ? Hs' Hall]; subst.
      assert (Hh : In h live) by (apply Hm; left; reflexivity).
      apply Hm in Hy. destruct Hy as [->|Hy]; [reflexivity|].
      rewrite Forall_forall in Hall. specialize (Hall _ Hy). exfalso. exact (Hmin h Hh Hall).
    - subst live. destruct m as [|h r]; [reflexivity|]. exfalso. apply (Hm h). left. reflexivity.
  Qed.

  Lemma NoDup_app_unit {A} (l : list A) a : NoDup l -> ~ In a l -> NoDup (l ++ [a]).
  Proof.
    intros Hn Ha. induction Hn as [|x r Hx Hr IH]; cbn [app]; [constructor; [intros []|constructor]|].
    constructor.
    - rewrite in_app_iff. cbn [In]. intros [H|[H|[]]]; [contradiction|]. subst. apply Ha. left. reflexivity.
    - apply IH. intros H. apply Ha. right. exact H.
  Qed.

  (* ---- the refinement relation ---- *)
  Definition eff (s : qstate) : list (tid * E) :=
    fold_left (process_timer_command E) (cmds s) (timers s).

  Lemma fold_sorted cs : forall m, SortedMap m -> SortedMap (fold_left (process_timer_command E) cs m).
  Proof.
    induction cs as [|[id c] r IH]; intros m Hm; [exact Hm|]. cbn [fold_left]. apply IH.
    unfold process_timer_command. cbn [fst snd]. destruct c; [apply tinsert_sorted|apply tremove_sorted]; exact Hm.
  Qed.

  Record R (s : qstate) (sp : spec) : Prop := {
    R_plain : plain s = s_plain sp;
    R_prio : prio s = s_prio sp;
    R_next : nseq s = s_next sp;
    R_idle : rst s = Idle;
    R_prep : prepared s = [];
    R_sorted : SortedMap (timers s);
    R_unique : UniqueKeys (s_live sp);
    R_live : forall x, In x (eff s) <-> In x (s_live sp);
    R_fresh : forall x, In x (s_live sp) -> snd (fst x) < s_next sp
  }.

  Lemma R_init : R (qinit E) (spec_init E).
  Proof.
    constructor; try reflexivity; cbn; try (constructor; fail); try tauto; try (intros x []).
  Qed.

  Lemma eff_sorted s sp : R s sp -> SortedMap (eff s).
  Proof. intros H. apply fold_sorted. apply (R_sorted _ _ H). Qed.

  Lemma R_enque s sp : R s sp -> R (enque_timers E s) sp /\ cmds (enque_timers E s) = [] /\ timers (enque_timers E s) = eff s.
  Proof.
    intros HR. split; [|split; reflexivity]. pose proof (eff_sorted _ _ HR). destruct HR.
    constructor; cbn; auto.
  Qed.

  (* the non-blocking choice: try_receive picks what spec_pick picks *)
  Lemma try_receive_sim s sp now :
    R s sp ->
    let '(s', o) := try_receive E s now in
    let '(sp', o') := spec_pick E sp now in
    o = o' /\ R s' sp' /\ cmds s' = [] /\
    (o = ONone E -> prio s' = [] /\ plain s' = [] /\
                    (forall id e r, timers s' = (id, e) :: r -> now < fst id) /\ sp' = sp /\ timers s' = eff s).
  Proof.
    intros HR0. destruct (R_enque _ _ HR0) as (HR & Hc & Ht).
    unfold try_receive. remember (enque_timers E s) as s1 eqn:Es1. clear Es1 HR0.
    assert (Heff : eff s1 = timers s1) by (unfold eff; rewrite Hc; reflexivity).
    pose proof (R_sorted _ _ HR) as Hs.
    assert (Hlive : forall x, In x (timers s1) <-> In x (s_live sp)) by (rewrite <- Heff; apply (R_live _ _ HR)).
    pose proof (head_is_tmin (timers s1) (s_live sp) Hs (R_unique _ _ HR) Hlive) as Hmin.
    unfold spec_pick. rewrite <- (R_prio _ _ HR), <- (R_plain _ _ HR), Hmin.
    destruct (prio s1) as [|pe pr] eqn:Ep.
    - destruct (timers s1) as [|[id e] r] eqn:Et; cbn [hd_error].
      + destruct (plain s1) as [|e' r'] eqn:Epl.
        * split; [reflexivity|]. split; [exact HR|]. split; [exact Hc|]. intros _.
          repeat split; auto; try congruence.
        * split; [reflexivity|]. split; [|split; [exact Hc|intros H; discriminate H]].
          destruct HR. constructor; cbn; auto; try congruence;
            try (unfold eff; cbn; rewrite ?Hc; cbn; exact Hlive); try exact Hs.
      + destruct (N.leb_spec (fst id) now) as [Hexp|Hexp].
        * split; [reflexivity|]. split; [|split; [exact Hc|intros H; discriminate H]].
          inversion Hs as [|? ? Hr Hall]; subst. destruct HR. constructor; cbn; auto.
          -- apply lremove_unique. assumption.
          -- intros x. unfold eff. cbn. rewrite Hc. cbn. rewrite lremove_in, <- Hlive. split.
             ++ intros H. split; [right; exact H|]. rewrite Forall_forall in Hall. specialize (Hall _ H).
                unfold keylt in Hall. cbn [fst] in Hall. intros Hx. rewrite Hx in Hall. exact (tlt_irrefl _ Hall).
             ++ intros [[H|H] Hne]; [subst x; cbn [fst] in Hne; contradiction|exact H].
          -- intros x Hx. apply lremove_in in Hx. apply R_fresh0. apply Hx.
        * destruct (plain s1) as [|e' r'] eqn:Epl.
          -- split; [reflexivity|]. split; [exact HR|]. split; [exact Hc|]. intros _.
             repeat split; auto; try congruence; try (intros id0 e0 r0 H0; rewrite Et in H0; inversion H0; subst; exact Hexp).
          -- split; [reflexivity|]. split; [|split; [exact Hc|intros H; discriminate H]].
             destruct HR. constructor; cbn; auto; try congruence;
               try (unfold eff; cbn; rewrite ?Hc; cbn; exact Hlive); try exact Hs.
    - split; [reflexivity|]. split; [|split; [exact Hc|intros H; discriminate H]].
      destruct HR. constructor; cbn; auto; try congruence;
        try (unfold eff; cbn; rewrite ?Hc; cbn; exact Hlive); try exact Hs.
  Qed.

  Lemma eff_snoc s c :
    eff {| plain := plain s; prio := prio s; cmds := cmds s ++ [c]; timers := timers s;
           nseq := nseq s; prepared := prepared s; rst := rst s |}
    = process_timer_command E (eff s) c.
  Proof. unfold eff. cbn. apply fold_left_app. Qed.

  Lemma sstep_send_timer s e d now :
    prepared s = [] ->
    sstep E s (SendTimer E e d now) =
      ({| plain := plain s; prio := prio s; cmds := cmds s ++ [((now + d, nseq s), Create E e)];
          timers := timers s; nseq := nseq s + 1; prepared := []; rst := rst s |}, OId E (now + d, nseq s)).
  Proof.
    intros Hp. unfold sstep. cbn [step force]. cbn [step prepared plain prio cmds timers nseq rst].
    rewrite Hp. cbn [app take_prepared]. rewrite N.eqb_refl. cbn [force fst]. reflexivity.
  Qed.

  Lemma rst_set_rst (s : qstate) r : rst (set_rst E s r) = r.
  Proof. reflexivity. Qed.

  Lemma set_rst_twice (s : qstate) r1 r2 : set_rst E (set_rst E s r1) r2 = set_rst E s r2.
  Proof. reflexivity. Qed.

  Lemma R_set_idle s sp : R s sp -> R (set_rst E s Idle) sp.
  Proof. intros H. destruct H. constructor; cbn; auto. Qed.

  Lemma try_receive_rst (s : qstate) r now :
    try_receive E (set_rst E s r) now = (set_rst E (fst (try_receive E s now)) r, snd (try_receive E s now)).
  Proof.
    unfold try_receive. cbn [enque_timers set_rst plain prio cmds timers nseq prepared rst].
    destruct (prio s); [|reflexivity].
    destruct (fold_left (process_timer_command E) (cmds s) (timers s)) as [|[id e] r0].
    - destruct (plain s); reflexivity.
    - destruct (fst id <=? now); [reflexivity|]. destruct (plain s); reflexivity.
  Qed.

  Lemma try_receive_out (s : qstate) now :
    match snd (try_receive E s now) with
    | ONone _ | OEvent _ _ | OPrio _ _ | OTimer _ _ _ => True
    | _ => False
    end.
  Proof.
    unfold try_receive. cbn [enque_timers set_rst plain prio cmds timers nseq prepared rst].
    destruct (prio s); [|exact I].
    destruct (fold_left (process_timer_command E) (cmds s) (timers s)) as [|[id e] r0].
    - destruct (plain s); exact I.
    - destruct (fst id <=? now); [exact I|]. destruct (plain s); exact I.
  Qed.

  Lemma wake_alarm (s : qstate) a u now :
    opt_leb a now = true ->
    step E (set_rst E s (Blocked a u)) (LWake E AAlarm now) = Some (recv_iteration E (set_rst E s (Blocked a u)) u now).
  Proof. intros H. cbn [step rst set_rst]. rewrite H. reflexivity. Qed.

  Lemma wake_default (s : qstate) a u now :
    plain s = [] -> prio s = [] -> cmds s = [] -> opt_leb u now && negb (opt_leb a now) = true ->
    step E (set_rst E s (Blocked a u)) (LWake E ADefault now) = Some (set_rst E (set_rst E s (Blocked a u)) Idle, ONone E).
  Proof. intros H1 H2 H3 H4. cbn [step rst set_rst plain prio cmds]. rewrite H1, H2, H3, H4. reflexivity. Qed.

  Ltac close_R HRx :=
    let H := fresh in
    pose proof HRx as H; destruct H;
    constructor; cbn [plain prio cmds timers nseq prepared rst set_rst s_plain s_prio s_live s_next];
    auto; try congruence; try (constructor; fail).

  (* one public call: same output, relation preserved (as long as the call returns) *)
  Lemma sstep_sim s sp o :
    R s sp ->
    let '(s', x) := sstep E s o in
    let '(sp', x') := spec_step E sp o in
    x = x' /\ (x <> OBlocked E -> R s' sp').
  Proof.
    intros HR. destruct o as [e|e|e d now|id|now|t now|now]; [cbn [sstep spec_step step force]|cbn [sstep spec_step step force]|cbn [spec_step]|cbn [sstep spec_step step force]..].
    - (* Send *)
      split; [reflexivity|]. intros _. destruct HR. constructor; cbn; auto; congruence.
    - split; [reflexivity|]. intros _. destruct HR. constructor; cbn; auto; congruence.
    - (* SendTimer: prepare + commit, atomic in a single-threaded history *)
      rewrite (sstep_send_timer s e d now (R_prep _ _ HR)).
      rewrite (R_next _ _ HR). split; [reflexivity|]. intros _.
      pose proof (eff_sorted _ _ HR) as Hes. destruct HR. constructor; cbn; auto; try congruence.
      + unfold UniqueKeys. rewrite map_app. cbn [map fst].
        apply NoDup_app_unit; [exact R_unique0|].
        intros Hin. apply in_map_iff in Hin. destruct Hin as (y & Hy & Hin).
        specialize (R_fresh0 _ Hin). rewrite Hy in R_fresh0. cbn [snd] in R_fresh0. lia.
      + intros x. unfold eff; cbn [cmds timers]; rewrite fold_left_app; cbn [fold_left]; fold (eff s). unfold process_timer_command. cbn [fst snd].
        rewrite (tinsert_in _ _ _ _ Hes), in_app_iff, R_live0. cbn [In]. split.
        * intros [H|[H _]]; [right; left; auto|left; exact H].
        * intros [H|[H|[]]]; [right|left; auto]. split; [exact H|].
          specialize (R_fresh0 _ H). intros Hx. rewrite Hx in R_fresh0. cbn [snd] in R_fresh0. lia.
      + intros x Hx. apply in_app_iff in Hx. destruct Hx as [Hx|[<-|[]]].
        * specialize (R_fresh0 _ Hx). lia.
        * cbn [fst snd]. lia.
    - (* CancelTimer *)
      split; [reflexivity|]. intros _. pose proof (eff_sorted _ _ HR) as Hes.
      destruct HR. constructor; cbn; auto; try congruence.
      + apply lremove_unique. exact R_unique0.
      + intros x. unfold eff; cbn [cmds timers]; rewrite fold_left_app; cbn [fold_left]; fold (eff s). unfold process_timer_command. cbn [fst snd].
        rewrite (tremove_in _ _ _ Hes), lremove_in, R_live0. tauto.
      + intros x Hx. apply lremove_in in Hx. apply R_fresh0. apply Hx.
    - (* TryReceive *)
      rewrite (R_idle _ _ HR). cbn [force].
      pose proof (try_receive_sim s sp now HR) as H.
      destruct (try_receive E s now) as [s' x], (spec_pick E sp now) as [sp' x'].
      destruct H as (Hx & HR' & _). split; [exact Hx|]. intros _. exact HR'.
    - (* ReceiveTimeout *)
      rewrite (R_idle _ _ HR). cbn [force]. unfold recv_iteration.
      pose proof (try_receive_sim s sp now HR) as H.
      destruct (try_receive E s now) as [s' x] eqn:Etr, (spec_pick E sp now) as [sp' x'].
      destruct H as (Hx & HR' & Hc & Hnone). subst x'.
      destruct x as [|id0|e0|e0|id0 e0| |]; try (split; [reflexivity|]; intros _; apply R_set_idle; exact HR').
      + destruct (Hnone eq_refl) as (Hp & Hpl & Hhd & -> & _). clear Hnone.
        pose proof (R_sorted _ _ HR') as Hs'.
        assert (Heff' : eff s' = timers s') by (unfold eff; rewrite Hc; reflexivity).
        assert (Hlive' : forall x, In x (timers s') <-> In x (s_live sp)) by (rewrite <- Heff'; apply (R_live _ _ HR')).
        rewrite (head_is_tmin (timers s') (s_live sp) Hs' (R_unique _ _ HR') Hlive').
        unfold finish_blocked, next_timer_alarm. rewrite rst_set_rst.
        destruct (timers s') as [|[id e] r] eqn:Et; cbn [hd_error].
        * rewrite wake_default by (cbn [opt_leb]; try rewrite N.leb_refl; auto). cbn [force].
          split; [reflexivity|]. intros _. rewrite set_rst_twice. apply R_set_idle. exact HR'.
        * destruct (N.leb_spec (fst id) (now + t)) as [Ha|Ha].
          -- rewrite wake_alarm by (cbn [opt_leb]; apply N.leb_refl). cbn [force].
             pose proof (try_receive_sim s' sp (fst id) HR') as H2. unfold recv_iteration. rewrite try_receive_rst.
             destruct (try_receive E s' (fst id)) as [s2 o2], (spec_pick E sp (fst id)) as [sp2 o2'].
             destruct H2 as (<- & HR2 & Hc2 & Hnone2). cbn [fst snd].
             destruct o2 as [|id0|e0|e0|id0 e0| |]; try (split; [reflexivity|]; intros _; rewrite set_rst_twice; apply R_set_idle; exact HR2).
             ++ exfalso. destruct (Hnone2 eq_refl) as (_ & _ & Hhd2 & _ & Ht2). rewrite Heff' in Ht2.
                specialize (Hhd2 _ _ _ Ht2). lia.
          -- rewrite wake_default.
             ++ cbn [force]. split; [reflexivity|]. intros _. rewrite set_rst_twice. apply R_set_idle. exact HR'.
             ++ assumption. ++ assumption. ++ assumption.
             ++ cbn [opt_leb]. rewrite N.leb_refl. replace (fst id <=? now + t) with false by (symmetry; apply N.leb_gt; exact Ha). reflexivity.
      + exfalso. pose proof (try_receive_out s now) as Ho. rewrite Etr in Ho. exact Ho.
    - (* Receive *)
      rewrite (R_idle _ _ HR). cbn [force]. unfold recv_iteration.
      pose proof (try_receive_sim s sp now HR) as H.
      destruct (try_receive E s now) as [s' x] eqn:Etr, (spec_pick E sp now) as [sp' x'].
      destruct H as (Hx & HR' & Hc & Hnone). subst x'.
      destruct x as [|id0|e0|e0|id0 e0| |]; try (split; [reflexivity|]; intros _; apply R_set_idle; exact HR').
      + destruct (Hnone eq_refl) as (Hp & Hpl & Hhd & -> & _). clear Hnone.
        pose proof (R_sorted _ _ HR') as Hs'.
        assert (Heff' : eff s' = timers s') by (unfold eff; rewrite Hc; reflexivity).
        assert (Hlive' : forall x, In x (timers s') <-> In x (s_live sp)) by (rewrite <- Heff'; apply (R_live _ _ HR')).
        rewrite (head_is_tmin (timers s') (s_live sp) Hs' (R_unique _ _ HR') Hlive').
        unfold finish_blocked, next_timer_alarm. rewrite rst_set_rst.
        destruct (timers s') as [|[id e] r] eqn:Et; cbn [hd_error].
        * split; [reflexivity|]. intros Hne. contradiction Hne. reflexivity.
        * rewrite wake_alarm by (cbn [opt_leb]; apply N.leb_refl). cbn [force].
          pose proof (try_receive_sim s' sp (fst id) HR') as H2. unfold recv_iteration. rewrite try_receive_rst.
          destruct (try_receive E s' (fst id)) as [s2 o2], (spec_pick E sp (fst id)) as [sp2 o2'].
          destruct H2 as (<- & HR2 & Hc2 & Hnone2). cbn [fst snd].
          destruct o2 as [|id0|e0|e0|id0 e0| |]; try (split; [reflexivity|]; intros _; rewrite set_rst_twice; apply R_set_idle; exact HR2).
          -- exfalso. destruct (Hnone2 eq_refl) as (_ & _ & Hhd2 & _ & Ht2). rewrite Heff' in Ht2.
             specialize (Hhd2 _ _ _ Ht2). lia.
      + exfalso. pose proof (try_receive_out s now) as Ho. rewrite Etr in Ho. exact Ho.
  Qed.

  (* C07: on every single-threaded history in which every call returns, every call of the model
     returns what the reference returns *)
  Theorem queue_refines_spec_from ops : forall s sp,
    R s sp ->
    ~ In (OBlocked E) (snd (spec_run E sp ops)) ->
    snd (srun E s ops) = snd (spec_run E sp ops).
  Proof.
    induction ops as [|o r IH]; intros s sp HR Hnb; [reflexivity|].
    cbn [srun spec_run] in *. pose proof (sstep_sim s sp o HR) as H.
    destruct (sstep E s o) as [s1 x], (spec_step E sp o) as [sp1 x'].
    destruct H as (-> & HR1).
    specialize (IH s1 sp1). destruct (srun E s1 r) as [s2 xs], (spec_run E sp1 r) as [sp2 xs'].
    cbn [snd] in *. f_equal. apply IH.
    - apply HR1. intros ->. apply Hnb. left. reflexivity.
    - intros Hin. apply Hnb. right. exact Hin.
  Qed.

  Theorem queue_refines_spec ops :
    ~ In (OBlocked E) (snd (spec_run E (spec_init E) ops)) ->
    snd (srun E (qinit E) ops) = snd (spec_run E (spec_init E) ops).
  Proof. apply queue_refines_spec_from. apply R_init. Qed.
End Proofs.

(* Queue.v — model of events.rs (EventSender / EventReceiver) as a deterministic labelled
   transition system.  One label = one atomic action of one thread: a channel send, the
   clock-read + fetch_add of send_with_timer, the channel send that follows it, one non-blocking
   receive, the entry of a blocking receive, one return of its select!.  The environment chooses
   the labels (interleaving, clock readings, which ready select! arm fires). *)
From MIO Require Import Base.
Local Open Scope N_scope.

Section Queue.
  Variable E : Type.

  (* TimerId(Instant, usize): deadline in ns, sequence number; derive(Ord) = lexicographic *)
  Definition tid := (N * N)%type.
  Definition tid_eqb (a b : tid) : bool := (fst a =? fst b) && (snd a =? snd b).
  Definition tid_ltb (a b : tid) : bool :=
    (fst a <? fst b) || ((fst a =? fst b) && (snd a <? snd b)).

  Inductive cmd := Create (e : E) | Cancel.

  (* BTreeMap<TimerId, E> as a list sorted by key *)
  Fixpoint tinsert (id : tid) (e : E) (l : list (tid * E)) : list (tid * E) :=
    match l with
    | [] => [(id, e)]
    | (k, v) :: r =>
        if tid_ltb id k then (id, e) :: l
        else if tid_eqb id k then (id, e) :: r      (* insert on an existing key overwrites *)
        else (k, v) :: tinsert id e r
    end.

  Fixpoint tremove (id : tid) (l : list (tid * E)) : list (tid * E) :=
    match l with
    | [] => []
    | (k, v) :: r => if tid_eqb id k then r else (k, v) :: tremove id r
    end.

  Inductive rstate :=
  | Idle
  | Blocked (alarm : option N) (until : option N).   (* what the select! is waiting for *)

  Record qstate := {
    plain : list E;                    (* `receiver` channel, oldest first *)
    prio : list E;                     (* `priority_receiver` channel *)
    cmds : list (tid * cmd);           (* `timer_receiver` channel *)
    timers : list (tid * E);           (* the BTreeMap *)
    nseq : N;                          (* timer_sequence *)
    prepared : list (N * (tid * E));   (* per sender thread: id taken, Create not yet sent *)
    rst : rstate
  }.

  Definition qinit : qstate :=
    {| plain := []; prio := []; cmds := []; timers := []; nseq := 0; prepared := []; rst := Idle |}.

  Inductive arm := APlain | APrio | ACmd | AAlarm | ADefault.

  Inductive label :=
  | LSend (e : E)                              (* EventSender::send *)
  | LSendPrio (e : E)                          (* send_with_priority *)
  | LTimerPrepare (th : N) (e : E) (d now : N) (* send_with_timer: Instant::now() + d, fetch_add *)
  | LTimerCommit (th : N)                      (* send_with_timer: timer_sender.send(Create) *)
  | LCancel (id : tid)                         (* cancel_timer *)
  | LTryRecv (now : N)                         (* try_receive; `now` = its Instant::now() reading *)
  | LRecvBegin (timeout : option N) (now : N)  (* receive (None) / receive_timeout: first iteration *)
  | LWake (a : arm) (now : N).                 (* the select! returns through arm a *)

  Inductive out :=
  | ONone                 (* Option::None / nothing returned *)
  | OId (id : tid)        (* TimerId returned by send_with_timer *)
  | OEvent (e : E)        (* a plain event returned *)
  | OPrio (e : E)         (* a priority event returned *)
  | OTimer (id : tid) (e : E)   (* a timer event returned (the id is ghost information) *)
  | OBlocked              (* the receiver is now inside select! *)
  | OUnit.

  Definition process_timer_command (ts : list (tid * E)) (c : tid * cmd) : list (tid * E) :=
    match snd c with
    | Create e => tinsert (fst c) e ts
    | Cancel => tremove (fst c) ts
    end.

  (* enque_timers: drain the command channel into the map *)
  Definition enque_timers (s : qstate) : qstate :=
    {| plain := plain s; prio := prio s; cmds := [];
       timers := fold_left process_timer_command (cmds s) (timers s);
       nseq := nseq s; prepared := prepared s; rst := rst s |}.

  Definition set_rst (s : qstate) (r : rstate) : qstate :=
    {| plain := plain s; prio := prio s; cmds := cmds s; timers := timers s;
       nseq := nseq s; prepared := prepared s; rst := r |}.

  (* try_receive: priority, then an expired timer (first key of the map), then plain *)
  Definition try_receive (s : qstate) (now : N) : qstate * out :=
    let s := enque_timers s in
    match prio s with
    | e :: r =>
        ({| plain := plain s; prio := r; cmds := cmds s; timers := timers s;
            nseq := nseq s; prepared := prepared s; rst := rst s |}, OPrio e)
    | [] =>
        match timers s with
        | (id, e) :: r =>
            if fst id <=? now then
              ({| plain := plain s; prio := prio s; cmds := cmds s; timers := r;
                  nseq := nseq s; prepared := prepared s; rst := rst s |}, OTimer id e)
            else
              match plain s with
              | e' :: r' =>
                  ({| plain := r'; prio := prio s; cmds := cmds s; timers := timers s;
                      nseq := nseq s; prepared := prepared s; rst := rst s |}, OEvent e')
              | [] => (s, ONone)
              end
        | [] =>
            match plain s with
            | e' :: r' =>
                ({| plain := r'; prio := prio s; cmds := cmds s; timers := timers s;
                    nseq := nseq s; prepared := prepared s; rst := rst s |}, OEvent e')
            | [] => (s, ONone)
            end
        end
    end.

  Definition next_timer_alarm (s : qstate) : option N :=
    match timers s with
    | (id, _) :: _ => Some (fst id)
    | [] => None
    end.

  (* one iteration of the receive()/receive_timeout() loop *)
  Definition recv_iteration (s : qstate) (until : option N) (now : N) : qstate * out :=
    match try_receive s now with
    | (s', ONone) => (set_rst s' (Blocked (next_timer_alarm s') until), OBlocked)
    | (s', o) => (set_rst s' Idle, o)
    end.

  Fixpoint take_prepared (th : N) (l : list (N * (tid * E))) : option ((tid * E) * list (N * (tid * E))) :=
    match l with
    | [] => None
    | (t, x) :: r =>
        if t =? th then Some (x, r)
        else match take_prepared th r with
             | Some (y, r') => Some (y, (t, x) :: r')
             | None => None
             end
    end.

  Definition opt_leb (a : option N) (now : N) : bool :=
    match a with Some x => x <=? now | None => false end.

  (* step s l = None: the code cannot perform l in s *)
  Definition step (s : qstate) (l : label) : option (qstate * out) :=
    match l with
    | LSend e =>
        Some ({| plain := plain s ++ [e]; prio := prio s; cmds := cmds s; timers := timers s;
                 nseq := nseq s; prepared := prepared s; rst := rst s |}, OUnit)
    | LSendPrio e =>
        Some ({| plain := plain s; prio := prio s ++ [e]; cmds := cmds s; timers := timers s;
                 nseq := nseq s; prepared := prepared s; rst := rst s |}, OUnit)
    | LTimerPrepare th e d now =>
        let id := (now + d, nseq s) in
        Some ({| plain := plain s; prio := prio s; cmds := cmds s; timers := timers s;
                 nseq := nseq s + 1; prepared := prepared s ++ [(th, (id, e))]; rst := rst s |}, OId id)
    | LTimerCommit th =>
        match take_prepared th (prepared s) with
        | Some ((id, e), rest) =>
            Some ({| plain := plain s; prio := prio s; cmds := cmds s ++ [(id, Create e)];
                     timers := timers s; nseq := nseq s; prepared := rest; rst := rst s |}, OUnit)
        | None => None
        end
    | LCancel id =>
        Some ({| plain := plain s; prio := prio s; cmds := cmds s ++ [(id, Cancel)];
                 timers := timers s; nseq := nseq s; prepared := prepared s; rst := rst s |}, OUnit)
    | LTryRecv now =>
        match rst s with
        | Idle => Some (try_receive s now)
        | Blocked _ _ => None
        end
    | LRecvBegin timeout now =>
        match rst s with
        | Idle => Some (recv_iteration s (match timeout with Some t => Some (now + t) | None => None end) now)
        | Blocked _ _ => None
        end
    | LWake a now =>
        match rst s with
        | Idle => None
        | Blocked alarm until =>
            match a with
            | APlain =>
                match plain s with
                | e :: r => Some (set_rst {| plain := r; prio := prio s; cmds := cmds s; timers := timers s;
                                             nseq := nseq s; prepared := prepared s; rst := rst s |} Idle, OEvent e)
                | [] => None
                end
            | APrio =>
                match prio s with
                | e :: r => Some (set_rst {| plain := plain s; prio := r; cmds := cmds s; timers := timers s;
                                             nseq := nseq s; prepared := prepared s; rst := rst s |} Idle, OPrio e)
                | [] => None
                end
            | ACmd =>
                match cmds s with
                | c :: r =>
                    Some (recv_iteration {| plain := plain s; prio := prio s; cmds := r;
                                            timers := process_timer_command (timers s) c;
                                            nseq := nseq s; prepared := prepared s; rst := rst s |} until now)
                | [] => None
                end
            | AAlarm =>
                if opt_leb alarm now then Some (recv_iteration s until now) else None
            | ADefault =>
                (* default(remaining) fires only when no arm is ready and the timeout elapsed *)
                match plain s, prio s, cmds s with
                | [], [], [] =>
                    if opt_leb until now && negb (opt_leb alarm now)
                    then Some (set_rst s Idle, ONone) else None
                | _, _, _ => None
                end
            end
        end
    end.

  Fixpoint run (s : qstate) (ls : list label) : option (qstate * list out) :=
    match ls with
    | [] => Some (s, [])
    | l :: r =>
        match step s l with
        | Some (s', o) =>
            match run s' r with
            | Some (s'', os) => Some (s'', o :: os)
            | None => None
            end
        | None => None
        end
    end.

  (* ------------------------------------------------------------------------------------------
     Single-threaded calls (C07): each public call as a whole.  With nobody else sending, a
     blocked receive can only be ended by its alarm or its timeout, whichever comes first. *)
  Inductive sop :=
  | Send (e : E) | SendPrio (e : E)
  | SendTimer (e : E) (d now : N)
  | CancelTimer (id : tid)
  | TryReceive (now : N)
  | ReceiveTimeout (t now : N)
  | Receive (now : N).

  Definition force (s : qstate) (r : option (qstate * out)) : qstate * out :=
    match r with Some x => x | None => (s, OUnit) end.

  Definition finish_blocked (s : qstate) : qstate * out :=
    match rst s with
    | Blocked (Some a) (Some u) =>
        if a <=? u then force s (step s (LWake AAlarm a)) else force s (step s (LWake ADefault u))
    | Blocked (Some a) None => force s (step s (LWake AAlarm a))
    | Blocked None (Some u) => force s (step s (LWake ADefault u))
    | Blocked None None => (s, OBlocked)        (* receive() on an empty queue: blocks forever *)
    | Idle => (s, OUnit)
    end.

  Definition sstep (s : qstate) (o : sop) : qstate * out :=
    match o with
    | Send e => force s (step s (LSend e))
    | SendPrio e => force s (step s (LSendPrio e))
    | SendTimer e d now =>
        let '(s1, o1) := force s (step s (LTimerPrepare 0 e d now)) in
        (fst (force s1 (step s1 (LTimerCommit 0))), o1)
    | CancelTimer id => force s (step s (LCancel id))
    | TryReceive now => force s (step s (LTryRecv now))
    | ReceiveTimeout t now =>
        match force s (step s (LRecvBegin (Some t) now)) with
        | (s1, OBlocked) => finish_blocked s1
        | r => r
        end
    | Receive now =>
        match force s (step s (LRecvBegin None now)) with
        | (s1, OBlocked) => finish_blocked s1
        | r => r
        end
    end.

  Fixpoint srun (s : qstate) (ops : list sop) : qstate * list out :=
    match ops with
    | [] => (s, [])
    | o :: r => let '(s1, x) := sstep s o in let '(s2, xs) := srun s1 r in (s2, x :: xs)
    end.

  (* ------------------------------------------------------------------------------------------
     The property text as a reference (SpecQueue): no command channel, no sorted map — a bag of
     live timers, and the choice rule of C07. *)
  Record spec := {
    s_plain : list E; s_prio : list E;
    s_live : list (tid * E);      (* live timers, in no particular order *)
    s_next : N
  }.
  Definition spec_init : spec := {| s_plain := []; s_prio := []; s_live := []; s_next := 0 |}.

  (* the live timer minimal in (deadline, scheduling sequence) *)
  Fixpoint tmin (l : list (tid * E)) : option (tid * E) :=
    match l with
    | [] => None
    | x :: r => match tmin r with
                | Some y => if tid_ltb (fst y) (fst x) then Some y else Some x
                | None => Some x
                end
    end.

  Definition lremove (id : tid) (l : list (tid * E)) : list (tid * E) :=
    filter (fun x => negb (tid_eqb id (fst x))) l.

  (* what a receive call returns at instant `now` *)
  Definition spec_pick (s : spec) (now : N) : spec * out :=
    match s_prio s with
    | e :: r => ({| s_plain := s_plain s; s_prio := r; s_live := s_live s; s_next := s_next s |}, OPrio e)
    | [] =>
        match tmin (s_live s) with
        | Some (id, e) =>
            if fst id <=? now
            then ({| s_plain := s_plain s; s_prio := s_prio s; s_live := lremove id (s_live s); s_next := s_next s |}, OTimer id e)
            else match s_plain s with
                 | e' :: r' => ({| s_plain := r'; s_prio := s_prio s; s_live := s_live s; s_next := s_next s |}, OEvent e')
                 | [] => (s, ONone)
                 end
        | None =>
            match s_plain s with
            | e' :: r' => ({| s_plain := r'; s_prio := s_prio s; s_live := s_live s; s_next := s_next s |}, OEvent e')
            | [] => (s, ONone)
            end
        end
    end.

  Definition spec_step (s : spec) (o : sop) : spec * out :=
    match o with
    | Send e => ({| s_plain := s_plain s ++ [e]; s_prio := s_prio s; s_live := s_live s; s_next := s_next s |}, OUnit)
    | SendPrio e => ({| s_plain := s_plain s; s_prio := s_prio s ++ [e]; s_live := s_live s; s_next := s_next s |}, OUnit)
    | SendTimer e d now =>
        let id := (now + d, s_next s) in
        ({| s_plain := s_plain s; s_prio := s_prio s; s_live := s_live s ++ [(id, e)]; s_next := s_next s + 1 |}, OId id)
    | CancelTimer id =>
        ({| s_plain := s_plain s; s_prio := s_prio s; s_live := lremove id (s_live s); s_next := s_next s |}, OUnit)
    | TryReceive now => spec_pick s now
    | ReceiveTimeout t now =>
        match spec_pick s now with
        | (_, ONone) =>
            (* nothing deliverable now: the earliest timer, if it expires within the timeout *)
            match tmin (s_live s) with
            | Some (id, e) => if fst id <=? now + t then spec_pick s (fst id) else (s, ONone)
            | None => (s, ONone)
            end
        | r => r
        end
    | Receive now =>
        match spec_pick s now with
        | (_, ONone) =>
            match tmin (s_live s) with
            | Some (id, e) => spec_pick s (fst id)
            | None => (s, OBlocked)
            end
        | r => r
        end
    end.

  Fixpoint spec_run (s : spec) (ops : list sop) : spec * list out :=
    match ops with
    | [] => (s, [])
    | o :: r => let '(s1, x) := spec_step s o in let '(s2, xs) := spec_run s1 r in (s2, x :: xs)
    end.
End Queue.


Arguments plain {E}. Arguments prio {E}. Arguments cmds {E}. Arguments timers {E}.
Arguments nseq {E}. Arguments prepared {E}. Arguments rst {E}.
Arguments s_plain {E}. Arguments s_prio {E}. Arguments s_live {E}. Arguments s_next {E}.

(* shape of events.rs as read by the translator (Gen.v): what the model's step function assumes *)
From MIO Require Import Gen.
Definition arm_eqb (a b : select_arm) : bool :=
  match a, b with
  | ArmPlain, ArmPlain | ArmPrio, ArmPrio | ArmCmd, ArmCmd | ArmAlarm, ArmAlarm
  | ArmDefault, ArmDefault | ArmOther, ArmOther => true
  | _, _ => false
  end.
Definition has_arm (a : select_arm) (l : list select_arm) : bool := existsb (arm_eqb a) l.
Definition events_shape_ok : bool :=
  (* receive(): loops on try_receive(), waits on the plain, priority and timer-command channels and
     on the alarm of the first timer; never on a default *)
  RECEIVE_LOOPS_ON_TRY_RECEIVE && RECEIVE_ARM_BODIES_OK && RECEIVE_TIMEOUT_ARM_BODIES_OK && has_arm ArmPlain RECEIVE_ARMS && has_arm ArmPrio RECEIVE_ARMS &&
  has_arm ArmCmd RECEIVE_ARMS && has_arm ArmAlarm RECEIVE_ARMS && negb (has_arm ArmDefault RECEIVE_ARMS) &&
  negb (has_arm ArmOther RECEIVE_ARMS) &&
  RECEIVE_TIMEOUT_LOOPS_ON_TRY_RECEIVE && has_arm ArmPlain RECEIVE_TIMEOUT_ARMS && has_arm ArmPrio RECEIVE_TIMEOUT_ARMS &&
  has_arm ArmCmd RECEIVE_TIMEOUT_ARMS && has_arm ArmAlarm RECEIVE_TIMEOUT_ARMS && has_arm ArmDefault RECEIVE_TIMEOUT_ARMS &&
  negb (has_arm ArmOther RECEIVE_TIMEOUT_ARMS) &&
  ALARM_IS_FIRST_TIMER_KEY && TRY_RECEIVE_ORDER_PRIO_TIMER_PLAIN &&
  ENQUE_TIMERS_DRAINS_WHOLE_CHANNEL && RECEIVE_TIMEOUT_REMAINING_FROM_START &&
  TIMER_ID_IS_DEADLINE_THEN_SEQ_ORDERED && TIMERS_IS_BTREEMAP_BY_TIMER_ID.

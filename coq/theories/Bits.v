(* Bits.v — testbit normal forms and a small bit-blasting tactic for N *)
From MIO Require Import Base.
Local Open Scope N_scope.

Lemma tb_shiftl x s i : N.testbit (N.shiftl x s) i = (s <=? i) && N.testbit x (i - s).
Proof.
  destruct (N.leb_spec s i) as [H|H]; simpl.
  - apply N.shiftl_spec_high'; exact H.
  - apply N.shiftl_spec_low; exact H.
Qed.

Lemma tb_mod_pow2 x n i : N.testbit (x mod 2 ^ n) i = (i <? n) && N.testbit x i.
Proof.
  destruct (N.ltb_spec i n) as [H|H]; simpl.
  - apply N.mod_pow2_bits_low; exact H.
  - apply N.mod_pow2_bits_high; exact H.
Qed.

Lemma tb_ones n i : N.testbit (N.ones n) i = (i <? n).
Proof.
  destruct (N.ltb_spec i n) as [H|H].
  - apply N.ones_spec_low; exact H.
  - apply N.ones_spec_high; exact H.
Qed.

Lemma tb_pow2 n i : N.testbit (2 ^ n) i = (i =? n).
Proof. rewrite N.pow2_bits_eqb. apply N.eqb_sym. Qed.

Lemma tb_shiftr x s i : N.testbit (N.shiftr x s) i = N.testbit x (i + s).
Proof. apply N.shiftr_spec'. Qed.

Lemma tb_small x n i : x < 2 ^ n -> n <= i -> N.testbit x i = false.
Proof.
  intros Hx Hi. rewrite <- (N.mod_small x (2 ^ n)) by exact Hx.
  rewrite tb_mod_pow2. destruct (N.ltb_spec i n); [lia|reflexivity].
Qed.

Lemma lt_pow2_of_bits x n : (forall i, n <= i -> N.testbit x i = false) -> x < 2 ^ n.
Proof.
  intros H. destruct (N.eq_dec x 0) as [->|Hx]; [apply N.neq_0_lt_0; apply N.pow_nonzero; lia|].
  apply N.log2_lt_pow2; [lia|].
  destruct (N.lt_ge_cases (N.log2 x) n) as [Hl|Hl]; [exact Hl|].
  specialize (H (N.log2 x) Hl). rewrite N.bit_log2 in H by exact Hx. discriminate.
Qed.

Lemma land_eq0_bit x n : (N.land x (2 ^ n) =? 0) = negb (N.testbit x n).
Proof.
  destruct (N.testbit x n) eqn:Hb; simpl.
  - apply N.eqb_neq. intros H0.
    assert (Hc : N.testbit (N.land x (2 ^ n)) n = false) by (rewrite H0; apply N.bits_0).
    rewrite N.land_spec, tb_pow2, Hb, N.eqb_refl in Hc. discriminate.
  - apply N.eqb_eq. apply N.bits_inj. intros i. rewrite N.land_spec, tb_pow2, N.bits_0.
    destruct (N.eqb_spec i n) as [->|]; [rewrite Hb; reflexivity|apply andb_false_r].
Qed.

Ltac tb_norm :=
  repeat first
    [ rewrite N.lor_spec | rewrite N.land_spec | rewrite tb_shiftl | rewrite tb_mod_pow2
    | rewrite tb_ones | rewrite tb_pow2 | rewrite tb_shiftr | rewrite N.bits_0 ].

(* decide the comparisons that appear, then close by arithmetic on the testbit arguments *)
Ltac tb_cases :=
  repeat match goal with
         | |- context [?a <=? ?b] => destruct (N.leb_spec a b)
         | |- context [?a <? ?b] => destruct (N.ltb_spec a b)
         | |- context [?a =? ?b] => destruct (N.eqb_spec a b)
         end;
  simpl; try lia.

(* resolve every comparison that lia can decide either way *)
Ltac cmp_lia :=
  repeat match goal with
         | |- context [?a <=? ?b] =>
             first [ replace (a <=? b) with true by (symmetry; apply N.leb_le; lia)
                   | replace (a <=? b) with false by (symmetry; apply N.leb_gt; lia) ]
         | |- context [?a <? ?b] =>
             first [ replace (a <? b) with true by (symmetry; apply N.ltb_lt; lia)
                   | replace (a <? b) with false by (symmetry; apply N.ltb_ge; lia) ]
         | |- context [?a =? ?b] =>
             first [ replace (a =? b) with true by (symmetry; apply N.eqb_eq; lia)
                   | replace (a =? b) with false by (symmetry; apply N.eqb_neq; lia) ]
         end.

Ltac bool_simp :=
  repeat progress (rewrite ?andb_false_r, ?orb_false_r, ?andb_true_r, ?orb_true_r; cbn [andb orb negb]).

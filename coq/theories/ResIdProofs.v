From MIO Require Import Base Gen Bits ResId.
Local Open Scope N_scope.

Section Proofs.
  Variable L : layout.
  Hypothesis HL : layout_ok L = true.

  Let w := tpos L.

  Local Lemma unpack :
    apos L = 0 /\ amask L = N.ones w /\ w <= 8 /\ tlocal L = 2 ^ w /\ tremote L = 0 /\
    tmask L = 2 ^ w /\ nonzero_is_local L = true /\ bpos L = w + 1 /\
    bmask L = N.shiftl (N.ones (63 - w)) (w + 1) /\ max_adapter L = N.ones w /\
    max_base L = N.ones (63 - w) /\ 1 <= rbits L /\ rbits L < 64 /\ 1 <= tok_or L /\
    tok_or L < 2 ^ rbits L /\ waker L = 0 /\ gen_init L = 0 /\ gen_step L = 1.
  Proof.
    pose proof HL as H0. unfold layout_ok in H0. fold w in H0.
    repeat match type of H0 with
           | _ && _ = true => let H := fresh "H" in apply andb_prop in H0; destruct H0 as [H0 H]
           end.
    repeat match goal with
           | H : (_ =? _) = true |- _ => apply N.eqb_eq in H
           | H : (_ <=? _) = true |- _ => apply N.leb_le in H
           | H : (_ <? _) = true |- _ => apply N.ltb_lt in H
           end.
    repeat split; assumption.
  Qed.

  Lemma ones_lt n : N.ones n < 2 ^ n.
  Proof. rewrite N.ones_equiv. pose proof (N.pow_nonzero 2 n). lia. Qed.

  Lemma le_ones_lt x n : x <= N.ones n <-> x < 2 ^ n.
  Proof. rewrite N.ones_equiv. pose proof (N.pow_nonzero 2 n). lia. Qed.

  (* bit i of the assembled id *)
  Lemma mk_id_bits a t b i :
    a < 2 ^ w -> b < 2 ^ (63 - w) ->
    N.testbit (mk_id_raw L a t b) i =
      if i <? w then N.testbit a i
      else if i =? w then rtype_eqb t Local
      else N.testbit b (i - (w + 1)).
  Proof.
    intros Ha Hb. destruct unpack as (Hap & _ & Hw & Htl & Htr & _ & _ & Hbp & _).
    unfold mk_id_raw, ushl, USIZE_MOD. rewrite Hap, Hbp.
    assert (Ht : N.testbit (match t with Local => tlocal L | Remote => tremote L end) i
                 = (i =? w) && rtype_eqb t Local).
    { destruct t; [rewrite Htl, tb_pow2; simpl; apply eq_sym, andb_true_r
                  |rewrite Htr, N.bits_0; simpl; apply eq_sym, andb_false_r]. }
    rewrite !N.lor_spec, Ht. tb_norm. rewrite N.sub_0_r.
    destruct (N.ltb_spec i w) as [Hi|Hi].
    - cmp_lia. bool_simp. reflexivity.
    - rewrite (tb_small a w i Ha Hi). destruct (N.eqb_spec i w) as [->|Hne].
      + cmp_lia. bool_simp. reflexivity.
      + cmp_lia. bool_simp.
        destruct (N.ltb_spec i 64) as [H64|H64]; bool_simp; [reflexivity|].
        symmetry. apply (tb_small b (63 - w)); [exact Hb|lia].
  Qed.

  Lemma adapter_id_spec id : adapter_id L id = id mod 2 ^ w.
  Proof.
    destruct unpack as (Hap & Ham & Hw & _). unfold adapter_id.
    rewrite Hap, Ham, N.shiftr_0_r, N.land_ones.
    apply N.mod_small. apply N.lt_le_trans with (2 ^ w).
    - apply N.mod_lt. apply N.pow_nonzero. lia.
    - change 256 with (2 ^ 8). apply N.pow_le_mono_r; lia.
  Qed.

  Lemma base_value_bits id i :
    N.testbit (base_value L id) i = (i <? 63 - w) && N.testbit id (i + (w + 1)).
  Proof.
    destruct unpack as (_ & _ & Hw & _ & _ & _ & _ & Hbp & Hbm & _). unfold base_value.
    rewrite Hbp, Hbm. tb_norm.
    replace (w + 1 <=? i + (w + 1)) with true by (symmetry; apply N.leb_le; lia).
    replace (i + (w + 1) - (w + 1)) with i by lia. simpl. apply andb_comm.
  Qed.

  Lemma resource_type_spec id : resource_type L id = if N.testbit id w then Local else Remote.
  Proof.
    destruct unpack as (_ & _ & _ & _ & _ & Htm & Hnz & _). unfold resource_type.
    rewrite Htm, Hnz, land_eq0_bit, negb_involutive. reflexivity.
  Qed.

  (* new -> accessors *)
  Theorem id_fields_roundtrip a t b :
    a <= max_adapter L -> b <= max_base L ->
    adapter_id L (mk_id_raw L a t b) = a /\
    resource_type L (mk_id_raw L a t b) = t /\
    base_value L (mk_id_raw L a t b) = b.
  Proof.
    destruct unpack as (_ & _ & Hw & _ & _ & _ & _ & _ & _ & Hma & Hmb & _).
    rewrite Hma, Hmb, !le_ones_lt. intros Ha Hb. repeat split.
    - rewrite adapter_id_spec. apply N.bits_inj. intros i. rewrite tb_mod_pow2, mk_id_bits by assumption.
      destruct (N.ltb_spec i w); simpl; [reflexivity|]. symmetry. apply (tb_small a w); assumption.
    - rewrite resource_type_spec, mk_id_bits by assumption.
      rewrite N.ltb_irrefl, N.eqb_refl. destruct t; reflexivity.
    - apply N.bits_inj. intros i. rewrite base_value_bits, mk_id_bits by assumption.
      replace (i + (w + 1) <? w) with false by (symmetry; apply N.ltb_ge; lia).
      replace (i + (w + 1) =? w) with false by (symmetry; apply N.eqb_neq; lia).
      replace (i + (w + 1) - (w + 1)) with i by lia.
      destruct (N.ltb_spec i (63 - w)); simpl; [reflexivity|]. symmetry.
      apply (tb_small b (63 - w)); assumption.
  Qed.

  (* accessors -> new: the three accessors partition all 64 bits *)
  Theorem id_partition raw :
    raw < 2 ^ 64 ->
    adapter_id L raw <= max_adapter L /\ base_value L raw <= max_base L /\
    mk_id_raw L (adapter_id L raw) (resource_type L raw) (base_value L raw) = raw.
  Proof.
    intros Hraw. destruct unpack as (_ & _ & Hw & _ & _ & _ & _ & _ & _ & Hma & Hmb & _).
    assert (Ha : adapter_id L raw < 2 ^ w).
    { rewrite adapter_id_spec. apply N.mod_lt. apply N.pow_nonzero. lia. }
    assert (Hb : base_value L raw < 2 ^ (63 - w)).
    { apply lt_pow2_of_bits. intros i Hi. rewrite base_value_bits.
      replace (i <? 63 - w) with false by (symmetry; apply N.ltb_ge; exact Hi). reflexivity. }
    rewrite Hma, Hmb, !le_ones_lt. repeat split; try assumption.
    apply N.bits_inj. intros i. rewrite mk_id_bits by assumption.
    destruct (N.ltb_spec i w) as [Hi|Hi].
    - rewrite adapter_id_spec, tb_mod_pow2. replace (i <? w) with true by (symmetry; apply N.ltb_lt; exact Hi). reflexivity.
    - destruct (N.eqb_spec i w) as [->|Hne].
      + rewrite resource_type_spec. destruct (N.testbit raw w); reflexivity.
      + rewrite base_value_bits. replace (i - (w + 1) + (w + 1)) with i by lia.
        destruct (N.ltb_spec (i - (w + 1)) (63 - w)) as [Hlt|Hge]; simpl; [reflexivity|].
        symmetry. apply (tb_small raw 64); [exact Hraw|lia].
  Qed.

  Theorem mk_id_injective a t b a' t' b' :
    a <= max_adapter L -> b <= max_base L -> a' <= max_adapter L -> b' <= max_base L ->
    mk_id_raw L a t b = mk_id_raw L a' t' b' -> a = a' /\ t = t' /\ b = b'.
  Proof.
    intros Ha Hb Ha' Hb' Heq.
    destruct (id_fields_roundtrip a t b Ha Hb) as (E1 & E2 & E3).
    destruct (id_fields_roundtrip a' t' b' Ha' Hb') as (F1 & F2 & F3).
    rewrite Heq in E1, E2, E3. repeat split; congruence.
  Qed.

  Theorem mk_id_lt a t b : a <= max_adapter L -> b <= max_base L -> mk_id_raw L a t b < 2 ^ 64.
  Proof.
    destruct unpack as (_ & _ & Hw & _ & _ & _ & _ & _ & _ & Hma & Hmb & _).
    rewrite Hma, Hmb, !le_ones_lt. intros Ha Hb. apply lt_pow2_of_bits. intros i Hi.
    rewrite mk_id_bits by assumption.
    replace (i <? w) with false by (symmetry; apply N.ltb_ge; lia).
    replace (i =? w) with false by (symmetry; apply N.eqb_neq; lia).
    apply (tb_small b (63 - w)); [exact Hb|lia].
  Qed.

  (* poll tokens *)
  Theorem token_roundtrip raw :
    raw < 2 ^ (64 - rbits L) ->
    id_of_token L (token_of_id L raw) = raw /\
    token_of_id L raw <> waker L /\
    token_of_id L raw < 2 ^ 64.
  Proof.
    intros Hraw.
    destruct unpack as (_&_&_&_&_&_&_&_&_&_&_& Hr1 & Hr2 & Ho1 & Ho2 & Hwk & _).
    unfold id_of_token, token_of_id, ushl, USIZE_MOD. repeat split.
    - apply N.bits_inj. intros i. tb_norm.
      replace (rbits L <=? i + rbits L) with true by (symmetry; apply N.leb_le; lia).
      replace (i + rbits L - rbits L) with i by lia.
      rewrite (tb_small (tok_or L) (rbits L) (i + rbits L)) by (assumption || lia).
      rewrite orb_false_r. simpl.
      destruct (N.ltb_spec (i + rbits L) 64) as [H|H]; simpl; [reflexivity|].
      symmetry. apply (tb_small raw (64 - rbits L)); [exact Hraw|lia].
    - rewrite Hwk. intros H0. apply N.lor_eq_0_iff in H0. lia.
    - apply lt_pow2_of_bits. intros i Hi. tb_norm.
      replace (i <? 64) with false by (symmetry; apply N.ltb_ge; exact Hi). simpl.
      apply (tb_small (tok_or L) (rbits L)); [exact Ho2|lia].
  Qed.

  (* ---- allocation histories ---- *)
  Definition key_ok (k : gkey) : Prop := fst k <= max_adapter L.

  Lemma gkey_eqb_eq x y : gkey_eqb x y = true <-> x = y.
  Proof.
    destruct x as [a t], y as [a' t']. unfold gkey_eqb. simpl. rewrite andb_true_iff, N.eqb_eq.
    split.
    - intros [-> Ht]. destruct t, t'; simpl in Ht; try discriminate; reflexivity.
    - intros H. inversion H. subst. split; [reflexivity|]. destruct t'; reflexivity.
  Qed.

  Lemma counter_set_same cs k v d : counter_of (counter_set cs k v) k d = v.
  Proof.
    induction cs as [|[k' v'] r IH]; simpl.
    - replace (gkey_eqb k k) with true by (symmetry; apply gkey_eqb_eq; reflexivity). reflexivity.
    - destruct (gkey_eqb k k') eqn:E; simpl.
      + replace (gkey_eqb k k) with true by (symmetry; apply gkey_eqb_eq; reflexivity). reflexivity.
      + rewrite E. exact IH.
  Qed.

  Lemma counter_set_other cs k k2 v d : k2 <> k -> counter_of (counter_set cs k v) k2 d = counter_of cs k2 d.
  Proof.
    intros Hne. induction cs as [|[k' v'] r IH]; simpl.
    - destruct (gkey_eqb k2 k) eqn:E; [apply gkey_eqb_eq in E; contradiction|reflexivity].
    - destruct (gkey_eqb k k') eqn:E; simpl.
      + apply gkey_eqb_eq in E. subst k'.
        destruct (gkey_eqb k2 k) eqn:E2; [apply gkey_eqb_eq in E2; contradiction|reflexivity].
      + destruct (gkey_eqb k2 k'); [reflexivity|exact IH].
  Qed.

  (* every id issued from state cs by requests reqs carries its generator's key and a base value
     in [counter, counter + number of requests) *)
  Lemma issue_shape cs reqs :
    Forall key_ok reqs ->
    (forall k, counter_of cs k 0 + N.of_nat (length reqs) <= max_base L + 1) ->
    forall id, In id (issue L cs reqs) ->
      exists k c, In k reqs /\ id = mk_id_raw L (fst k) (snd k) c /\
                  counter_of cs k 0 <= c /\ c <= max_base L.
  Proof.
    destruct unpack as (_&_&_&_&_&_&_&_&_&_& Hmb &_&_&_&_&_& Hgi & Hgs).
    revert cs. induction reqs as [|k r IH]; intros cs Hk Hc id Hin; [contradiction|].
    simpl in Hin. rewrite Hgi, Hgs in Hin. inversion Hk as [|? ? Hk1 Hk2]; subst.
    assert (Hlast : counter_of cs k 0 <= max_base L).
    { specialize (Hc k). simpl length in Hc. lia. }
    assert (Hmb64 : max_base L + 1 < USIZE_MOD).
    { rewrite Hmb. unfold USIZE_MOD. pose proof (ones_lt (63 - w)).
      assert (2 ^ (63 - w) <= 2 ^ 63) by (apply N.pow_le_mono_r; lia).
      assert (2 ^ 63 < 2 ^ 64) by (apply N.pow_lt_mono_r; lia). lia. }
    destruct Hin as [<-|Hin].
    - exists k, (counter_of cs k 0). split; [left; reflexivity|]. repeat split; [lia|exact Hlast].
    - rewrite N.mod_small in Hin by lia.
      destruct (IH (counter_set cs k (counter_of cs k 0 + 1)) Hk2) with (id := id) as (k2 & c & Hk2in & Hid & Hlo & Hhi).
      + intros k2. destruct (gkey_eqb k2 k) eqn:E.
        * apply gkey_eqb_eq in E. subst k2. rewrite counter_set_same. specialize (Hc k). simpl length in Hc. lia.
        * rewrite counter_set_other by (intros ->; rewrite (proj2 (gkey_eqb_eq k k) eq_refl) in E; discriminate).
          specialize (Hc k2). simpl length in Hc. lia.
      + exact Hin.
      + exists k2, c. split; [right; exact Hk2in|]. split; [exact Hid|]. split; [|exact Hhi].
        destruct (gkey_eqb k2 k) eqn:E.
        * apply gkey_eqb_eq in E. subst k2. rewrite counter_set_same in Hlo. lia.
        * rewrite counter_set_other in Hlo by (intros ->; rewrite (proj2 (gkey_eqb_eq k k) eq_refl) in E; discriminate).
          exact Hlo.
  Qed.

  (* an id is never issued twice, for any order of requests over any generators *)
  Theorem issue_nodup cs reqs :
    Forall key_ok reqs ->
    (forall k, counter_of cs k 0 + N.of_nat (length reqs) <= max_base L + 1) ->
    NoDup (issue L cs reqs).
  Proof.
    destruct unpack as (_&_&_&_&_&_&_&_&_&_& Hmb &_&_&_&_&_& Hgi & Hgs).
    revert cs. induction reqs as [|k r IH]; intros cs Hk Hc; [constructor|].
    simpl. rewrite Hgi, Hgs. inversion Hk as [|? ? Hk1 Hk2]; subst.
    assert (Hlast : counter_of cs k 0 <= max_base L).
    { specialize (Hc k). simpl length in Hc. lia. }
    assert (Hmb64 : max_base L + 1 < USIZE_MOD).
    { rewrite Hmb. unfold USIZE_MOD. pose proof (ones_lt (63 - w)).
      assert (2 ^ (63 - w) <= 2 ^ 63) by (apply N.pow_le_mono_r; lia).
      assert (2 ^ 63 < 2 ^ 64) by (apply N.pow_lt_mono_r; lia). lia. }
    rewrite N.mod_small by lia.
    assert (Hc' : forall k0, counter_of (counter_set cs k (counter_of cs k 0 + 1)) k0 0 + N.of_nat (length r) <= max_base L + 1).
    { intros k2. destruct (gkey_eqb k2 k) eqn:E.
      - apply gkey_eqb_eq in E. subst k2. rewrite counter_set_same. specialize (Hc k). simpl length in Hc. lia.
      - rewrite counter_set_other by (intros ->; rewrite (proj2 (gkey_eqb_eq k k) eq_refl) in E; discriminate).
        specialize (Hc k2). simpl length in Hc. lia. }
    constructor; [|apply IH; assumption].
    intros Hin. destruct (issue_shape _ _ Hk2 Hc' _ Hin) as (k2 & c & Hk2in & Hid & Hlo & Hhi).
    assert (Hk2ok : key_ok k2) by (rewrite Forall_forall in Hk2; apply Hk2; exact Hk2in).
    apply mk_id_injective in Hid; try assumption.
    destruct Hid as (Ea & Et & Ec).
    assert (k = k2) by (destruct k, k2; simpl in *; congruence). subst k2.
    rewrite counter_set_same in Hlo. lia.
  Qed.

  (* each issued id decodes to the adapter and kind of the generator that issued it *)
  Theorem issue_decodes cs reqs :
    Forall key_ok reqs ->
    (forall k, counter_of cs k 0 + N.of_nat (length reqs) <= max_base L + 1) ->
    Forall2 (fun k id => adapter_id L id = fst k /\ resource_type L id = snd k) reqs (issue L cs reqs).
  Proof.
    destruct unpack as (_&_&_&_&_&_&_&_&_&_& Hmb &_&_&_&_&_& Hgi & Hgs).
    revert cs. induction reqs as [|k r IH]; intros cs Hk Hc; [constructor|].
    simpl. rewrite Hgi, Hgs. inversion Hk as [|? ? Hk1 Hk2]; subst.
    assert (Hlast : counter_of cs k 0 <= max_base L).
    { specialize (Hc k). simpl length in Hc. lia. }
    assert (Hmb64 : max_base L + 1 < USIZE_MOD).
    { rewrite Hmb. unfold USIZE_MOD. pose proof (ones_lt (63 - w)).
      assert (2 ^ (63 - w) <= 2 ^ 63) by (apply N.pow_le_mono_r; lia).
      assert (2 ^ 63 < 2 ^ 64) by (apply N.pow_lt_mono_r; lia). lia. }
    rewrite N.mod_small by lia.
    constructor.
    - destruct (id_fields_roundtrip (fst k) (snd k) (counter_of cs k 0) Hk1 Hlast) as (E1 & E2 & _).
      split; assumption.
    - apply IH; [assumption|]. intros k2. destruct (gkey_eqb k2 k) eqn:E.
      + apply gkey_eqb_eq in E. subst k2. rewrite counter_set_same. specialize (Hc k). simpl length in Hc. lia.
      + rewrite counter_set_other by (intros ->; rewrite (proj2 (gkey_eqb_eq k k) eq_refl) in E; discriminate).
        specialize (Hc k2). simpl length in Hc. lia.
  Qed.
End Proofs.

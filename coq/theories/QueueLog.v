(* QueueLog.v — executable predicates on observed send/receive logs (C06).  The harness evaluates
   these same definitions (extracted) on the logs of real multi-threaded runs. *)
From MIO Require Import Base.
From Coq Require Import Sorting.Mergesort Orders.
Local Open Scope N_scope.

Module NOrder <: TotalLeBool.
  Definition t := N.
  Definition leb := N.leb.
  Theorem leb_total : forall a b, leb a b = true \/ leb b a = true.
  Proof. intros a b. unfold leb. destruct (N.leb_spec a b); [left; reflexivity|right; apply N.leb_le; lia]. Qed.
End NOrder.
Module NSort := Sort NOrder.

(* same multiset: nothing lost, nothing duplicated, nothing invented *)
Definition same_multiset_b (a b : list N) : bool := list_eqb N.eqb (NSort.sort a) (NSort.sort b).

(* events are numbered  sender * 2^40 + kind * 2^36 + index  by the harness *)
Definition ev_sender (e : N) : N := e / 2 ^ 40.
Definition ev_kind (e : N) : N := (e / 2 ^ 36) mod 16.

Definition project (sender kind : N) (l : list N) : list N :=
  filter (fun e => (ev_sender e =? sender) && (ev_kind e =? kind)) l.

(* the events one sender sent through one kind of call are received in that order *)
Definition fifo_per_sender_b (sender kind : N) (sent received : list N) : bool :=
  list_eqb N.eqb (project sender kind received) (project sender kind sent).

(* all senders 0..n-1, kinds in ks *)
Fixpoint all_fifo_b (n : nat) (ks : list N) (sent received : list N) : bool :=
  match n with
  | O => true
  | S m => forallb (fun k => fifo_per_sender_b (N.of_nat m) k sent received) ks && all_fifo_b m ks sent received
  end.

Lemma same_multiset_refl a : same_multiset_b a a = true.
Proof.
  unfold same_multiset_b. induction (NSort.sort a) as [|x r IH]; [reflexivity|].
  cbn [list_eqb]. rewrite N.eqb_refl, IH. reflexivity.
Qed.

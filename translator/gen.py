#!/usr/bin/env python3
"""Translator: /repo sources (+ locked integer-encoding / tungstenite sources) -> coq/theories/Gen.v

Re-run on every check.  Everything it cannot read in the expected shape is a hard error
(exit 2 with a message naming the file and the item), which the check reports as a broken tie.
Only constants, finite tables and the shape of a few `match`/`matches!` arms are translated;
control flow is modelled by hand and tied by the correspondence harness (DESIGN.md 2.3).
"""
import os, re, sys, json, glob

REPO = os.environ.get("VERIF_REPO", "/repo")
SRC = os.path.join(REPO, "src")


class GenError(Exception):
    pass


def read(rel):
    p = os.path.join(SRC, rel)
    try:
        return open(p).read()
    except OSError as e:
        raise GenError(f"cannot read {p}: {e}")


def strip_comments(s):
    s = re.sub(r"/\*.*?\*/", "", s, flags=re.S)
    s = re.sub(r"//[^\n]*", "", s)
    return s


# ----------------------------------------------------------------------------------------------
# tiny Rust constant-expression evaluator
# ----------------------------------------------------------------------------------------------
TOK = re.compile(r"\s*(0x[0-9A-Fa-f_]+(?:u8|u16|u32|u64|usize)?|0b[01_]+(?:u8|u16|u32|u64|usize)?|[0-9][0-9_]*(?:u8|u16|u32|u64|usize)?|[A-Za-z_][A-Za-z0-9_:]*|<<|>>|[-+*/|&()])")
BUILTIN = {
    "u16::MAX": 65535, "u8::MAX": 255, "u32::MAX": 2**32 - 1,
    "usize::MAX": 2**64 - 1, "u64::MAX": 2**64 - 1,
}
TYPES = {"usize", "u8", "u16", "u32", "u64", "i32", "c_int"}


def tokenize(e):
    out, i = [], 0
    e = e.strip()
    while i < len(e):
        m = TOK.match(e, i)
        if not m:
            raise GenError(f"cannot tokenize constant expression {e!r} at {i}")
        out.append(m.group(1))
        i = m.end()
    return out


def eval_expr(e, env):
    toks = tokenize(e)
    pos = [0]

    def peek():
        return toks[pos[0]] if pos[0] < len(toks) else None

    def nxt():
        t = peek()
        pos[0] += 1
        return t

    def atom():
        t = nxt()
        if t is None:
            raise GenError(f"unexpected end in {e!r}")
        if t == "(":
            v = expr(0)
            if nxt() != ")":
                raise GenError(f"missing ) in {e!r}")
        elif t == "-":
            v = -atom()
        elif re.match(r"0x", t):
            m = re.match(r"0x([0-9A-Fa-f_]+?)(?:_?(u8|u16|u32|u64|usize))?$", t)
            v = int(m.group(1).replace("_", ""), 16)
        elif re.match(r"0b", t):
            v = int(re.sub(r"_?(u8|u16|u32|u64|usize)$", "", t)[2:].replace("_", ""), 2)
        elif t[0].isdigit():
            v = int(re.sub(r"_?(u8|u16|u32|u64|usize)$", "", t).replace("_", ""))
        else:
            name = t
            if name in BUILTIN:
                v = BUILTIN[name]
            else:
                short = name.split("::")[-1]
                if short in env:
                    v = env[short]
                else:
                    raise GenError(f"unknown name {name!r} in constant expression {e!r}")
        # postfix `as T`
        while peek() == "as":
            nxt()
            ty = nxt()
            if ty not in TYPES:
                raise GenError(f"unknown cast type {ty!r} in {e!r}")
            bits = {"u8": 8, "u16": 16, "u32": 32, "i32": 32, "c_int": 32}.get(ty, 64)
            v &= (1 << bits) - 1
        return v

    PREC = {"|": 1, "&": 2, "<<": 3, ">>": 3, "+": 4, "-": 4, "*": 5, "/": 5}

    def expr(minp):
        lhs = atom()
        while True:
            op = peek()
            if op not in PREC or PREC[op] < minp:
                return lhs
            nxt()
            rhs = expr(PREC[op] + 1)
            if op == "|": lhs |= rhs
            elif op == "&": lhs &= rhs
            elif op == "<<": lhs = (lhs << rhs) & (2**64 - 1)
            elif op == ">>": lhs >>= rhs
            elif op == "+": lhs += rhs
            elif op == "-": lhs -= rhs
            elif op == "*": lhs *= rhs
            elif op == "/": lhs //= rhs

    v = expr(0)
    if pos[0] != len(toks):
        raise GenError(f"trailing tokens in constant expression {e!r}")
    return v


def consts(text, where, want, env=None, cfg_not=None):
    """find `const NAME: T = expr;` items (first non-cfg'ed-out definition)"""
    env = dict(env or {})
    text = strip_comments(text)
    found = {}
    for m in re.finditer(r"((?:#\[cfg\([^\]]*\)\]\s*)?)(?:pub(?:\([a-z]+\))?\s+)?const\s+([A-Z_0-9]+)\s*:\s*([A-Za-z0-9_]+)\s*=\s*([^;]+);", text):
        cfg, name, ty, ex = m.groups()
        if cfg and re.search(r'target_os\s*=\s*"(macos|windows)"', cfg) and "not(" not in cfg:
            continue
        if name in found:
            continue
        try:
            found[name] = eval_expr(ex, {**env, **found})
        except GenError:
            if name in want:
                raise
    for w in want:
        if w not in found:
            raise GenError(f"{where}: constant {w} not found")
    return found


def fn_body(text, sig_re, where):
    """return the brace-balanced body following the first match of sig_re"""
    m = re.search(sig_re, text)
    if not m:
        raise GenError(f"{where}: item matching /{sig_re}/ not found")
    i = text.index("{", m.end() - 1)
    depth, j = 0, i
    while j < len(text):
        if text[j] == "{": depth += 1
        elif text[j] == "}":
            depth -= 1
            if depth == 0:
                return text[i + 1:j]
        j += 1
    raise GenError(f"{where}: unbalanced braces after /{sig_re}/")


def match_table(body, where, val_re=r"[^,]+"):
    """arms `Pat => value,` of a flat match -> list of (pattern, value) (cfg attrs dropped)"""
    body = strip_comments(body)
    body = re.sub(r"#\[cfg\([^\]]*\)\]", "", body)
    m = re.search(r"match\s+[^{]+\{", body)
    if not m:
        raise GenError(f"{where}: no match expression")
    inner = body[m.end():]
    inner = inner[:inner.rindex("}")]
    arms = []
    for a in re.finditer(r"\s*([A-Za-z0-9_:]+|_)\s*=>\s*(" + val_re + r")\s*,", inner):
        arms.append((a.group(1).split("::")[-1], a.group(2).strip()))
    if not arms:
        raise GenError(f"{where}: no arms recognised")
    return arms


def cargo_lock_version(pkg):
    lock = open(os.path.join(REPO, "Cargo.lock")).read()
    m = re.search(r'name = "%s"\nversion = "([^"]+)"' % re.escape(pkg), lock)
    if not m:
        raise GenError(f"Cargo.lock: package {pkg} not found")
    return m.group(1)


def registry_src(pkg):
    ver = cargo_lock_version(pkg)
    cands = glob.glob(os.path.expanduser(f"~/.cargo/registry/src/*/{pkg}-{ver}"))
    if not cands:
        raise GenError(f"cargo registry: source of {pkg}-{ver} not found")
    return cands[0], ver


# ----------------------------------------------------------------------------------------------
def gen():
    out = []
    facts = {}  # also dumped as JSON for the python side of the checks
    emit = out.append

    def defN(name, v, comment=""):
        facts[name] = v
        emit(f"Definition {name} : N := {v}%N.{('  (* ' + comment + ' *)') if comment else ''}")

    def defB(name, v, comment=""):
        facts[name] = bool(v)
        emit(f"Definition {name} : bool := {'true' if v else 'false'}.{('  (* ' + comment + ' *)') if comment else ''}")

    emit("(* GENERATED on every run by /verif/translator/gen.py from the working tree of /repo.")
    emit("   Do not edit; not committed. *)")
    emit("From Coq Require Import NArith List Bool.")
    emit("Import ListNotations.")
    emit("Local Open Scope N_scope.")
    emit("")

    # ---- resource_id.rs -------------------------------------------------------------------
    t = read("network/resource_id.rs")
    c = consts(t, "resource_id.rs", ["ADAPTER_ID_POS", "RESOURCE_TYPE_POS", "BASE_VALUE_POS",
                                     "ADAPTER_ID_MASK", "BASE_VALUE_MASK", "MAX_BASE_VALUE",
                                     "MAX_ADAPTER_ID", "MAX_ADAPTERS"])
    emit("(* network/resource_id.rs *)")
    for k in ["ADAPTER_ID_POS", "RESOURCE_TYPE_POS", "BASE_VALUE_POS", "ADAPTER_ID_MASK",
              "BASE_VALUE_MASK", "MAX_BASE_VALUE", "MAX_ADAPTER_ID", "MAX_ADAPTERS"]:
        defN(k, c[k])
    body = strip_comments(fn_body(t, r"fn\s+new\s*\(\s*adapter_id", "resource_id.rs::new"))
    m = re.search(r"ResourceType::Local\s*=>\s*([^,]+),\s*ResourceType::Remote\s*=>\s*([^,]+),", body)
    if not m:
        raise GenError("resource_id.rs::new: resource_type match arms not recognised")
    env = dict(c)
    defN("TYPE_BITS_LOCAL", eval_expr(m.group(1).replace("Self::", ""), env))
    defN("TYPE_BITS_REMOTE", eval_expr(m.group(2).replace("Self::", ""), env))
    # shape of the id expression
    idm = re.search(r"id:\s*\(\(adapter_id as usize\)\s*<<\s*Self::ADAPTER_ID_POS\)\s*\|\s*resource_type\s*\|\s*\(base_value\s*<<\s*Self::BASE_VALUE_POS\)", body)
    if not idm:
        raise GenError("resource_id.rs::new: id expression is not (adapter<<POS)|type|(base<<POS)")
    body = strip_comments(fn_body(t, r"pub fn resource_type\s*\(", "resource_id.rs::resource_type"))
    m = re.search(r"if\s+self\.id\s*&\s*\(([^)]+)\)\s*!=\s*0\s*\{\s*ResourceType::(\w+)\s*\}\s*else\s*\{\s*ResourceType::(\w+)", body)
    if not m:
        raise GenError("resource_id.rs::resource_type: shape not recognised")
    defN("TYPE_TEST_MASK", eval_expr(m.group(1).replace("Self::", ""), env))
    defB("TYPE_TEST_NONZERO_IS_LOCAL", m.group(2) == "Local" and m.group(3) == "Remote")
    if not ((m.group(2), m.group(3)) in [("Local", "Remote"), ("Remote", "Local")]):
        raise GenError("resource_type arms")
    body = strip_comments(fn_body(t, r"pub fn adapter_id\s*\(", "resource_id.rs::adapter_id"))
    if not re.search(r"\(\(self\.id\s*&\s*Self::ADAPTER_ID_MASK as usize\)\s*>>\s*Self::ADAPTER_ID_POS\)\s*as u8", body):
        raise GenError("resource_id.rs::adapter_id: shape not recognised")
    body = strip_comments(fn_body(t, r"pub fn base_value\s*\(", "resource_id.rs::base_value"))
    if not re.search(r"\(self\.id\s*&\s*Self::BASE_VALUE_MASK\)\s*>>\s*Self::BASE_VALUE_POS", body):
        raise GenError("resource_id.rs::base_value: shape not recognised")
    body = strip_comments(fn_body(t, r"pub fn generate\s*\(", "resource_id.rs::generate"))
    m = re.search(r"self\.last\.fetch_add\(\s*(\d+)\s*,", body)
    if not m or not re.search(r"ResourceId::new\(self\.adapter_id,\s*self\.resource_type,\s*last\)", body):
        raise GenError("resource_id.rs::generate: shape not recognised")
    defN("GEN_STEP", int(m.group(1)), "fetch_add increment")
    m = re.search(r"last:\s*AtomicUsize::new\((\d+)\)", strip_comments(t))
    if not m:
        raise GenError("resource_id.rs: generator initial value not found")
    defN("GEN_INIT", int(m.group(1)))
    emit("")

    # ---- poll.rs ---------------------------------------------------------------------------
    t = read("network/poll.rs")
    c2 = consts(t, "poll.rs", ["RESERVED_BITS", "EVENTS_SIZE"])
    emit("(* network/poll.rs *)")
    defN("RESERVED_BITS", c2["RESERVED_BITS"])
    m = re.search(r"const WAKER_TOKEN: Token = Token\((\d+)\);", t)
    if not m:
        raise GenError("poll.rs: WAKER_TOKEN not found")
    defN("WAKER_TOKEN", int(m.group(1)))
    st = strip_comments(t)
    if not re.search(r"impl From<Token> for ResourceId\s*\{\s*fn from\(token: Token\) -> Self\s*\{\s*\(token\.0\s*>>\s*Poll::RESERVED_BITS\)\.into\(\)", st):
        raise GenError("poll.rs: From<Token> for ResourceId shape not recognised")
    m = re.search(r"impl From<ResourceId> for Token\s*\{\s*fn from\(id: ResourceId\) -> Self\s*\{\s*Token\(\(id\.raw\(\)\s*<<\s*Poll::RESERVED_BITS\)\s*\|\s*(\d+)\)", st)
    if not m:
        raise GenError("poll.rs: From<ResourceId> for Token shape not recognised")
    defN("TOKEN_OR", int(m.group(1)))
    emit("")

    # ---- constants of the adapters / encoding / node ---------------------------------------
    emit("(* util/encoding.rs, adapters, node.rs *)")
    defN("MAX_ENCODED_SIZE", consts(read("util/encoding.rs"), "encoding.rs", ["MAX_ENCODED_SIZE"])["MAX_ENCODED_SIZE"])
    defN("TCP_INPUT_BUFFER_SIZE", consts(read("adapters/tcp.rs"), "tcp.rs", ["INPUT_BUFFER_SIZE"])["INPUT_BUFFER_SIZE"])
    defN("FRAMED_INPUT_BUFFER_SIZE", consts(read("adapters/framed_tcp.rs"), "framed_tcp.rs", ["INPUT_BUFFER_SIZE"])["INPUT_BUFFER_SIZE"])
    udp = read("adapters/udp.rs")
    cu = consts(udp, "udp.rs", ["MAX_LOCAL_PAYLOAD_LEN", "MAX_INTERNET_PAYLOAD_LEN"])
    defN("UDP_MAX_LOCAL_PAYLOAD_LEN", cu["MAX_LOCAL_PAYLOAD_LEN"])
    # every receive buffer declared in udp.rs
    bufs = re.findall(r"let buffer: MaybeUninit<\[u8;\s*([^\]]+)\]>", strip_comments(udp))
    if len(bufs) < 2:
        raise GenError("udp.rs: receive buffers not recognised")
    defN("UDP_RECV_BUF_MIN", min(eval_expr(b, cu) for b in bufs), "smallest receive buffer declared in udp.rs")
    ws = read("adapters/ws.rs")
    defN("WS_MAX_PAYLOAD_LEN", consts(ws, "ws.rs", ["MAX_PAYLOAD_LEN"])["MAX_PAYLOAD_LEN"])
    node = strip_comments(read("node.rs"))
    m = re.search(r"SAMPLING_TIMEOUT: Duration = Duration::from_millis\((\d+)\)", node)
    if not m:
        raise GenError("node.rs: SAMPLING_TIMEOUT not found")
    defN("SAMPLING_TIMEOUT_MS", int(m.group(1)))
    # the listener loops of node.rs (C09 termination): every blocking wait is bounded by
    # SAMPLING_TIMEOUT and is the first action of a loop whose condition re-reads the stop flag
    node_code = node.split("#[cfg(test)]")[0]
    nlines = [l for l in node_code.split("\n") if l.strip() and not l.strip().startswith("#[cfg(message_io_verif)]") and "crate::verif::" not in l]
    # (ANY call on the processor or on the signal receiver inside node.rs counts as a wait)
    waits = [i for i, l in enumerate(nlines) if re.search(r"network_processor\s*\.\s*\w+\(", l) or re.search(r"signal_receiver\s*\.\s*\w+\(", l)]
    bounded = bool(waits) and all(("process_poll_event(Some(*SAMPLING_TIMEOUT)" in nlines[i]) or ("receive_timeout(*SAMPLING_TIMEOUT)" in nlines[i]) for i in waits)
    heads = bool(waits) and all(re.search(r"while\s+(self\.)?handler\.is_running\(\)\s*\{|while\s+cache_running\.load\(", nlines[i - 1]) for i in waits)
    defB("NODE_WAITS_BOUNDED_BY_SAMPLING_TIMEOUT", bounded, "every process_poll_event / signal receive of node.rs waits at most SAMPLING_TIMEOUT")
    defB("NODE_WAITS_AT_LOOP_HEADS_THAT_READ_THE_FLAG", heads, "each such wait is the first action of a `while is_running()` / `while cache_running` loop")
    # the start-up cache (C15): an unbounded FIFO — one push_back (cache thread), pop_front only in the
    # two replay loops, created empty with VecDeque::new(), nothing else touches it; enqueue() forwards
    # every event through the plain send() of one queue
    cache_calls = re.findall(r"\bcache\s*\.\s*(\w+)\s*\(", "\n".join(nlines))
    cache_ok = sorted(c for c in cache_calls if c not in ("len", "is_empty")) == ["pop_front", "pop_front", "push_back"] and \
        bool(re.search(r"let mut cache = VecDeque::new\(\);", node_code)) and "with_capacity" not in node_code
    defB("NODE_CACHE_IS_UNBOUNDED_FIFO", cache_ok, "node.rs cache: VecDeque::new(), one push_back, pop_front in the two replay loops only")
    # (a shape that is not recognised any more is a fact that no longer holds, not a reason to stop:
    # the check then goes on to search for a failing input)
    def body_or_empty(text, sig, where):
        try:
            return fn_body(text, sig, where)
        except GenError:
            return ""
    enq = " ".join(body_or_empty(node_code, r"pub fn enqueue\(self\)", "node.rs::enqueue").split())
    defB("NODE_ENQUEUE_FORWARDS_WITH_PLAIN_SEND", "self.for_each_async(move |node_event| sender.send(node_event.into()))" in enq and "send_with_priority" not in enq and "send_with_timer" not in enq,
         "enqueue() = for_each_async(|e| sender.send(e.into()))")
    stop_body = body_or_empty(node_code, r"pub fn stop\(&self\)\s*\{", "node.rs::stop")
    defB("NODE_STOP_CLEARS_RUNNING", bool(re.search(r"running\.store\(\s*false", stop_body)), "NodeHandler::stop stores false into the running flag")
    # the callback lock (C05): the user callback is wrapped once per listener mode in Arc<std::sync::Mutex<..>>,
    # every invocation after that happens through a guard bound from multiplexed.lock(), and the only
    # `unsafe` of the file is the Send impl of the wrapper that carries the Arc to the signal thread
    def mux_ok(body):
        k = body.find("Arc::new(Mutex::new(event_callback))")
        if k < 0:
            return False
        after = body[k:]
        calls = len(re.findall(r"\(\s*NodeEvent::(?:Network|Signal)\(", after))
        named = len(re.findall(r"\bevent_callback\(\s*NodeEvent::(?:Network|Signal)\(", after))
        guards = len(re.findall(r"let mut event_callback\s*=\s*multiplexed(?:\.0)?\s*\.lock\(\)", " ".join(after.split())))
        return calls >= 1 and calls == named == guards
    fe = body_or_empty(node_code, r"pub fn for_each\(mut self,", "node.rs::for_each")
    fa = body_or_empty(node_code, r"pub fn for_each_async\(", "node.rs::for_each_async")
    std_mutex = bool(re.search(r"use std::sync::\{[^}]*\bMutex\b[^}]*\}", node_code)) and len(re.findall(r"\bMutex\b", node_code.split("use std::sync::")[0])) == 0
    lock_ok = std_mutex and mux_ok(fe) and mux_ok(fa) and len(re.findall(r"\bunsafe\b", node_code)) == 1 and "try_lock" not in node_code and \
        bool(re.search(r"unsafe impl<S> Send for SendableEventCallback<'_, S> \{\}", node_code)) and not re.search(r"\*(const|mut)\b", node_code)
    defB("NODE_CALLBACK_ONLY_UNDER_STD_MUTEX", lock_ok, "for_each / for_each_async: Arc<std Mutex<callback>>, every invocation through a guard of multiplexed.lock(), no unsafe but the Send impl")
    emit("")

    # ---- transport.rs tables ----------------------------------------------------------------
    t = read("network/transport.rs")
    emit("(* network/transport.rs : finite tables, one row per Transport variant *)")
    enum_body = strip_comments(fn_body(t, r"pub enum Transport\s*\{", "transport.rs::Transport"))
    enum_body = re.sub(r"#\[cfg\([^\]]*\)\]", "", enum_body)
    variants = [v.strip() for v in enum_body.split(",") if v.strip()]
    ids = dict((k, int(v)) for k, v in match_table(fn_body(t, r"pub const fn id\s*\(self\)", "Transport::id"), "Transport::id", r"\d+"))
    env2 = {"MAX_LOCAL_PAYLOAD_LEN": cu["MAX_LOCAL_PAYLOAD_LEN"], "MAX_PAYLOAD_LEN": facts["WS_MAX_PAYLOAD_LEN"]}
    mms = dict((k, eval_expr(v, env2)) for k, v in match_table(fn_body(t, r"pub const fn max_message_size\s*\(self\)", "max_message_size"), "max_message_size"))
    co = dict((k, v == "true") for k, v in match_table(fn_body(t, r"pub const fn is_connection_oriented\s*\(self\)", "is_connection_oriented"), "is_connection_oriented", r"true|false"))
    pb = dict((k, v == "true") for k, v in match_table(fn_body(t, r"pub const fn is_packet_based\s*\(self\)", "is_packet_based"), "is_packet_based", r"true|false"))
    frm = match_table(fn_body(t, r"impl From<u8> for Transport\s*\{\s*fn from\(id: u8\) -> Self", "From<u8> for Transport"), "From<u8>", r"Transport::\w+|panic!\([^)]*\)")
    from_u8 = {}
    for k, v in frm:
        if k == "_":
            if not v.startswith("panic!"):
                raise GenError("From<u8> for Transport: default arm is not a panic")
        else:
            from_u8[int(k)] = v.split("::")[-1]
    for v in variants:
        for tab, nm in [(ids, "id"), (mms, "max_message_size"), (co, "is_connection_oriented"), (pb, "is_packet_based")]:
            if v not in tab:
                raise GenError(f"transport.rs: {nm} has no arm for {v}")
    emit("Inductive transport := " + " | ".join("T" + v for v in variants) + ".")
    emit("Definition all_transports : list transport := [" + "; ".join("T" + v for v in variants) + "].")
    for nm, tab, ty, fmt in [("transport_id", ids, "N", lambda x: f"{x}%N"),
                             ("transport_max_message_size", mms, "N", lambda x: f"{x}%N"),
                             ("transport_is_connection_oriented", co, "bool", lambda x: "true" if x else "false"),
                             ("transport_is_packet_based", pb, "bool", lambda x: "true" if x else "false")]:
        emit(f"Definition {nm} (t : transport) : {ty} := match t with " + " | ".join(f"T{v} => {fmt(tab[v])}" for v in variants) + " end.")
    emit("Definition transport_from_u8 (n : N) : option transport :=  (* None = panic!(\"Not available transport\") *)")
    s = "  "
    for k in sorted(from_u8):
        s += f"if N.eqb n {k} then Some T{from_u8[k]} else "
    emit(s + "None.")
    facts["transports"] = {v: {"id": ids[v], "max": mms[v], "co": co[v], "pb": pb[v]} for v in variants}
    facts["from_u8"] = from_u8
    emit("")

    # ---- endpoint.rs::from_listener ---------------------------------------------------------
    t = strip_comments(read("network/endpoint.rs"))
    body = fn_body(t, r"pub fn from_listener\s*\(", "endpoint.rs::from_listener")
    a1 = re.search(r"assert_eq!\(id\.resource_type\(\),\s*super::resource_id::ResourceType::(\w+)\)", body)
    a2 = re.search(r"assert!\(\s*(!?)\s*super::transport::Transport::from\(id\.adapter_id\(\)\)\.is_connection_oriented\(\)\s*\)", body)
    a3 = re.search(r"Endpoint::new\(id,\s*addr\)", body)
    emit("(* network/endpoint.rs::from_listener *)")
    defB("FROM_LISTENER_REQUIRES_LOCAL", bool(a1) and a1.group(1) == "Local")
    defB("FROM_LISTENER_REQUIRES_NOT_CONN_ORIENTED", bool(a2) and a2.group(1) == "!")
    defB("FROM_LISTENER_RETURNS_ID_ADDR", bool(a3))
    emit("")

    # ---- remote_addr.rs ---------------------------------------------------------------------
    t = strip_comments(read("network/remote_addr.rs"))
    emit("(* network/remote_addr.rs *)")
    emit("Inductive ra_ctor := CSocket | CStr.")

    def ctor_of(fn, pat):
        body = fn_body(t, r"pub fn " + fn + r"\s*\(&self\)", "remote_addr.rs::" + fn)
        m = re.search(pat, body)
        if not m:
            raise GenError(f"remote_addr.rs::{fn}: shape not recognised")
        return {"Socket": "CSocket", "Str": "CStr"}[m.group(1)]

    for fn, pat in [("is_socket_addr", r"matches!\(self,\s*RemoteAddr::(\w+)\(_\)\)"),
                    ("is_string", r"matches!\(self,\s*RemoteAddr::(\w+)\(_\)\)"),
                    ("socket_addr", r"RemoteAddr::(\w+)\(addr\)\s*=>\s*addr,\s*_\s*=>\s*panic!"),
                    ("string", r"RemoteAddr::(\w+)\(addr\)\s*=>\s*addr,\s*_\s*=>\s*panic!")]:
        cname = ctor_of(fn, pat)
        facts["ra_" + fn] = cname
        emit(f"Definition ra_{fn}_ctor : ra_ctor := {cname}.")
    body = fn_body(t, r"impl ToRemoteAddr for &str\s*\{\s*fn to_remote_addr", "remote_addr.rs::<&str>::to_remote_addr")
    m = re.search(r"match self\.parse\(\)\s*\{\s*Ok\(addr\)\s*=>\s*RemoteAddr::(\w+)\(addr\),\s*Err\(_\)\s*=>\s*RemoteAddr::(\w+)\(self\.to_string\(\)\),", body)
    if not m:
        raise GenError("remote_addr.rs: <&str>::to_remote_addr shape not recognised")
    emit(f"Definition ra_parse_ok_ctor : ra_ctor := {'CSocket' if m.group(1)=='Socket' else 'CStr'}.")
    emit(f"Definition ra_parse_err_ctor : ra_ctor := {'CSocket' if m.group(2)=='Socket' else 'CStr'}.")
    facts["ra_parse_ok"], facts["ra_parse_err"] = m.group(1), m.group(2)
    for ty in ["String", "&String"]:
        b = fn_body(t, r"impl ToRemoteAddr for " + re.escape(ty) + r"\s*\{\s*fn to_remote_addr", f"remote_addr.rs::<{ty}>")
        if "(self as &str).to_remote_addr()" not in b:
            raise GenError(f"remote_addr.rs: <{ty}>::to_remote_addr does not delegate to &str")
    for ty, pat in [("SocketAddr", r"RemoteAddr::Socket\(\*self\)"),
                    ("SocketAddrV4", r"RemoteAddr::Socket\(SocketAddr::V4\(\*self\)\)"),
                    ("SocketAddrV6", r"RemoteAddr::Socket\(SocketAddr::V6\(\*self\)\)"),
                    ("RemoteAddr", r"self\.clone\(\)")]:
        b = fn_body(t, r"impl ToRemoteAddr for " + ty + r"\s*\{\s*fn to_remote_addr", f"remote_addr.rs::<{ty}>")
        if not re.search(pat, b):
            raise GenError(f"remote_addr.rs: <{ty}>::to_remote_addr is not the lossless wrapper")
    defB("RA_SOCKET_TYPES_WRAP_LOSSLESS", True, "SocketAddr/V4/V6/RemoteAddr impls wrap *self unchanged")
    emit("")

    # ---- ready_to_write of each adapter ----------------------------------------------------
    emit("(* adapters: ready_to_write must be constantly true (driver.rs::write_to_remote) *)")
    allconst = True
    for f in ["adapters/tcp.rs", "adapters/framed_tcp.rs", "adapters/udp.rs", "adapters/ws.rs"]:
        tt = strip_comments(read(f))
        m = re.search(r"fn ready_to_write\s*\(&self\)\s*->\s*bool\s*\{", tt)
        if m:
            b = fn_body(tt, r"fn ready_to_write\s*\(&self\)\s*->\s*bool", f + "::ready_to_write").strip()
            if b != "true":
                allconst = False
    ad = strip_comments(read("network/adapter.rs"))
    b = fn_body(ad, r"fn ready_to_write\s*\(&self\)\s*->\s*bool", "adapter.rs::ready_to_write").strip()
    if b != "true":
        allconst = False
    defB("READY_TO_WRITE_CONST_TRUE", allconst)
    # network.rs::connect_sync_with: connect_with()?, then nothing but: sleep 1 ms; is_ready ->
    # Some(true) => Ok / Some(false) => go on / None => Err(ConnectionRefused)   (the model of C03)
    nw = strip_comments(read("network.rs"))
    try:
        csb = " ".join(fn_body(nw, r"pub fn connect_sync_with\s*\(", "network.rs::connect_sync_with").split())
    except GenError:
        csb = ""
    shape = ("let (endpoint, addr) = self.connect_with(transport_connect, addr)?; loop { "
             "std::thread::sleep(Duration::from_millis(1)); match self.is_ready(endpoint.resource_id()) { "
             "Some(true) => return Ok((endpoint, addr)), Some(false) => continue, None => { "
             "return Err(io::Error::new( io::ErrorKind::ConnectionRefused, \"Connection refused\", )) } } }")
    defB("CONNECT_SYNC_LOOP_SHAPE_OK", csb == shape, "connect_sync_with is connect_with + poll is_ready every 1 ms: Some(true) -> Ok, None -> ConnectionRefused")
    emit("")

    # ---- events.rs: what the blocking receives wait for; order of the non-blocking choice ------
    ev = strip_comments(read("events.rs"))
    emit("(* events.rs *)")
    emit("Inductive select_arm := ArmPlain | ArmPrio | ArmCmd | ArmAlarm | ArmDefault | ArmOther.")

    def arms_of(fn):
        body = fn_body(ev, r"pub fn " + fn + r"\s*\(&mut self", "events.rs::" + fn)
        m = re.search(r"select!\s*\{", body)
        if not m:
            raise GenError(f"events.rs::{fn}: no select!")
        i = body.index("{", m.start())
        depth, j = 0, i
        while j < len(body):
            if body[j] == "{": depth += 1
            elif body[j] == "}":
                depth -= 1
                if depth == 0: break
            j += 1
        sel = body[i + 1:j]
        arms = []
        for a in re.finditer(r"(recv\(\s*([^)]*?)\s*\)|default\(\s*([^)]*?)\s*\))\s*(?:->\s*\w+\s*)?=>", sel):
            if a.group(1).startswith("default"):
                arms.append("ArmDefault")
            else:
                arms.append({"self.receiver": "ArmPlain", "self.priority_receiver": "ArmPrio", "self.timer_receiver": "ArmCmd", "alarm": "ArmAlarm"}.get(a.group(2), "ArmOther"))
        loops_on_try = bool(re.search(r"loop\s*\{\s*if let Some\(event\) = self\.try_receive\(\)\s*\{\s*return", body))
        # what each arm does (the model's LWake steps): plain / priority return the event, a timer command is
        # folded and the loop goes round, the alarm just goes round (try_receive then decides), default returns None
        rhs = [" ".join(x.split()) for x in re.split(r"(?:recv\([^)]*\)|default\([^)]*\))\s*(?:->\s*\w+\s*)?=>", sel)[1:]]
        rhs = [x.rstrip(",").strip() for x in rhs]
        some = (lambda x: "Some(" + x + ")") if fn == "receive_timeout" else (lambda x: x)
        want = {"ArmPlain": "return " + some("event.unwrap()"), "ArmPrio": "return " + some("event.unwrap()"),
                "ArmCmd": "self.process_timer_command(command.unwrap())", "ArmAlarm": "()", "ArmDefault": "return None"}
        bodies_ok = len(rhs) == len(arms) and all(want.get(a) == r for a, r in zip(arms, rhs))
        facts[fn + "_arm_bodies_ok"] = bodies_ok
        return arms, loops_on_try

    for fn, nm in [("receive", "RECEIVE"), ("receive_timeout", "RECEIVE_TIMEOUT")]:
        arms, lt = arms_of(fn)
        facts[nm + "_ARMS"] = arms
        emit(f"Definition {nm}_ARMS : list select_arm := [" + "; ".join(arms) + "].")
        defB(nm + "_LOOPS_ON_TRY_RECEIVE", lt)
        defB(nm + "_ARM_BODIES_OK", bool(facts.pop(fn + "_arm_bodies_ok")), "plain / priority arms return the event, the command arm folds it, the alarm arm only re-loops, default returns None")
    # the alarm is the deadline of the first key of the map
    defB("ALARM_IS_FIRST_TIMER_KEY", bool(re.search(r"fn next_timer_alarm\(&self\)[^{]*\{\s*match self\.timers\.keys\(\)\.next\(\)\s*\{\s*Some\(next_timer\)\s*=>\s*crossbeam_channel::at\(next_timer\.0\),\s*None\s*=>\s*crossbeam_channel::never\(\)", ev)))
    # try_receive: enque_timers; priority; first timer if expired; plain
    tb = fn_body(ev, r"pub fn try_receive\s*\(&mut self", "events.rs::try_receive")
    pos = [tb.find("self.enque_timers()"), tb.find("self.priority_receiver.try_recv()"), tb.find("self.timers.iter().next()"), tb.find("self.receiver.try_recv()")]
    defB("TRY_RECEIVE_ORDER_PRIO_TIMER_PLAIN", all(x >= 0 for x in pos) and pos == sorted(pos) and "else if" not in tb)
    eb = fn_body(ev, r"fn enque_timers\s*\(&mut self", "events.rs::enque_timers")
    defB("ENQUE_TIMERS_DRAINS_WHOLE_CHANNEL", bool(re.fullmatch(r"\s*while let Ok\(timer_command\) = self\.timer_receiver\.try_recv\(\)\s*\{\s*self\.process_timer_command\(timer_command\);\s*\}\s*", eb)))
    rt = fn_body(ev, r"pub fn receive_timeout\s*\(&mut self", "events.rs::receive_timeout")
    defB("RECEIVE_TIMEOUT_REMAINING_FROM_START", bool(re.search(r"let start = Instant::now\(\);\s*loop\s*\{", rt)) and bool(re.search(r"let remaining = timeout\.saturating_sub\(start\.elapsed\(\)\);", rt)) and rt.count("remaining") == 2)
    # TimerId: (Instant, usize) ordered lexicographically by derive(Ord)
    m = re.search(r"#\[derive\(([^)]*)\)\]\s*pub struct TimerId\(([^)]*)\);", ev)
    defB("TIMER_ID_IS_DEADLINE_THEN_SEQ_ORDERED", bool(m) and "Ord" in [x.strip() for x in m.group(1).split(",")] and [x.strip() for x in m.group(2).split(",")] == ["Instant", "usize"])
    defB("TIMERS_IS_BTREEMAP_BY_TIMER_ID", "timers: BTreeMap<TimerId, E>" in ev)
    emit("")

    # ---- adapters: the shape of the send / receive loops the Wire model assumes --------------
    emit("(* adapters: loop shapes *)")
    def recv_loop_ok(fname, data_arm_re):
        tt = strip_comments(read(fname))
        body = fn_body(tt, r"fn receive\s*\(&self,", fname + "::receive")
        ok = bool(re.search(r"Ok\(0\)\s*=>\s*break ReadStatus::Disconnected", body))
        m = re.search(data_arm_re, body, flags=re.S)
        ok = ok and bool(m) and ("break" not in m.group(0)) and ("return" not in m.group(0))
        ok = ok and bool(re.search(r"ErrorKind::Interrupted\s*=>\s*continue", body))
        ok = ok and bool(re.search(r"ErrorKind::WouldBlock\s*=>\s*\{?\s*break ReadStatus::WaitNextEvent", body))
        ok = ok and body.count("ReadStatus::WaitNextEvent") == 1
        return ok
    defB("TCP_RECEIVE_LOOP_OK", recv_loop_ok("adapters/tcp.rs", r"Ok\(size\)\s*=>\s*process_data\(&input_buffer\[\.\.size\]\),"))
    defB("FRAMED_RECEIVE_LOOP_OK", recv_loop_ok("adapters/framed_tcp.rs", r"Ok\(size\)\s*=>\s*\{.*?\}\);\s*\}"))
    wss = strip_comments(read("adapters/ws.rs"))
    fr = strip_comments(read("adapters/framed_tcp.rs"))
    sb = fn_body(fr, r"fn send\s*\(&self, data", "framed_tcp.rs::send")
    lock_pos, loop_pos = sb.find("self.send_lock.lock()"), sb.find("loop {")
    defB("FRAMED_SEND_LOCKED", 0 <= lock_pos < loop_pos and bool(re.search(r"let _\w+ = self\.send_lock\.lock\(\)", sb))
         and sb.count("send_lock") == 1 and "drop(" not in sb)

    def send_loop_ok(body):
        return body.count(".write(") == 1 and body.count("loop {") == 1 and bool(re.search(r"total_bytes_sent \+= bytes_sent;", body)) \
            and bool(re.search(r"ErrorKind::WouldBlock\s*=>\s*continue", body)) and "return" not in body
    defB("FRAMED_SEND_LOOP_OK", send_loop_ok(sb) and bool(re.search(r"if total_bytes_sent == total_bytes\s*\{\s*break SendStatus::Sent", sb)))
    tsb = fn_body(strip_comments(read("adapters/tcp.rs")), r"fn send\s*\(&self, data", "tcp.rs::send")
    defB("TCP_SEND_LOOP_OK", send_loop_ok(tsb) and bool(re.search(r"if total_bytes_sent == data\.len\(\)\s*\{\s*break SendStatus::Sent", tsb)))
    wsb = fn_body(wss, r"fn receive\s*\(&self,", "ws.rs::receive")
    m = re.search(r"Message::Binary\(data\)\s*=>\s*\{(.*?)\}\s*Message::Close", wsb, flags=re.S)
    defB("WS_RECEIVE_LOOP_OK", bool(m) and "break" not in m.group(1) and "peek" not in wsb and "process_data(&data)" in m.group(1)
         and "try_lock" not in wsb and bool(re.search(r"let mut state = self\.state\.lock\(\)\.expect\(OTHER_THREAD_ERR\);", wsb))
         and bool(re.search(r"Err\(Error::Io\(ref err\)\)\s*=>\s*break Self::io_error_to_read_status\(err\)", wsb)))
    wsend = fn_body(wss, r"fn send\s*\(&self, data", "ws.rs::send")
    defB("WS_SEND_UNDER_STATE_LOCK", wsend.strip().startswith("let mut state = self.state.lock()") and "web_socket.send(message)" in wsend
         and bool(re.search(r"ErrorKind::WouldBlock\s*=>\s*\{\s*result = web_socket\.flush\(\);", wsend)) and "web_socket.write(" not in wsend)
    ub = fn_body(strip_comments(udp), r"fn receive\s*\(&self,", "udp.rs::receive")
    defB("UDP_RECEIVE_NEVER_DISCONNECTS", "ReadStatus::Disconnected" not in ub)
    up = fn_body(strip_comments(udp), r"fn pending\s*\(&self,", "udp.rs::pending")
    defB("UDP_PENDING_ALWAYS_READY", up.strip() == "PendingStatus::Ready")
    ka_ok = True
    for f in ["adapters/tcp.rs", "adapters/framed_tcp.rs"]:
        pb = fn_body(strip_comments(read(f)), r"fn pending\s*\(&self,", f + "::pending")
        ka_ok = ka_ok and bool(re.search(r"if let Err\(e\) = socket\.set_tcp_keepalive\(keepalive\)\s*\{\s*log::warn!\([^;]*\);\s*\}\s*forget\(socket\);", pb))
    defB("KEEPALIVE_SOCKET_ALWAYS_FORGOTTEN", ka_ok)
    emit("")

    # ---- integer-encoding ------------------------------------------------------------------
    d, ver = registry_src("integer-encoding")
    vt = strip_comments(open(os.path.join(d, "src", "varint.rs")).read())
    emit(f"(* integer-encoding {ver} : src/varint.rs *)")
    cv = consts(vt, "varint.rs", ["MSB", "DROP_MSB"])
    defN("VARINT_MSB", cv["MSB"])
    defN("VARINT_DROP_MSB", cv["DROP_MSB"])
    m = re.search(r"b & MSB == 0 \|\| shift > \((\d+) \* (\d+)\)\s*\{", vt)
    if not m:
        raise GenError("integer-encoding: decode cut-off not recognised")
    defN("VARINT_SHIFT_CUTOFF", int(m.group(1)) * int(m.group(2)))
    facts["integer_encoding_version"] = ver
    emit("")

    # ---- tungstenite limits -----------------------------------------------------------------
    d, ver = registry_src("tungstenite")
    pt = strip_comments(open(os.path.join(d, "src", "protocol", "mod.rs")).read())
    emit(f"(* tungstenite {ver} : WebSocketConfig::default() *)")
    body = fn_body(pt, r"impl Default for WebSocketConfig\s*\{\s*fn default\(\) -> Self", "tungstenite WebSocketConfig::default")

    def lim(name):
        m = re.search(name + r":\s*(?:Some\()?([^,\n)]+(?:\([^)]*\))?)\)?", body)
        if not m:
            raise GenError(f"tungstenite: default {name} not recognised")
        return eval_expr(m.group(1), {})

    dflt = {k: lim(k) for k in ["max_message_size", "max_frame_size", "read_buffer_size"]}
    # does ws.rs configure the limits itself?
    wss = strip_comments(ws)
    cfgd = {}
    for k in ["max_message_size", "max_frame_size"]:
        m = re.search(r"\." + k + r"\(\s*Some\(\s*([A-Za-z_0-9: <]+?)\s*\)\s*\)", wss)
        cfgd[k] = eval_expr(m.group(1), {"MAX_PAYLOAD_LEN": facts["WS_MAX_PAYLOAD_LEN"]}) if m else None
    defN("WS_LIB_READ_BUFFER_SIZE", dflt["read_buffer_size"])
    # the size pre-checks of the adapters' send paths
    m = re.search(r"fn send_packet\([^)]*\)[^{]*\{\s*if data\.len\(\) > ([A-Z_]+)\s*\{[^}]*return SendStatus::MaxPacketSizeExceeded;", strip_comments(udp))
    defN("UDP_SEND_PRECHECK", eval_expr(m.group(1), cu) if m else 2**64 - 1, "send_packet rejects payloads above this before touching the socket" if m else "no pre-check: unlimited")
    m = re.search(r"if data\.len\(\) > ([A-Z_]+)\s*\{[^}]*return SendStatus::MaxPacketSizeExceeded;", wss)
    defN("WS_SEND_PRECHECK", eval_expr(m.group(1), {"MAX_PAYLOAD_LEN": facts["WS_MAX_PAYLOAD_LEN"]}) if m else 2**64 - 1)
    both = bool(re.search(r"ws_connect\(url, stream, Some\(ws_config\(\)\)\)", wss)) and bool(re.search(r"ws_accept\(stream, Some\(ws_config\(\)\)\)", wss)) \
        and bool(re.search(r"use tungstenite::\{accept_with_config as ws_accept\};", wss)) and bool(re.search(r"use tungstenite::client::\{client_with_config as ws_connect\};", wss))
    defB("WS_CONFIG_ON_BOTH_HANDSHAKE_PATHS", both)
    # the config function: limits configured from MAX_PAYLOAD_LEN
    cf = re.search(r"fn ws_config\(\) -> WebSocketConfig \{(.*?)\n\}", wss, flags=re.S)
    if cf:
        for k in ["max_message_size", "max_frame_size"]:
            mm = re.search(r"\." + k + r"\(\s*Some\(\s*([A-Za-z_0-9: <]+?)\s*\)\s*\)", cf.group(1))
            if mm:
                cfgd[k] = eval_expr(mm.group(1), {"MAX_PAYLOAD_LEN": facts["WS_MAX_PAYLOAD_LEN"]})
    if not both:
        cfgd = {"max_message_size": None, "max_frame_size": None}   # a limit not passed on every path does not count
    defN("WS_LIB_MAX_MESSAGE_SIZE", cfgd["max_message_size"] if cfgd["max_message_size"] is not None else dflt["max_message_size"],
         "configured by ws.rs" if cfgd["max_message_size"] is not None else "tungstenite default")
    defN("WS_LIB_MAX_FRAME_SIZE", cfgd["max_frame_size"] if cfgd["max_frame_size"] is not None else dflt["max_frame_size"],
         "configured by ws.rs" if cfgd["max_frame_size"] is not None else "tungstenite default")
    # number of handshake entry points that pass a config (must be all or none)
    facts["tungstenite_version"] = ver
    emit("")
    return "\n".join(out) + "\n", facts


def main():
    outp = sys.argv[1] if len(sys.argv) > 1 else "/verif/coq/theories/Gen.v"
    factsp = sys.argv[2] if len(sys.argv) > 2 else None
    try:
        text, facts = gen()
    except GenError as e:
        print(f"GEN-ERROR: {e}")
        sys.exit(2)
    old = open(outp).read() if os.path.exists(outp) else None
    if old != text:
        os.makedirs(os.path.dirname(outp), exist_ok=True)
        tmp = outp + ".tmp%d" % os.getpid()
        open(tmp, "w").write(text)
        os.replace(tmp, outp)
        print("Gen.v rewritten")
    else:
        print("Gen.v unchanged")
    if factsp:
        json.dump(facts, open(factsp, "w"), indent=1, sort_keys=True)


if __name__ == "__main__":
    main()

(* model_run <core>: reads case lines on stdin, writes what the extracted Coq model answers,
   one line per case, in the same canonical format the harness uses for the implementation. *)
open Conv

let fail_line line = failwith ("model_run: cannot read case line: " ^ line)

(* ---- C19 ---------------------------------------------------------------------------------- *)
let remoteaddr_line line =
  let sh = RemoteAddr.gen_shape in
  let describe (ra : (string, string) RemoteAddr.remote_addr) =
    let ctor = match ra with RemoteAddr.Socket _ -> "S" | RemoteAddr.Str _ -> "T" in
    let b x = if x then "1" else "0" in
    let sa = match RemoteAddr.socket_addr sh ra with Base.Ok a -> hex a | Base.Panic -> "P" in
    let st = match RemoteAddr.string_of sh ra with Base.Ok s -> hex s | Base.Panic -> "P" in
    Printf.sprintf "%s %s %s %s %s" ctor (b (RemoteAddr.is_socket_addr sh ra)) (b (RemoteAddr.is_string sh ra)) sa st
  in
  match words line with
  | [ "str"; h; flag; canon ] ->
      let s = unhex h in
      (* the oracle table: std's parse result for exactly this text *)
      let parse (t : string) = if t = s && flag = "1" then Some (unhex canon) else None in
      (match RemoteAddr.to_remote_addr parse sh s with Some ra -> describe ra | None -> "UNTYPABLE")
  | [ "addr"; h ] -> (
      match RemoteAddr.from_socket sh (unhex h) with Some ra -> describe ra | None -> "UNTYPABLE")
  | _ -> fail_line line

(* ---- C14 ---------------------------------------------------------------------------------- *)
let resid_line mode line =
  let l = ResId.gen_layout in
  let ty = function "L" -> ResId.Local | "R" -> ResId.Remote | _ -> fail_line line in
  let tyc = function ResId.Local -> "L" | ResId.Remote -> "R" in
  match words line with
  | [ "new"; a; t; b ] -> (
      match ResId.mk_id l mode (n_of_string a) (ty t) (n_of_string b) with
      | Base.Ok id -> string_of_n id
      | Base.Panic -> "P")
  | [ "acc"; raw ] ->
      let r = n_of_string raw in
      Printf.sprintf "%s %s %s" (string_of_n (ResId.adapter_id l r)) (tyc (ResId.resource_type l r)) (string_of_n (ResId.base_value l r))
  | [ "tok"; raw ] ->
      let t = ResId.token_of_id l (n_of_string raw) in
      Printf.sprintf "%s %s" (string_of_n t) (string_of_n (ResId.id_of_token l t))
  | [ "gen"; a; t; n ] ->
      let k = (n_of_string a, ty t) in
      let reqs = List.init (int_of_string n) (fun _ -> k) in
      String.concat " " (List.map string_of_n (ResId.issue l [] reqs))
  | _ -> fail_line line

let () =
  let core = Sys.argv.(1) in
  let mode = if Array.length Sys.argv > 2 && Sys.argv.(2) = "wrapping" then Base.Wrapping else Base.Checked in
  let f =
    match core with
    | "remoteaddr" -> remoteaddr_line
    | "resid" -> resid_line mode
    | _ -> failwith ("unknown core " ^ core)
  in
  (try
     while true do
       let line = input_line stdin in
       print_string (f line);
       print_char '\n'
     done
   with End_of_file -> ());
  flush stdout

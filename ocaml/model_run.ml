(* model_run <core>: reads case lines on stdin, writes what the extracted Coq model answers,
   one line per case, in the same canonical format the harness uses for the implementation. *)
open Conv

let fail_line line = failwith ("model_run: cannot read case line: " ^ line)

(* ---- C19 ---------------------------------------------------------------------------------- *)
let remoteaddr_line line =
  let sh = RemoteAddr.gen_shape in
  let describe (ra : (string, string) RemoteAddr.remote_addr) =
    let ctor = match ra with RemoteAddr.Socket _ -> "S" | RemoteAddr.Str _ -> "T" in
    let b x = if x then "1" else "0" in
    let sa = match RemoteAddr.socket_addr sh ra with Base.Ok a -> hex a | Base.Panic -> "P" in
    let st = match RemoteAddr.string_of sh ra with Base.Ok s -> hex s | Base.Panic -> "P" in
    Stdlib.Printf.sprintf "%s %s %s %s %s" ctor (b (RemoteAddr.is_socket_addr sh ra)) (b (RemoteAddr.is_string sh ra)) sa st
  in
  match words line with
  | [ "str"; h; flag; canon ] ->
      let s = unhex h in
      (* the oracle table: std's parse result for exactly this text *)
      let parse (t : string) = if t = s && flag = "1" then Some (unhex canon) else None in
      (match RemoteAddr.to_remote_addr parse sh s with Some ra -> describe ra | None -> "UNTYPABLE")
  | [ "addr"; h ] -> (
      match RemoteAddr.from_socket sh (unhex h) with Some ra -> describe ra | None -> "UNTYPABLE")
  | _ -> fail_line line

(* ---- C14 ---------------------------------------------------------------------------------- *)
let resid_line mode line =
  let l = ResId.gen_layout in
  let ty = function "L" -> ResId.Local | "R" -> ResId.Remote | _ -> fail_line line in
  let tyc = function ResId.Local -> "L" | ResId.Remote -> "R" in
  match words line with
  | [ "new"; a; t; b ] -> (
      match ResId.mk_id l mode (n_of_string a) (ty t) (n_of_string b) with
      | Base.Ok id -> string_of_n id
      | Base.Panic -> "P")
  | [ "acc"; raw ] ->
      let r = n_of_string raw in
      Stdlib.Printf.sprintf "%s %s %s" (string_of_n (ResId.adapter_id l r)) (tyc (ResId.resource_type l r)) (string_of_n (ResId.base_value l r))
  | [ "tok"; raw ] ->
      let t = ResId.token_of_id l (n_of_string raw) in
      Stdlib.Printf.sprintf "%s %s" (string_of_n t) (string_of_n (ResId.id_of_token l t))
  | [ "gen"; a; t; n ] ->
      let k = (n_of_string a, ty t) in
      let reqs = Stdlib.List.init (int_of_string n) (fun _ -> k) in
      Stdlib.String.concat " " (Stdlib.List.map string_of_n (ResId.issue l [] reqs))
  | _ -> fail_line line

(* ---- C02 / C17 ----------------------------------------------------------------------------- *)
let decoder_line mode line =
  match words line with
  | [ "feed"; cs ] ->
      let chunks = Stdlib.List.map bytes_of_hex (Stdlib.String.split_on_char ';' cs) in
      let buf = Stdlib.Buffer.create 256 in
      let rec go k stored = function
        | [] -> ()
        | c :: rest -> (
            if k > 0 then Stdlib.Buffer.add_char buf ' ';
            match Decoder.decode mode stored c with
            | Decoder.DOk (st, outs) ->
                (if outs = [] then Stdlib.Buffer.add_char buf '.'
                 else Stdlib.Buffer.add_string buf (Stdlib.String.concat "," (Stdlib.List.map hex_of_bytes outs)));
                Stdlib.Buffer.add_string buf (Stdlib.Printf.sprintf "|%d" (Stdlib.List.length st));
                go (k + 1) st rest
            | Decoder.DPanic -> Stdlib.Buffer.add_string buf (Stdlib.Printf.sprintf "PANIC@%d" k)
            | Decoder.DOutOfFuel -> Stdlib.Buffer.add_string buf (Stdlib.Printf.sprintf "OUTOFFUEL@%d" k))
      in
      go 0 [] chunks;
      Stdlib.Buffer.contents buf
  | [ "encsz"; n ] -> (
      match Varint.enc (n_of_string n) with Some l -> hex_of_bytes l | None -> "OUTOFFUEL")
  | [ "decsz"; h ] -> (
      match Varint.decode_size (bytes_of_hex h) with
      | Some (sz, used) -> Stdlib.Printf.sprintf "%s %s" (string_of_n sz) (string_of_n used)
      | None -> "none")
  | _ -> fail_line line

let () =
  let core = Sys.argv.(1) in
  let mode = if Stdlib.Array.length Sys.argv > 2 && Sys.argv.(2) = "wrapping" then Base.Wrapping else Base.Checked in
  let f =
    match core with
    | "remoteaddr" -> remoteaddr_line
    | "resid" -> resid_line mode
    | "decoder" -> decoder_line mode
    | _ -> failwith ("unknown core " ^ core)
  in
  (try
     while true do
       let line = input_line stdin in
       print_string (f line);
       print_char '\n'
     done
   with End_of_file -> ());
  flush stdout

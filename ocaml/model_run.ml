(* model_run <core>: reads case lines on stdin, writes what the extracted Coq model answers,
   one line per case, in the same canonical format the harness uses for the implementation. *)
open Conv

let fail_line line = failwith ("model_run: cannot read case line: " ^ line)

(* ---- C19 ---------------------------------------------------------------------------------- *)
let remoteaddr_line line =
  let sh = RemoteAddr.gen_shape in
  let describe (ra : (string, string) RemoteAddr.remote_addr) =
    let ctor = match ra with RemoteAddr.Socket _ -> "S" | RemoteAddr.Str _ -> "T" in
    let b x = if x then "1" else "0" in
    let sa = match RemoteAddr.socket_addr sh ra with Base.Ok a -> hex a | Base.Panic -> "P" in
    let st = match RemoteAddr.string_of sh ra with Base.Ok s -> hex s | Base.Panic -> "P" in
    Stdlib.Printf.sprintf "%s %s %s %s %s" ctor (b (RemoteAddr.is_socket_addr sh ra)) (b (RemoteAddr.is_string sh ra)) sa st
  in
  match words line with
  | [ "str"; h; flag; canon ] ->
      let s = unhex h in
      (* the oracle table: std's parse result for exactly this text *)
      let parse (t : string) = if t = s && flag = "1" then Some (unhex canon) else None in
      (match RemoteAddr.to_remote_addr parse sh s with Some ra -> describe ra | None -> "UNTYPABLE")
  | [ "addr"; h ] -> (
      match RemoteAddr.from_socket sh (unhex h) with Some ra -> describe ra | None -> "UNTYPABLE")
  | _ -> fail_line line

(* ---- C14 ---------------------------------------------------------------------------------- *)
let resid_line mode line =
  let l = ResId.gen_layout in
  let ty = function "L" -> ResId.Local | "R" -> ResId.Remote | _ -> fail_line line in
  let tyc = function ResId.Local -> "L" | ResId.Remote -> "R" in
  match words line with
  | [ "new"; a; t; b ] -> (
      match ResId.mk_id l mode (n_of_string a) (ty t) (n_of_string b) with
      | Base.Ok id -> string_of_n id
      | Base.Panic -> "P")
  | [ "acc"; raw ] ->
      let r = n_of_string raw in
      Stdlib.Printf.sprintf "%s %s %s" (string_of_n (ResId.adapter_id l r)) (tyc (ResId.resource_type l r)) (string_of_n (ResId.base_value l r))
  | [ "tok"; raw ] ->
      let t = ResId.token_of_id l (n_of_string raw) in
      Stdlib.Printf.sprintf "%s %s" (string_of_n t) (string_of_n (ResId.id_of_token l t))
  | [ "gen"; a; t; n ] ->
      let k = (n_of_string a, ty t) in
      let reqs = Stdlib.List.init (int_of_string n) (fun _ -> k) in
      Stdlib.String.concat " " (Stdlib.List.map string_of_n (ResId.issue l [] reqs))
  | _ -> fail_line line

(* ---- C02 / C17 ----------------------------------------------------------------------------- *)
let decoder_line mode line =
  match words line with
  | [ "feed"; cs ] ->
      let chunks = Stdlib.List.map bytes_of_hex (Stdlib.String.split_on_char ';' cs) in
      let buf = Stdlib.Buffer.create 256 in
      let rec go k stored = function
        | [] -> ()
        | c :: rest -> (
            if k > 0 then Stdlib.Buffer.add_char buf ' ';
            match Decoder.decode mode stored c with
            | Decoder.DOk (st, outs) ->
                (if outs = [] then Stdlib.Buffer.add_char buf '.'
                 else Stdlib.Buffer.add_string buf (Stdlib.String.concat "," (Stdlib.List.map hex_of_bytes outs)));
                Stdlib.Buffer.add_string buf (Stdlib.Printf.sprintf "|%d" (Stdlib.List.length st));
                go (k + 1) st rest
            | Decoder.DPanic -> Stdlib.Buffer.add_string buf (Stdlib.Printf.sprintf "PANIC@%d" k)
            | Decoder.DOutOfFuel -> Stdlib.Buffer.add_string buf (Stdlib.Printf.sprintf "OUTOFFUEL@%d" k))
      in
      go 0 [] chunks;
      Stdlib.Buffer.contents buf
  | [ "encsz"; n ] -> (
      match Varint.enc (n_of_string n) with Some l -> hex_of_bytes l | None -> "OUTOFFUEL")
  | [ "decsz"; h ] -> (
      match Varint.decode_size (bytes_of_hex h) with
      | Some (sz, used) -> Stdlib.Printf.sprintf "%s %s" (string_of_n sz) (string_of_n used)
      | None -> "none")
  | _ -> fail_line line

(* ---- C07 (sequential histories of events.rs) ------------------------------------------------ *)
let queue_ops line =
  Stdlib.List.map
    (fun w ->
      match Stdlib.String.split_on_char ':' w with
      | [ "S"; e ] -> Queue.Send (n_of_string e)
      | [ "P"; e ] -> Queue.SendPrio (n_of_string e)
      | [ "T"; e; d; now ] -> Queue.SendTimer (n_of_string e, n_of_string d, n_of_string now)
      | [ "C"; dl; sq ] -> Queue.CancelTimer (n_of_string dl, n_of_string sq)
      | [ "R"; now ] -> Queue.TryReceive (n_of_string now)
      | [ "RT"; t; now ] -> Queue.ReceiveTimeout (n_of_string t, n_of_string now)
      | [ "RV"; now ] -> Queue.Receive (n_of_string now)
      | _ -> fail_line line)
    (words line)

let queue_out = function
  | Queue.ONone -> "n"
  | Queue.OId (dl, sq) -> Stdlib.Printf.sprintf "i:%s:%s" (string_of_n dl) (string_of_n sq)
  | Queue.OEvent e -> "e:" ^ string_of_n e
  | Queue.OPrio e -> "e:" ^ string_of_n e
  | Queue.OTimer (_, e) -> "e:" ^ string_of_n e
  | Queue.OBlocked -> "BLOCKED"
  | Queue.OUnit -> "u"

let queue_line line =
  let _, outs = Queue.srun Queue.qinit (queue_ops line) in
  Stdlib.String.concat " " (Stdlib.List.map queue_out outs)

let queuespec_line line =
  let _, outs = Queue.spec_run Queue.spec_init (queue_ops line) in
  Stdlib.String.concat " " (Stdlib.List.map queue_out outs)

(* ---- C06: extracted predicates on observed logs -------------------------------------------- *)
let queuelog_line line =
  match Stdlib.String.split_on_char '|' line with
  | [ left; right ] -> (
      match words left with
      | [ "log"; n; sent ] ->
          let parse l = if Stdlib.String.trim l = "" then [] else Stdlib.List.map n_of_string (Stdlib.String.split_on_char ',' (Stdlib.String.trim l)) in
          let sent = parse sent and recv = parse right in
          let same = QueueLog.same_multiset_b sent recv in
          let rec nat_of_int i = if i <= 0 then Datatypes.O else Datatypes.S (nat_of_int (i - 1)) in
          let fifo = QueueLog.all_fifo_b (nat_of_int (int_of_string n)) [ n_of_int 0; n_of_int 1 ] sent recv in
          Stdlib.Printf.sprintf "%b %b" same fifo
      | _ -> fail_line line)
  | _ -> fail_line line

(* ---- C08 / C16: labelled scenarios with a blocked receiver ----------------------------------- *)
let z_of_opt = function Some n -> Some (z_of_n n) | None -> None

let queuelabels_line line =
  let st = ref Queue.qinit in
  let last = ref "?" in
  let clock = ref Z.zero in
  let note o =
    match o with
    | Queue.OEvent e | Queue.OPrio e | Queue.OTimer (_, e) -> last := "e:" ^ string_of_n e
    | Queue.ONone -> last := "n"
    | _ -> ()
  in
  let fire l =
    match Queue.step !st l with
    | Some (s', o) -> st := s'; note o; true
    | None -> false
  in
  (* let the blocked receiver take every time-based wake-up due up to instant t (None = no bound) *)
  let rec advance (t : Z.t option) =
    match (!st).Queue.rst with
    | Queue.Idle -> ()
    | Queue.Blocked (a, u) ->
        let a = z_of_opt a and u = z_of_opt u in
        let due x = match t with Some t -> Z.leq x t | None -> true in
        let pick =
          match (a, u) with
          | Some a, Some u -> if Z.leq a u then Some (`Alarm a) else Some (`Default u)
          | Some a, None -> Some (`Alarm a)
          | None, Some u -> Some (`Default u)
          | None, None -> None
        in
        (match pick with
         | Some (`Alarm a) when due a ->
             let now = Z.max a !clock in
             clock := now;
             if fire (Queue.LWake (Queue.AAlarm, n_of_z now)) then advance t
         | Some (`Default u) when due u ->
             let now = Z.max u !clock in
             clock := now;
             if fire (Queue.LWake (Queue.ADefault, n_of_z now)) then advance t
         | _ -> ())
  in
  (* channel wake-ups: something arrived while blocked *)
  let rec channel_wakeups () =
    match (!st).Queue.rst with
    | Queue.Idle -> ()
    | Queue.Blocked _ ->
        let s = !st in
        let now = n_of_z !clock in
        if s.Queue.plain <> [] then (if fire (Queue.LWake (Queue.APlain, now)) then channel_wakeups ())
        else if s.Queue.prio <> [] then (if fire (Queue.LWake (Queue.APrio, now)) then channel_wakeups ())
        else if s.Queue.cmds <> [] then (if fire (Queue.LWake (Queue.ACmd, now)) then channel_wakeups ())
  in
  let at now = let z = Z.of_string now in advance (Some z); if Z.gt z !clock then clock := z in
  Stdlib.List.iter
    (fun w ->
      (match Stdlib.String.split_on_char ':' w with
       | [ "TP"; th; e; d; now ] -> at now; ignore (fire (Queue.LTimerPrepare (n_of_string th, n_of_string e, n_of_string d, n_of_string now)))
       | [ "TC"; th; now ] -> at now; ignore (fire (Queue.LTimerCommit (n_of_string th)))
       | [ "S"; e; now ] -> at now; ignore (fire (Queue.LSend (n_of_string e)))
       | [ "P"; e; now ] -> at now; ignore (fire (Queue.LSendPrio (n_of_string e)))
       | [ "C"; dl; sq; now ] -> at now; ignore (fire (Queue.LCancel (n_of_string dl, n_of_string sq)))
       | [ "RB"; tmo; now ] ->
           at now;
           ignore (fire (Queue.LRecvBegin ((if tmo = "-" then None else Some (n_of_string tmo)), n_of_string now)))
       | _ -> fail_line line);
      channel_wakeups ())
    (words line);
  (* no more actions from other threads: run the receiver until its call returns *)
  let rec finish k =
    if k > 0 then (
      match (!st).Queue.rst with
      | Queue.Idle -> ()
      | Queue.Blocked _ -> channel_wakeups (); advance None; finish (k - 1))
  in
  finish 20;
  (match (!st).Queue.rst with Queue.Idle -> !last | Queue.Blocked _ -> "BLOCKED-FOREVER")

let () =
  let core = Sys.argv.(1) in
  let mode = if Stdlib.Array.length Sys.argv > 2 && Sys.argv.(2) = "wrapping" then Base.Wrapping else Base.Checked in
  let f =
    match core with
    | "remoteaddr" -> remoteaddr_line
    | "resid" -> resid_line mode
    | "decoder" -> decoder_line mode
    | "queue" -> queue_line
    | "queuespec" -> queuespec_line
    | "queuelog" -> queuelog_line
    | "queuelabels" -> queuelabels_line
    | _ -> failwith ("unknown core " ^ core)
  in
  (try
     while true do
       let line = input_line stdin in
       print_string (f line);
       print_char '\n'
     done
   with End_of_file -> ());
  flush stdout

(* model_run <core>: reads case lines on stdin, writes what the extracted Coq model answers,
   one line per case, in the same canonical format the harness uses for the implementation. *)
open Conv

let fail_line line = failwith ("model_run: cannot read case line: " ^ line)

(* ---- C19 ---------------------------------------------------------------------------------- *)
let remoteaddr_line line =
  let sh = RemoteAddr.gen_shape in
  let describe (ra : (string, string) RemoteAddr.remote_addr) =
    let ctor = match ra with RemoteAddr.Socket _ -> "S" | RemoteAddr.Str _ -> "T" in
    let b x = if x then "1" else "0" in
    let sa = match RemoteAddr.socket_addr sh ra with Base.Ok a -> hex a | Base.Panic -> "P" in
    let st = match RemoteAddr.string_of sh ra with Base.Ok s -> hex s | Base.Panic -> "P" in
    Stdlib.Printf.sprintf "%s %s %s %s %s" ctor (b (RemoteAddr.is_socket_addr sh ra)) (b (RemoteAddr.is_string sh ra)) sa st
  in
  match words line with
  | [ "str"; h; flag; canon ] ->
      let s = unhex h in
      (* the oracle table: std's parse result for exactly this text *)
      let parse (t : string) = if t = s && flag = "1" then Some (unhex canon) else None in
      (match RemoteAddr.to_remote_addr parse sh s with Some ra -> describe ra | None -> "UNTYPABLE")
  | [ "addr"; h ] -> (
      match RemoteAddr.from_socket sh (unhex h) with Some ra -> describe ra | None -> "UNTYPABLE")
  | _ -> fail_line line

(* ---- C14 ---------------------------------------------------------------------------------- *)
let resid_line mode line =
  let l = ResId.gen_layout in
  let ty = function "L" -> ResId.Local | "R" -> ResId.Remote | _ -> fail_line line in
  let tyc = function ResId.Local -> "L" | ResId.Remote -> "R" in
  match words line with
  | [ "new"; a; t; b ] -> (
      match ResId.mk_id l mode (n_of_string a) (ty t) (n_of_string b) with
      | Base.Ok id -> string_of_n id
      | Base.Panic -> "P")
  | [ "acc"; raw ] ->
      let r = n_of_string raw in
      Stdlib.Printf.sprintf "%s %s %s" (string_of_n (ResId.adapter_id l r)) (tyc (ResId.resource_type l r)) (string_of_n (ResId.base_value l r))
  | [ "tok"; raw ] ->
      let t = ResId.token_of_id l (n_of_string raw) in
      Stdlib.Printf.sprintf "%s %s" (string_of_n t) (string_of_n (ResId.id_of_token l t))
  | [ "gen"; a; t; n ] ->
      let k = (n_of_string a, ty t) in
      let reqs = Stdlib.List.init (int_of_string n) (fun _ -> k) in
      Stdlib.String.concat " " (Stdlib.List.map string_of_n (ResId.issue l [] reqs))
  | _ -> fail_line line

(* ---- C02 / C17 ----------------------------------------------------------------------------- *)
let decoder_line mode line =
  match words line with
  | [ "feed"; cs ] ->
      let chunks = Stdlib.List.map bytes_of_hex (Stdlib.String.split_on_char ';' cs) in
      let buf = Stdlib.Buffer.create 256 in
      let rec go k stored = function
        | [] -> ()
        | c :: rest -> (
            if k > 0 then Stdlib.Buffer.add_char buf ' ';
            match Decoder.decode mode stored c with
            | Decoder.DOk (st, outs) ->
                (if outs = [] then Stdlib.Buffer.add_char buf '.'
                 else Stdlib.Buffer.add_string buf (Stdlib.String.concat "," (Stdlib.List.map hex_of_bytes outs)));
                Stdlib.Buffer.add_string buf (Stdlib.Printf.sprintf "|%d" (Stdlib.List.length st));
                go (k + 1) st rest
            | Decoder.DPanic -> Stdlib.Buffer.add_string buf (Stdlib.Printf.sprintf "PANIC@%d" k)
            | Decoder.DOutOfFuel -> Stdlib.Buffer.add_string buf (Stdlib.Printf.sprintf "OUTOFFUEL@%d" k))
      in
      go 0 [] chunks;
      Stdlib.Buffer.contents buf
  | [ "encsz"; n ] -> (
      match Varint.enc (n_of_string n) with Some l -> hex_of_bytes l | None -> "OUTOFFUEL")
  | [ "decsz"; h ] -> (
      match Varint.decode_size (bytes_of_hex h) with
      | Some (sz, used) -> Stdlib.Printf.sprintf "%s %s" (string_of_n sz) (string_of_n used)
      | None -> "none")
  | _ -> fail_line line

(* ---- C07 (sequential histories of events.rs) ------------------------------------------------ *)
let queue_ops line =
  Stdlib.List.map
    (fun w ->
      match Stdlib.String.split_on_char ':' w with
      | [ "S"; e ] -> Queue.Send (n_of_string e)
      | [ "P"; e ] -> Queue.SendPrio (n_of_string e)
      | [ "T"; e; d; now ] -> Queue.SendTimer (n_of_string e, n_of_string d, n_of_string now)
      | [ "C"; dl; sq ] -> Queue.CancelTimer (n_of_string dl, n_of_string sq)
      | [ "R"; now ] -> Queue.TryReceive (n_of_string now)
      | [ "RT"; t; now ] -> Queue.ReceiveTimeout (n_of_string t, n_of_string now)
      | [ "RV"; now ] -> Queue.Receive (n_of_string now)
      | _ -> fail_line line)
    (words line)

let queue_out = function
  | Queue.ONone -> "n"
  | Queue.OId (dl, sq) -> Stdlib.Printf.sprintf "i:%s:%s" (string_of_n dl) (string_of_n sq)
  | Queue.OEvent e -> "e:" ^ string_of_n e
  | Queue.OPrio e -> "e:" ^ string_of_n e
  | Queue.OTimer (_, e) -> "e:" ^ string_of_n e
  | Queue.OBlocked -> "BLOCKED"
  | Queue.OUnit -> "u"

let queue_line line =
  let _, outs = Queue.srun Queue.qinit (queue_ops line) in
  Stdlib.String.concat " " (Stdlib.List.map queue_out outs)

let queuespec_line line =
  let _, outs = Queue.spec_run Queue.spec_init (queue_ops line) in
  Stdlib.String.concat " " (Stdlib.List.map queue_out outs)

(* ---- C06: extracted predicates on observed logs -------------------------------------------- *)
let queuelog_line line =
  match Stdlib.String.split_on_char '|' line with
  | [ left; right ] -> (
      match words left with
      | [ "log"; n; sent ] ->
          let parse l = if Stdlib.String.trim l = "" then [] else Stdlib.List.map n_of_string (Stdlib.String.split_on_char ',' (Stdlib.String.trim l)) in
          let sent = parse sent and recv = parse right in
          let same = QueueLog.same_multiset_b sent recv in
          let rec nat_of_int i = if i <= 0 then Datatypes.O else Datatypes.S (nat_of_int (i - 1)) in
          let fifo = QueueLog.all_fifo_b (nat_of_int (int_of_string n)) [ n_of_int 0; n_of_int 1 ] sent recv in
          Stdlib.Printf.sprintf "%b %b" same fifo
      | _ -> fail_line line)
  | _ -> fail_line line

(* ---- C08 / C16: labelled scenarios with a blocked receiver ----------------------------------- *)
let z_of_opt = function Some n -> Some (z_of_n n) | None -> None

let queuelabels_line line =
  let st = ref Queue.qinit in
  let last = ref "?" in
  let clock = ref Z.zero in
  let note o =
    match o with
    | Queue.OEvent e | Queue.OPrio e | Queue.OTimer (_, e) -> last := "e:" ^ string_of_n e
    | Queue.ONone -> last := "n"
    | _ -> ()
  in
  let fire l =
    match Queue.step !st l with
    | Some (s', o) -> st := s'; note o; true
    | None -> false
  in
  (* let the blocked receiver take every time-based wake-up due up to instant t (None = no bound) *)
  let rec advance (t : Z.t option) =
    match (!st).Queue.rst with
    | Queue.Idle -> ()
    | Queue.Blocked (a, u) ->
        let a = z_of_opt a and u = z_of_opt u in
        let due x = match t with Some t -> Z.leq x t | None -> true in
        let pick =
          match (a, u) with
          | Some a, Some u -> if Z.leq a u then Some (`Alarm a) else Some (`Default u)
          | Some a, None -> Some (`Alarm a)
          | None, Some u -> Some (`Default u)
          | None, None -> None
        in
        (match pick with
         | Some (`Alarm a) when due a ->
             let now = Z.max a !clock in
             clock := now;
             if fire (Queue.LWake (Queue.AAlarm, n_of_z now)) then advance t
         | Some (`Default u) when due u ->
             let now = Z.max u !clock in
             clock := now;
             if fire (Queue.LWake (Queue.ADefault, n_of_z now)) then advance t
         | _ -> ())
  in
  (* channel wake-ups: something arrived while blocked *)
  let rec channel_wakeups () =
    match (!st).Queue.rst with
    | Queue.Idle -> ()
    | Queue.Blocked _ ->
        let s = !st in
        let now = n_of_z !clock in
        if s.Queue.plain <> [] then (if fire (Queue.LWake (Queue.APlain, now)) then channel_wakeups ())
        else if s.Queue.prio <> [] then (if fire (Queue.LWake (Queue.APrio, now)) then channel_wakeups ())
        else if s.Queue.cmds <> [] then (if fire (Queue.LWake (Queue.ACmd, now)) then channel_wakeups ())
  in
  let at now = let z = Z.of_string now in advance (Some z); if Z.gt z !clock then clock := z in
  Stdlib.List.iter
    (fun w ->
      (match Stdlib.String.split_on_char ':' w with
       | [ "TP"; th; e; d; now ] -> at now; ignore (fire (Queue.LTimerPrepare (n_of_string th, n_of_string e, n_of_string d, n_of_string now)))
       | [ "TC"; th; now ] -> at now; ignore (fire (Queue.LTimerCommit (n_of_string th)))
       | [ "S"; e; now ] -> at now; ignore (fire (Queue.LSend (n_of_string e)))
       | [ "P"; e; now ] -> at now; ignore (fire (Queue.LSendPrio (n_of_string e)))
       | [ "C"; dl; sq; now ] -> at now; ignore (fire (Queue.LCancel (n_of_string dl, n_of_string sq)))
       | [ "RB"; tmo; now ] ->
           at now;
           ignore (fire (Queue.LRecvBegin ((if tmo = "-" then None else Some (n_of_string tmo)), n_of_string now)))
       | _ -> fail_line line);
      channel_wakeups ())
    (words line);
  (* no more actions from other threads: run the receiver until its call returns *)
  let rec finish k =
    if k > 0 then (
      match (!st).Queue.rst with
      | Queue.Idle -> ()
      | Queue.Blocked _ -> channel_wakeups (); advance None; finish (k - 1))
  in
  finish 20;
  (match (!st).Queue.rst with Queue.Idle -> !last | Queue.Blocked _ -> "BLOCKED-FOREVER")

(* ---- driver.rs / registry.rs through the scripted adapter ------------------------------------- *)
let split c s = Stdlib.String.split_on_char c s

let parse_ucall t =
  match split '.' t with
  | [ "conn"; ok; peer ] -> Driver.UConnect (ok = "1", n_of_string peer)
  | [ "listen"; ok ] -> Driver.UListen (ok = "1")
  | [ "send"; id; to_; len; ans ] ->
      let st = match ans with "S" -> Driver.Sent | "M" -> Driver.MaxPacketSizeExceeded | "F" -> Driver.ResourceNotFound | _ -> Driver.ResourceNotAvailable in
      Driver.USend ((n_of_string id, n_of_string to_), n_of_string len, st)
  | [ "rm"; id ] -> Driver.URemove (n_of_string id)
  | [ "ready"; id ] -> Driver.UIsReady (n_of_string id)
  | _ -> failwith ("bad ucall " ^ t)

let parse_ucalls t = if t = "-" then [] else Stdlib.List.map parse_ucall (split '+' t)

let parse_label w =
  match split ':' w with
  | [ "c"; u ] -> Driver.LCall (parse_ucall u)
  | [ "p"; id; rd; race0; pend; cbc; chunks; read; race; cbd; accs ] ->
      let chunks =
        if chunks = "-" then []
        else Stdlib.List.map (fun c -> match split '/' c with [ d; cb ] -> (n_of_string d, parse_ucalls cb) | _ -> failwith "chunk") (split ',' chunks)
      in
      let accs =
        if accs = "-" then []
        else
          Stdlib.List.map
            (fun a ->
              match split '/' a with
              | [ one ] -> (match split '.' one with [ "r"; peer ] -> Driver.AccRemote (n_of_string peer) | _ -> failwith "acc")
              | [ d; cb ] -> (match split '.' d with [ "d"; peer; data ] -> Driver.AccData (n_of_string peer, n_of_string data, parse_ucalls cb) | _ -> failwith "acc")
              | _ -> failwith "acc")
            (split ',' accs)
      in
      let a =
        { Driver.a_race0 = parse_ucalls race0;
          a_pending = (match pend with "R" -> Driver.PReady | "I" -> Driver.PIncomplete | _ -> Driver.PDisconnected);
          a_cb_conn = parse_ucalls cbc; a_chunks = chunks;
          a_read = (if read = "D" then Driver.RDisconnected else Driver.RWaitNextEvent);
          a_race = parse_ucalls race; a_cb_disc = parse_ucalls cbd; a_accepts = accs }
      in
      Driver.LProcess (n_of_string id, (if rd = "R" then Driver.Read else Driver.Write), a)
  | _ -> failwith ("bad label " ^ w)

let status_char = function Driver.Sent -> "S" | Driver.MaxPacketSizeExceeded -> "M" | Driver.ResourceNotFound -> "F" | Driver.ResourceNotAvailable -> "A"

let obs_str = function
  | Driver.OEv (Driver.Connected ((id, p), ok)) -> Stdlib.Printf.sprintf "E:C:%s:%s:%d" (string_of_n id) (string_of_n p) (if ok then 1 else 0)
  | Driver.OEv (Driver.Accepted ((id, p), l)) -> Stdlib.Printf.sprintf "E:A:%s:%s:%s" (string_of_n id) (string_of_n p) (string_of_n l)
  | Driver.OEv (Driver.Message ((id, p), d)) -> Stdlib.Printf.sprintf "E:M:%s:%s:%s" (string_of_n id) (string_of_n p) (string_of_n d)
  | Driver.OEv (Driver.Disconnected (id, p)) -> Stdlib.Printf.sprintf "E:D:%s:%s" (string_of_n id) (string_of_n p)
  | Driver.ORet (_, Driver.RConnect (Some (id, p))) -> Stdlib.Printf.sprintf "R:conn:%s:%s" (string_of_n id) (string_of_n p)
  | Driver.ORet (_, Driver.RConnect None) -> "R:conn:none"
  | Driver.ORet (_, Driver.RListen (Some id)) -> "R:listen:" ^ string_of_n id
  | Driver.ORet (_, Driver.RListen None) -> "R:listen:none"
  | Driver.ORet (Driver.USend ((id, _), _, _), Driver.RSend s) -> Stdlib.Printf.sprintf "R:send:%s:%s" (string_of_n id) (status_char s)
  | Driver.ORet (_, Driver.RSend s) -> "R:send:?:" ^ status_char s
  | Driver.ORet (Driver.URemove id, Driver.RRemove b) -> Stdlib.Printf.sprintf "R:rm:%s:%d" (string_of_n id) (if b then 1 else 0)
  | Driver.ORet (_, Driver.RRemove b) -> if b then "R:rm:?:1" else "R:rm:?:0"
  | Driver.ORet (_, Driver.RIsReady None) -> "R:ready:none"
  | Driver.ORet (_, Driver.RIsReady (Some b)) -> if b then "R:ready:1" else "R:ready:0"
  | Driver.OAdapterSend (id, len) -> Stdlib.Printf.sprintf "AS:%s:%s" (string_of_n id) (string_of_n len)
  | Driver.OAdapterSendTo (id, to_, len) -> Stdlib.Printf.sprintf "AT:%s:%s:%s" (string_of_n id) (string_of_n to_) (string_of_n len)

(* a case line may carry the implementation's own trace after " || " *)
let split_trailer line =
  match Stdlib.String.index_opt line '|' with
  | Some i when i + 1 < Stdlib.String.length line && line.[i + 1] = '|' ->
      (Stdlib.String.sub line 0 i, Stdlib.String.sub line (i + 2) (Stdlib.String.length line - i - 2))
  | _ -> (line, "")

let driver_trace line = snd (Driver.drun (Driver.dinit (n_of_int 5)) (Stdlib.List.map parse_label (words (fst (split_trailer line)))))

let parse_obs t =
  let dummy = Driver.UIsReady (n_of_int 0) in
  match split ':' t with
  | [ "E"; "C"; id; p; ok ] -> Driver.OEv (Driver.Connected ((n_of_string id, n_of_string p), ok = "1"))
  | [ "E"; "A"; id; p; l ] -> Driver.OEv (Driver.Accepted ((n_of_string id, n_of_string p), n_of_string l))
  | [ "E"; "M"; id; p; d ] -> Driver.OEv (Driver.Message ((n_of_string id, n_of_string p), n_of_string d))
  | [ "E"; "D"; id; p ] -> Driver.OEv (Driver.Disconnected (n_of_string id, n_of_string p))
  | [ "R"; "conn"; "none" ] -> Driver.ORet (dummy, Driver.RConnect None)
  | [ "R"; "conn"; id; p ] -> Driver.ORet (dummy, Driver.RConnect (Some (n_of_string id, n_of_string p)))
  | [ "R"; "listen"; "none" ] -> Driver.ORet (dummy, Driver.RListen None)
  | [ "R"; "listen"; id ] -> Driver.ORet (dummy, Driver.RListen (Some (n_of_string id)))
  | [ "R"; "send"; _; _ ] -> Driver.ORet (dummy, Driver.RSend Driver.Sent)
  | [ "R"; "rm"; id; b ] -> Driver.ORet (Driver.URemove (n_of_string id), Driver.RRemove (b = "1"))
  | [ "R"; "ready"; _ ] -> Driver.ORet (dummy, Driver.RIsReady None)
  | [ "AS"; id; len ] -> Driver.OAdapterSend (n_of_string id, n_of_string len)
  | [ "AT"; id; to_; len ] -> Driver.OAdapterSendTo (n_of_string id, n_of_string to_, n_of_string len)
  | _ -> failwith ("bad trace item " ^ t)

let driver_line line = Stdlib.String.concat " " (Stdlib.List.map obs_str (driver_trace line))

(* the extracted property predicates on the MODEL's trace of the same script: "<lifecycle ok> <max ends per id>" *)
let driverprops_line line =
  (* the extracted Coq predicates evaluated on the IMPLEMENTATION's trace (after " || ") *)
  let tr = Stdlib.List.map parse_obs (words (snd (split_trailer line))) in
  let ids = Stdlib.List.sort_uniq compare (Stdlib.List.filter_map (function Driver.OEv (Driver.Disconnected (id, _)) -> Some id | Driver.ORet (Driver.URemove id, Driver.RRemove true) -> Some id | _ -> None) tr) in
  let ids = Stdlib.List.filter (fun id -> ResId.resource_type ResId.gen_layout id = ResId.Remote) ids in
  let rec int_of_nat = function Datatypes.O -> 0 | Datatypes.S n -> 1 + int_of_nat n in
  let worst = Stdlib.List.fold_left (fun m id -> max m (int_of_nat (Driver.count_ends id tr))) 0 ids in
  Stdlib.Printf.sprintf "%b %d" (Driver.lifecycle_ok_b tr) worst

(* ---- node.rs: trace inclusion ------------------------------------------------------------------ *)
let node_line mode_unused line =
  ignore mode_unused;
  let thr = function "n" -> Node.TNet | "s" -> Node.TSig | _ -> Node.TExt in
  let ids t = if t = "" then [] else Stdlib.List.map n_of_string (split ',' t) in
  let parse w =
    match split ':' w with
    | [ "cp"; l ] -> Node.LCachePoll (ids l)
    | [ "st" ] -> Node.LStart
    | [ "rp" ] -> Node.LReplayPop
    | [ "re" ] -> Node.LReplayEmpty
    | [ "lc"; t ] -> Node.LLoopCheck (thr t)
    | [ "po"; l ] -> Node.LPoll (ids l)
    | [ "sr"; "-" ] -> Node.LSigRecv None
    | [ "sr"; i ] -> Node.LSigRecv (Some (n_of_string i))
    | [ "lk"; t ] -> Node.LLock (thr t)
    | [ "ck"; t ] -> Node.LCheck (thr t)
    | [ "ce"; t ] -> Node.LCbEnter (thr t)
    | [ "cs"; t ] -> Node.LCbStop (thr t)
    | [ "cx"; t ] -> Node.LCbExit (thr t)
    | [ "ul"; t ] -> Node.LUnlock (thr t)
    | [ "xs" ] -> Node.LExtStop
    | _ -> failwith ("bad node label " ^ w)
  in
  let ws = words line in
  (* which listener mode produced the trace: the sync replay checks without a lock *)
  let rec sync_replay = function "rp" :: "ck:n" :: _ -> true | "rp" :: "lk:n" :: _ -> false | _ :: r -> sync_replay r | [] -> false in
  let has w = Stdlib.List.mem w ws in
  let m = if sync_replay ws then Node.Sync else if has "rp" then Node.Async else if has "lk:s" && not (has "re") then Node.Async else Node.Async in
  let try_mode m =
    let rec go k st = function
      | [] -> "ok"
      | w :: r -> ( match Node.nstep st (parse w) with Some st' -> go (k + 1) st' r | None -> Stdlib.Printf.sprintf "REJECTED@%d:%s" k w)
    in
    go 0 (Node.ninit m) ws
  in
  let r1 = try_mode m in
  if r1 = "ok" then r1 else (let r2 = try_mode (match m with Node.Sync -> Node.Async | Node.Async -> Node.Sync) in if r2 = "ok" then r2 else r1)

let () =
  let core = Sys.argv.(1) in
  let mode = if Stdlib.Array.length Sys.argv > 2 && Sys.argv.(2) = "wrapping" then Base.Wrapping else Base.Checked in
  let f =
    match core with
    | "remoteaddr" -> remoteaddr_line
    | "resid" -> resid_line mode
    | "decoder" -> decoder_line mode
    | "queue" -> queue_line
    | "queuespec" -> queuespec_line
    | "queuelog" -> queuelog_line
    | "driver" -> driver_line
    | "driverprops" -> driverprops_line
    | "node" -> node_line mode
    | "queuelabels" -> queuelabels_line
    | _ -> failwith ("unknown core " ^ core)
  in
  (try
     while true do
       let line = input_line stdin in
       print_string (f line);
       print_char '\n'
     done
   with End_of_file -> ());
  flush stdout

(* conversions between the extracted Coq numbers and zarith / OCaml ints, and text helpers *)
open BinNums

let rec z_of_pos (p : positive) : Z.t =
  match p with
  | Coq_xH -> Z.one
  | Coq_xO q -> Z.shift_left (z_of_pos q) 1
  | Coq_xI q -> Z.succ (Z.shift_left (z_of_pos q) 1)

let z_of_n (n : coq_N) : Z.t = match n with N0 -> Z.zero | Npos p -> z_of_pos p

let rec pos_of_z (z : Z.t) : positive =
  if Z.equal z Z.one then Coq_xH
  else
    let q = pos_of_z (Z.shift_right z 1) in
    if Z.testbit z 0 then Coq_xI q else Coq_xO q

let n_of_z (z : Z.t) : coq_N = if Z.sign z <= 0 then N0 else Npos (pos_of_z z)
let n_of_int (i : int) : coq_N = n_of_z (Z.of_int i)
let int_of_n (n : coq_N) : int = Z.to_int (z_of_n n)
let n_of_string (s : string) : coq_N = n_of_z (Z.of_string s)
let string_of_n (n : coq_N) : string = Z.to_string (z_of_n n)


let unhex (s : string) : string =
  if s = "-" then ""
  else Stdlib.String.init (Stdlib.String.length s / 2) (fun i -> Stdlib.Char.chr (int_of_string ("0x" ^ Stdlib.String.sub s (2 * i) 2)))

let hex (s : string) : string =
  if s = "" then "-"
  else Stdlib.String.concat "" (Stdlib.List.map (fun c -> Stdlib.Printf.sprintf "%02x" (Stdlib.Char.code c)) (Stdlib.List.of_seq (Stdlib.String.to_seq s)))

(* byte lists as the model sees them: list of N *)
let bytes_of_hex (s : string) : coq_N list =
  let b = unhex s in
  Stdlib.List.init (Stdlib.String.length b) (fun i -> n_of_int (Stdlib.Char.code b.[i]))

let hex_of_bytes (l : coq_N list) : string =
  if l = [] then "-"
  else Stdlib.String.concat "" (Stdlib.List.map (fun n -> Stdlib.Printf.sprintf "%02x" (int_of_n n)) l)

let words (line : string) : string list =
  Stdlib.List.filter (fun w -> w <> "") (Stdlib.String.split_on_char ' ' line)
